//! C14 — every door through which a `Manifest` / `ManifestContent` comes into
//! being is held to the name rule.
//!
//! The first two workloads of `c14.rs` feed hostile names to
//! `ManifestContent::take_from` and `Manifest::decode` only; the other entry
//! points were reached with values those two had already let through. Here one
//! and the same manifest - written by the harness' own DER/BER + CMS encoder,
//! with names the statement's grammar refuses (`../x.cer`, `a/b.roa`, NUL,
//! empty, over-long, ...) next to valid ones - is pushed through every public
//! entry point that creates such a value from octets or from a serde
//! transport:
//!
//! * `ManifestContent::take_from` via `Mode::Der` / `Mode::Ber`, `Bytes` and
//!   slice sources;
//! * `Manifest::decode`, strict and relaxed, `Bytes` and slice sources;
//! * `SignedObject::decode` / `decode_if_type` / `take_from` (strict / relaxed)
//!   followed by `decode_content(ManifestContent::take_from)`;
//! * `<Manifest as Deserialize>`: `serde_json` (`from_str`, with escapes,
//!   `from_slice`, `from_reader`, `from_value`, inside an array / an option)
//!   and every transport of `crate::serde_tok` (human-readable and compact;
//!   borrowed / transient / owned strings; structs as maps or sequences; the
//!   base64 text also as a byte token). The base64 text comes from the encoder
//!   below, the JSON text is written by hand: no serialiser of the library
//!   or of serde_json is involved in producing the input.
//!
//! The expectation never comes from another door: whatever a door hands out is
//! judged by `check_content_ext` (name grammar of the statement, `len()` ==
//! `iter().count()`, `iter()` / `iter_uris(base)` without panic, URIs directly
//! inside the base, entries as encoded, time order, hash verification), with
//! the door in the violation signature. A door that refuses is fine; which door
//! accepted / refused which class of name is recorded. The doors of one case
//! run one after the other on one thread and the group that goes first rotates,
//! so a door that leaves something behind for the next one is in view as well.
//! In a build with the crate's `compat` feature (stage `compat`) the same runs
//! against the library as it behaves under that feature.

use super::*;
use crate::serde_tok::{De, Tok};

//------------ doors and their signature suffixes --------------------------------

/// (path prefix, group used in observations, suffix of violation signatures)
const DOORS: &[(&str, &str, &str)] = &[
    ("door:take-from-der", "take-from-der", ":door-take-from-der"),
    ("door:take-from-ber", "take-from-ber", ":door-take-from-ber"),
    ("door:manifest-decode-strict", "manifest-decode-strict", ":door-manifest-decode-strict"),
    ("door:manifest-decode-relaxed", "manifest-decode-relaxed", ":door-manifest-decode-relaxed"),
    ("door:sigobj-strict", "sigobj-strict-decode-content", ":door-signed-object-strict-decode-content"),
    ("door:sigobj-relaxed", "sigobj-relaxed-decode-content", ":door-signed-object-relaxed-decode-content"),
    ("door:serde-json", "serde-json", ":door-serde-json"),
    ("door:serde-tok-human-readable", "serde-tok-human-readable", ":door-serde-human-readable-format"),
    ("door:serde-tok-compact", "serde-tok-compact", ":door-serde-compact-format"),
];

/// The signature suffix of a door path; None for the paths of the other workloads.
pub(super) fn suffix(path: &str) -> Option<&'static str> {
    if !path.starts_with("door:") {
        return None;
    }
    DOORS.iter().find(|d| path.starts_with(d.0)).map(|d| d.2)
}

fn group(path: &str) -> &'static str {
    DOORS.iter().find(|d| path.starts_with(d.0)).map(|d| d.1).unwrap_or("other")
}

//------------ base64 (standard alphabet, padded), independent of the library -----

const B64: &[u8; 64] = b"ABCDEFGHIJKLMNOPQRSTUVWXYZabcdefghijklmnopqrstuvwxyz0123456789+/";

fn base64(data: &[u8]) -> String {
    let mut out = String::with_capacity(data.len().div_ceil(3) * 4);
    for chunk in data.chunks(3) {
        let b = [chunk[0], *chunk.get(1).unwrap_or(&0), *chunk.get(2).unwrap_or(&0)];
        let n = ((b[0] as u32) << 16) | ((b[1] as u32) << 8) | b[2] as u32;
        out.push(B64[(n >> 18) as usize & 63] as char);
        out.push(B64[(n >> 12) as usize & 63] as char);
        out.push(if chunk.len() > 1 { B64[(n >> 6) as usize & 63] as char } else { '=' });
        out.push(if chunk.len() > 2 { B64[n as usize & 63] as char } else { '=' });
    }
    out
}

/// The JSON string literal of a base64 text, with every `/` written `\/` and
/// the first character written `\u00XX`: the parser has to unescape and cannot
/// lend the text out of its input.
fn json_escaped(b64: &str) -> String {
    let mut out = String::with_capacity(b64.len() + 16);
    out.push('"');
    for (i, ch) in b64.chars().enumerate() {
        if i == 0 {
            out.push_str(&format!("\\u{:04x}", ch as u32));
        } else if ch == '/' {
            out.push_str("\\/");
        } else {
            out.push(ch);
        }
    }
    out.push('"');
    out
}

//------------ case generator --------------------------------------------------------

/// The names the family is about come up in half of the hostile cases; the
/// other half draws from all hostile shapes of the first workload.
const DOOR_HOSTILE: &[&str] = &[
    "dotdot-prefix",
    "dotdot-prefix",
    "slash-inside",
    "slash-inside",
    "nul-inside",
    "nul-after-ext",
    "empty",
    "long-with-slash",
    "over-long-hostile",
    "absolute-uri",
    "dotdot-only",
    "two-dots",
    "no-dot",
    "space-inside",
];

/// Names far beyond the 1100 octets of the first workload.
fn gen_over_long(rng: &mut Rng, hostile: bool) -> Vec<u8> {
    let total = *rng.pick(&[1_101usize, 4_096, 4_097, 65_535, 65_536, 70_000]);
    if !hostile {
        let mut v = rand_from(rng, STEM_ALL, total - 4);
        v.extend_from_slice(b".roa");
        return v;
    }
    match rng.below(4) {
        0 => {
            // valid characters, one slash somewhere
            let mut v = rand_from(rng, STEM_ALL, total - 4);
            let p = rng.usize_below(v.len());
            v[p] = b'/';
            v.extend_from_slice(b".roa");
            v
        }
        1 => {
            // ../../../ ... /x.cer
            let mut v = Vec::with_capacity(total + 8);
            while v.len() + 8 < total {
                v.extend_from_slice(b"../");
            }
            v.extend_from_slice(b"x.cer");
            v
        }
        2 => {
            // the defect sits at the very end
            let mut v = rand_from(rng, STEM_ALL, total - 5);
            v.extend_from_slice(b".roaa");
            v
        }
        _ => {
            // a NUL right after a name that would be fine
            let mut v = rand_from(rng, STEM_ALL, 6);
            v.extend_from_slice(b".roa\0");
            v.extend(rand_from(rng, STEM_ALL, total - 11));
            v
        }
    }
}

fn gen_door_case(rng: &mut Rng, stage: Stage, sha_ok: bool) -> Case {
    let small = stage == Stage::Miri;
    let n = match rng.below(20) {
        0 => 0usize,
        1..=5 => 1,
        6..=15 => rng.range(2, 8) as usize,
        16..=18 => rng.range(9, 40) as usize,
        _ => {
            if small {
                rng.range(9, 14) as usize
            } else {
                rng.range(41, 300) as usize
            }
        }
    };
    let mut entries: Vec<Entry> = Vec::with_capacity(n + 1);
    let mut with_data_left = if sha_ok { 2 } else { 0 };
    for _ in 0..n {
        let shape: &'static str = *rng.pick(VALID_SHAPES);
        let shape = if (shape == "valid:max-1100" || shape == "valid:long-stem") && !rng.chance(1, 8) { "valid:plain" } else { shape };
        let name = gen_valid(rng, shape, small);
        let with_data = with_data_left > 0 && rng.chance(1, 2);
        if with_data {
            with_data_left -= 1;
        }
        entries.push(mk_entry(rng, name, shape, with_data, false));
    }
    let mut focus: &'static str = entries.first().map(|e| e.shape).unwrap_or("no-entries");
    let mut focus_pos: &'static str = "-";
    let mut ber = None;
    // one case in five is a control without any hostile name
    let hostile = if rng.chance(1, 5) {
        0
    } else if rng.chance(3, 4) {
        1
    } else {
        rng.range(2, 4) as usize
    };
    if hostile == 0 && !small && rng.chance(1, 10) {
        // a name far longer than anything usual that the grammar still accepts
        let name = gen_over_long(rng, false);
        let e = mk_entry(rng, name, "valid:over-long", false, false);
        let at = rng.usize_below(entries.len() + 1);
        entries.insert(at, e);
        focus = "valid:over-long";
    }
    for h in 0..hostile {
        let shape: &'static str = if rng.bool() { *rng.pick(DOOR_HOSTILE) } else { *rng.pick(HOSTILE_SHAPES) };
        let shape = if shape == "over-long-hostile" && (small || !rng.chance(1, 3)) { "long-with-slash" } else { shape };
        let name = if shape == "over-long-hostile" { gen_over_long(rng, true) } else { gen_hostile(rng, shape, small) };
        let mut e = mk_entry(rng, name, shape, false, false);
        // now and then the name is a BER constructed string: strict doors refuse
        // the encoding, relaxed doors have to look at the joined octets
        if h == 0 && e.name.len() >= 2 && rng.chance(1, 12) {
            e.name_enc = NameEnc::Segments(rng.range(2, 3) as usize);
            ber = Some("segmented-name-hostile-split");
        }
        let (at, label): (usize, &'static str) = if entries.is_empty() {
            (0, "only")
        } else {
            match rng.below(3) {
                0 => (0, "first"),
                1 => (entries.len(), "last"),
                _ => (rng.usize_below(entries.len() + 1), "middle"),
            }
        };
        entries.insert(at, e);
        if h == 0 {
            focus = shape;
            focus_pos = label;
        } else {
            focus_pos = "several";
        }
    }
    let (number, number_class) = loop {
        let (n, c) = gen_number(rng);
        if number_valid(c) {
            break (n, c);
        }
    };
    let t = 1_500_000_000 + rng.below(400_000_000) as i64;
    // the order of the two times is part of the statement as well: one case in
    // ten has them reversed (every door has to refuse it, or else hand out
    // a value whose times are in order)
    let span = if rng.chance(1, 10) { -*rng.pick(&[1i64, 3600, 366 * 86_400]) } else { *rng.pick(&[0i64, 1, 3600, 86_400, 7 * 86_400, 366 * 86_400]) };
    Case {
        plan: "doors",
        focus,
        focus_pos,
        version: if rng.chance(1, 10) { "explicit-0" } else { "absent" },
        number,
        number_class,
        this_update: TimeSpec { ts: t, utc: rng.chance(1, 6), defect: None },
        next_update: TimeSpec { ts: t + span, utc: rng.chance(1, 6), defect: None },
        time_order: if span == 0 {
            "equal"
        } else if span == -1 {
            "this-1s-after-next"
        } else if span < 0 {
            "this-after-next"
        } else {
            "next-later"
        },
        alg: "sha256",
        entries,
        structure: None,
        ber,
        object: None,
    }
}

//------------ one door's outcome -------------------------------------------------------

/// What a door handed out, kept as it came (no clone in between).
enum Held {
    Content(ManifestContent),
    Manifest(Manifest),
}

impl Held {
    fn content(&self) -> &ManifestContent {
        match self {
            Held::Content(c) => c,
            Held::Manifest(m) => m.content(),
        }
    }
}

impl From<ManifestContent> for Held {
    fn from(c: ManifestContent) -> Held {
        Held::Content(c)
    }
}

impl From<Manifest> for Held {
    fn from(m: Manifest) -> Held {
        Held::Manifest(m)
    }
}

enum Got {
    Content(Held),
    Rejected(String),
    Panicked(String),
}

fn got<T: Into<Held>>(r: Result<Result<T, String>, String>) -> Got {
    match r {
        Ok(Ok(v)) => Got::Content(v.into()),
        Ok(Err(e)) => Got::Rejected(e),
        Err(p) => Got::Panicked(p),
    }
}

struct CaseBook {
    names: NameVerdict,
    other: Option<String>,
    class: &'static str,
    accepted_by: Vec<&'static str>,
    refused_by: Vec<&'static str>,
    errors: Vec<(String, String)>,
}

/// Judges what a door handed out and books the outcome.
fn door(ctx: &mut Ctx, k: &mut Counters, book: &mut CaseBook, c: &Case, econtent: &[u8], path: &str, verify: bool, outcome: Got) {
    let g = group(path);
    k.evals += 1;
    let hostile_n = match c.focus_pos {
        "-" => "0",
        "several" => "2-4",
        _ => "1",
    };
    match outcome {
        Got::Content(held) => {
            let content = held.content();
            ctx.obs(&format!("door:{g}:accepted:{}", book.class), 1);
            if !book.accepted_by.contains(&g) {
                book.accepted_by.push(g);
            }
            ctx.sig(&format!("door={path} shape={} accepted", c.focus));
            ctx.sig(&format!("door-group={g} hostile={hostile_n} accepted n={}", count_class(c.entries.len())));
            let limit = c.entries.len() + content.len() + 8;
            let iter_panics = catch(|| content.iter().take(limit).count()).is_err();
            check_content_ext(ctx, k, content, c, econtent, path, verify, &[], 2);
            if iter_panics {
                // check_content_ext has reported iter() and stopped there; the URIs
                // are a law of their own
                let sfx = suffix(path).unwrap_or("");
                for (base_text, _) in BASES.iter().take(2) {
                    let Ok(base) = Rsync::from_str(base_text) else { continue };
                    k.evals += 1;
                    let _ = ctx.no_panic(
                        &format!("iter_uris{sfx}"),
                        || {
                            let mut d = case_detail(c, econtent, path);
                            d["base"] = json!(base_text);
                            d
                        },
                        || content.iter_uris(&base).take(limit).count(),
                    );
                }
            }
            if book.class == "valid" {
                ctx.sample(if g.starts_with("serde") { "door:serde:valid-manifest-accepted" } else { "door:valid-manifest-accepted" }, || {
                    json!({"door": path, "entries": c.entries.len(), "len": content.len(), "first_name": c.entries.first().map(|e| show(&e.name))})
                });
            }
        }
        Got::Rejected(e) => {
            ctx.obs(&format!("door:{g}:rejected:{}", book.class), 1);
            if !book.refused_by.contains(&g) {
                book.refused_by.push(g);
            }
            match book.names {
                NameVerdict::Bad(why) if book.other.is_none() => {
                    // refused and the only thing wrong is a name: non-trivial
                    ctx.sig(&format!("door={path} shape={} rejected-name={why}", c.focus));
                    ctx.sig(&format!("door-group={g} hostile={hostile_n}@{} rejected-name n={}", c.focus_pos, count_class(c.entries.len())));
                }
                NameVerdict::Bad(_) => {}
                _ if book.other.is_none() && c.object.as_ref().map(|o| o["cms_variant"] == "plain").unwrap_or(true) => {
                    // nothing wrong in the model, the statement does not oblige the door to accept
                    ctx.obs(&format!("door:{g}:model-valid-but-rejected"), 1);
                    ctx.sample("door:observation:valid-but-rejected", || json!({"door": path, "library_error": error_key(&e), "focus": c.focus, "entries": c.entries.len()}));
                }
                _ => {}
            }
            if book.errors.len() < 12 && !book.errors.iter().any(|(d, _)| d == g) {
                book.errors.push((g.to_string(), error_key(&e)));
            }
        }
        Got::Panicked(p) => {
            // a panic while decoding is C04's subject (as in the other workloads)
            ctx.obs(&format!("door:{g}:decode-panicked"), 1);
            let note = format!("C14: door {g} panicked while decoding at {} (not a C14 verdict; see C04)", panic_location(&p));
            if !ctx.notes.contains(&note) {
                ctx.notes.push(note);
            }
        }
    }
}

//------------ one case through every door -------------------------------------------------

fn run_door_case(ctx: &mut Ctx, k: &mut Counters, cms: Option<&Cms>, rng: &mut Rng, index: u64) {
    let stage = ctx.stage;
    let sha_ok = !ctx.no_ffi();
    let mut c = gen_door_case(rng, stage, sha_ok);
    let econtent = encode_case(&c);
    let names = names_verdict(&c);
    let other = other_defect(&c);
    let class = match names {
        NameVerdict::Ok => "valid",
        NameVerdict::EmptyStem => "empty-stem",
        NameVerdict::Bad(_) => "hostile",
    };
    ctx.obs("door:cases", 1);
    ctx.obs(&format!("door:cases:{class}"), 1);
    ctx.obs_max("door:name_length", c.entries.iter().map(|e| e.name.len()).max().unwrap_or(0) as u64);
    if stage != Stage::Native && index % 16 == 0 {
        ctx.breadcrumb(&format!("door case {index}: focus={} entries={} econtent={}", c.focus, c.entries.len(), hex(&econtent[..econtent.len().min(2000)])));
    }
    let variant: &'static str = if rng.chance(1, 4) { *rng.pick(&["digest-alg-null", "sha256-with-rsa", "segmented-econtent"]) } else { "plain" };
    let signed = cms.map(|cms| cms.wrap(&econtent, variant));
    let hostile_names: Vec<String> = c.entries.iter().filter(|e| matches!(judge_name(&e.name), NameVerdict::Bad(_))).take(4).map(|e| show(&e.name)).collect();
    c.object = Some(json!({
        "workload": "doors",
        "hostile_names": hostile_names,
        "cms_variant": variant,
        "signed_object_hex": signed.as_ref().map(|s| if s.len() <= 6000 { hex(s) } else { format!("{}… ({} octets)", hex(&s[..1200]), s.len()) }),
        "serde_input": "the base64 text (standard alphabet, padded) of the signed object, as a JSON string / string token",
    }));
    let c = c;
    let mut book = CaseBook { names, other, class, accepted_by: Vec::new(), refused_by: Vec::new(), errors: Vec::new() };

    // The doors are tried one after the other on the same thread; the group that
    // goes first rotates with the case, so that every door is also seen right
    // after every other group has just refused (or accepted) a manifest.
    let b64 = signed.as_ref().map(|s| base64(s));
    let first = rng.usize_below(5);
    for gi in 0..5 {
        match ((first + gi) % 5, &signed, &b64) {
            // ---- ManifestContent::take_from
            (0, _, _) => {
                for (mode, m) in [(Mode::Der, "der"), (Mode::Ber, "ber")] {
                    for (bytes_source, s) in [(true, "bytes"), (false, "slice")] {
                        let path = format!("door:take-from-{m}/{s}");
                        let outcome = match decode_content(mode, &econtent, bytes_source) {
                            Decoded::Ok(content) => Got::Content(content.into()),
                            Decoded::Rejected(e) => Got::Rejected(e),
                            Decoded::Panicked(p) => Got::Panicked(p),
                        };
                        door(ctx, k, &mut book, &c, &econtent, &path, sha_ok, outcome);
                    }
                }
            }
            // ---- Manifest::decode
            (1, Some(signed), _) => {
                for (strict, m) in [(true, "strict"), (false, "relaxed")] {
                    let path = format!("door:manifest-decode-{m}/bytes");
                    let r = catch(|| Manifest::decode(Bytes::copy_from_slice(signed), strict).map_err(|e| e.to_string()));
                    door(ctx, k, &mut book, &c, &econtent, &path, true, got(r));
                    let path = format!("door:manifest-decode-{m}/slice");
                    let r = catch(|| Manifest::decode(signed.as_slice(), strict).map_err(|e| e.to_string()));
                    door(ctx, k, &mut book, &c, &econtent, &path, true, got(r));
                }
            }
            // ---- SignedObject::decode / decode_if_type / take_from, then decode_content
            (2, Some(signed), _) => {
                for (strict, m) in [(true, "strict"), (false, "relaxed")] {
                    let mode = if strict { Mode::Der } else { Mode::Ber };
                    let (how, so) = match (index + 2 * strict as u64) % 4 {
                        0 => ("decode-bytes", catch(|| SignedObject::decode(Bytes::copy_from_slice(signed), strict).map_err(|e| e.to_string()))),
                        1 => ("decode-slice", catch(|| SignedObject::decode(signed.as_slice(), strict).map_err(|e| e.to_string()))),
                        2 => ("decode_if_type-bytes", catch(|| SignedObject::decode_if_type(Bytes::copy_from_slice(signed), &rpki::oid::CT_RPKI_MANIFEST, strict).map_err(|e| e.to_string()))),
                        _ => ("take_from-slice", catch(|| mode.decode(signed.as_slice(), SignedObject::take_from).map_err(|e| e.to_string()))),
                    };
                    let path = format!("door:sigobj-{m}/{how}");
                    match so {
                        Ok(Ok(so)) => {
                            ctx.obs(&format!("door:sigobj-{m}:object-decoded"), 1);
                            let r = catch(|| so.decode_content(|cons| ManifestContent::take_from(cons)).map_err(|e| e.to_string()));
                            door(ctx, k, &mut book, &c, &econtent, &path, true, got(r));
                        }
                        Ok(Err(e)) => {
                            // the wrapper itself was refused: nothing came into being
                            ctx.obs(&format!("door:sigobj-{m}:object-rejected:{}", error_key(&e)), 1);
                        }
                        Err(_) => ctx.obs(&format!("door:sigobj-{m}:object-decode-panicked"), 1),
                    }
                }
            }
            // ---- <Manifest as Deserialize>, serde_json
            (3, Some(_), Some(b64)) => {
                let plain = format!("\"{b64}\"");
                let r = catch(|| serde_json::from_str::<Manifest>(&plain).map_err(|e| e.to_string()));
                door(ctx, k, &mut book, &c, &econtent, "door:serde-json/from_str", true, got(r));
                let escaped = json_escaped(b64);
                let r = catch(|| serde_json::from_str::<Manifest>(&escaped).map_err(|e| e.to_string()));
                door(ctx, k, &mut book, &c, &econtent, "door:serde-json/from_str-escaped", true, got(r));
                let r = catch(|| serde_json::from_slice::<Manifest>(plain.as_bytes()).map_err(|e| e.to_string()));
                door(ctx, k, &mut book, &c, &econtent, "door:serde-json/from_slice", true, got(r));
                let r = catch(|| serde_json::from_reader::<_, Manifest>(plain.as_bytes()).map_err(|e| e.to_string()));
                door(ctx, k, &mut book, &c, &econtent, "door:serde-json/from_reader", true, got(r));
                let r = catch(|| serde_json::from_value::<Manifest>(Value::String(b64.clone())).map_err(|e| e.to_string()));
                door(ctx, k, &mut book, &c, &econtent, "door:serde-json/from_value", true, got(r));
                // inside a container: the element deserialiser is driven by the container's visitor
                let arr = format!("[{plain}]");
                let r = catch(|| serde_json::from_str::<Vec<Manifest>>(&arr).map_err(|e| e.to_string()).and_then(|mut v| v.pop().ok_or_else(|| "empty array".to_string())));
                door(ctx, k, &mut book, &c, &econtent, "door:serde-json/in-array", true, got(r));
                let r = catch(|| serde_json::from_str::<Option<Manifest>>(&plain).map_err(|e| e.to_string()).and_then(|v| v.ok_or_else(|| "null".to_string())));
                door(ctx, k, &mut book, &c, &econtent, "door:serde-json/in-option", true, got(r));
            }
            // ---- <Manifest as Deserialize>, every transport of the token format
            (4, Some(_), Some(b64)) => {
                let tok = Tok::Str(b64.clone());
                let tok_bytes = Tok::Bytes(b64.clone().into_bytes());
                let tok_some = Tok::Some(Box::new(Tok::Str(b64.clone())));
                for hr in [index % 2 == 0, index % 2 != 0] {
                    let fmt = if hr { "human-readable" } else { "compact" };
                    for (j, cfg) in De::all(hr).into_iter().enumerate() {
                        let t = format!("{:?}/{}", cfg.strings, if cfg.structs_as_seq { "structs-as-seq" } else { "structs-as-map" });
                        let path = format!("door:serde-tok-{fmt}/{t}");
                        let r = catch(|| serde_tok::from_tok::<Manifest>(&tok, cfg).map_err(|e| e.to_string()));
                        door(ctx, k, &mut book, &c, &econtent, &path, true, got(r));
                        // the text as a byte token, and wrapped in an option: one transport per case
                        if j as u64 == index % 6 {
                            let path = format!("door:serde-tok-{fmt}/{t}/byte-token");
                            let r = catch(|| serde_tok::from_tok::<Manifest>(&tok_bytes, cfg).map_err(|e| e.to_string()));
                            door(ctx, k, &mut book, &c, &econtent, &path, true, got(r));
                            let path = format!("door:serde-tok-{fmt}/{t}/in-option");
                            let r = catch(|| serde_tok::from_tok::<Option<Manifest>>(&tok_some, cfg).map_err(|e| e.to_string()).and_then(|v| v.ok_or_else(|| "none".to_string())));
                            door(ctx, k, &mut book, &c, &econtent, &path, true, got(r));
                        }
                    }
                }
            }
            // (no signed object under Miri: the content doors only)
            _ => {}
        }
    }

    // ---- which doors let the case in
    book.accepted_by.sort();
    let pattern = if book.accepted_by.is_empty() {
        "refused-by-every-door".to_string()
    } else if book.refused_by.is_empty() {
        "accepted-by-every-door".to_string()
    } else {
        format!("accepted-only-by:{}", book.accepted_by.join("+"))
    };
    let why = match (names, &book.other) {
        (NameVerdict::Bad(_), None) => "hostile-name".to_string(),
        (NameVerdict::Bad(_), Some(o)) => format!("hostile-name+{o}"),
        (_, Some(o)) => format!("{class}-names+{o}"),
        (_, None) => format!("{class}-names"),
    };
    let why = if variant == "plain" || signed.is_none() { why } else { format!("{why}+cms:{variant}") };
    ctx.obs(&format!("doors:{why}:{pattern}"), 1);
    if let NameVerdict::Bad(_) = names {
        if book.accepted_by.is_empty() {
            ctx.obs(&format!("doors:hostile-shape-refused-by-every-door:{}", c.focus), 1);
            ctx.sample("door:hostile-refused-by-every-door", || {
                json!({
                    "hostile_names": c.object.as_ref().map(|o| o["hostile_names"].clone()),
                    "shape": c.focus,
                    "position": c.focus_pos,
                    "entries": c.entries.len(),
                    "cms_variant": variant,
                    "doors_refusing": book.refused_by,
                    "library_errors": book.errors.iter().map(|(d, e)| format!("{d}: {e}")).collect::<Vec<_>>(),
                })
            });
        } else {
            ctx.obs(&format!("doors:hostile-shape-accepted-by-some-door:{}", c.focus), 1);
        }
    }
}

pub(super) fn run_doors(ctx: &mut Ctx, k: &mut Counters, cms: Option<&Cms>) {
    let total = ctx.stage_budget((6_400, 128_000), if ctx.tier == Tier::Thorough { 6_400 } else { 800 }, 16, 160);
    let mut rng = ctx.rng("doors");
    let t0 = ctx.elapsed_s();
    for i in 0..total {
        run_door_case(ctx, k, cms, &mut rng, i);
    }
    if std::env::var_os("C14_DOORS_TIMING").is_some() {
        ctx.obs_max("door:workload_wall_ms", ((ctx.elapsed_s() - t0) * 1000.0) as u64);
    }
    if cms.is_none() {
        ctx.obs("door:cases-content-doors-only", total);
    }
}
