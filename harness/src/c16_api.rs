//! C16 helper: (a) the public API of `rtr::pdu` that moves a serial number or
//! a state (session id + serial number) between a value and a PDU, enumerated
//! by hand; (b) the idle client's reaction to a Serial Notify as a function of
//! the two serial numbers involved.
//!
//! # (a) API enumeration
//!
//! "Wire conversion is big-endian and lossless" has to hold at every door of
//! the API, not just at `Serial::to_be` / `from_be`. The list below was
//! written by reading `src/rtr/pdu.rs` (and `state.rs`) item by item; an item
//! of the crate that is not in it is a review item. Every item is exercised
//! with values whose octets are all different or that sit in one octet only
//! (0x00000100, 0x00010000, 0xdeadbeef, 0xefbeadde, ...), so that a dropped
//! or doubled conversion shows. The expectation is always the octet string
//! the RFC prescribes, produced by the independent encoder of `c07_io`.
//!
//! value -> PDU (constructors), judged on the octets `as_ref()` and `write()`
//! give:
//!   Header::new (session at 2..4) . SerialNotify::new . SerialQuery::new .
//!   SerialQueryPayload::new . CacheResponse::new . EndOfDataV0::new .
//!   EndOfDataV1::new . EndOfData::new (versions 0, 1, 2)
//! PDU -> value (accessors), judged on PDUs made by the constructors *and* on
//! PDUs read from independently encoded octets:
//!   Header::session . {SerialNotify, SerialQuery, CacheResponse,
//!   EndOfDataV0, EndOfDataV1}::session . SerialQueryPayload::serial .
//!   EndOfDataV0::serial . EndOfDataV1::serial . EndOfData::{session, serial,
//!   state}
//! octets -> PDU (readers), each followed by the accessors and by `as_ref()`
//! giving back the octets that were read (lossless):
//!   Header::read . SerialQueryPayload::read . {SerialNotify, SerialQuery,
//!   CacheResponse, EndOfDataV0, EndOfDataV1}::{read, try_read, read_payload}
//!   . EndOfData::read_payload . Payload::read (ends in End of Data) .
//!   `AsMut<[u8]>` of each fixed-size type (the buffer the readers fill)
//! state.rs:
//!   State::from_parts / session / serial . State::new_with_serial .
//!   Serial::to_be / from_be (c16.rs)
//!
//! Not in the list because they do not exist in the crate as it stands:
//! a serial accessor on `SerialNotify` and on `SerialQuery` (only
//! `SerialQueryPayload::serial` is public). An accessor added later is not
//! covered until it is added here; its *effects* inside the library are what
//! (b) and `c16_wire.rs` look at.
//!
//! # (b) the idle client
//!
//! After a completed exchange `Client::step` waits for a Serial Notify or for
//! the refresh timer. Whether a client reacts to a notification at once or
//! sits it out is not this property's subject - a client that ignores a
//! notification for the very serial it already holds would be perfectly
//! legitimate, and so would one that ignores all of them. What the statement
//! does say is that any relation between two serial numbers depends only on
//! their difference modulo 2^32 and that the conversion from the wire is
//! lossless. So the reaction to "router holds S, cache announces N" must be
//! the same for every pair with the same N - S: for the pair shifted by any
//! constant, and in particular for pairs that are related in some other way
//! than by their difference - N being S with its octets reversed (256 and
//! 65536, 0xdeadbeef and 0xefbeadde), with its halves swapped, S and N on
//! both sides of the wrap or of 2^31.
//!
//! The client runs under a paused tokio clock against a scripted cache on an
//! in-memory duplex pipe; the cache notes how much virtual time passes
//! between its Serial Notify and the client's next query (0 if the client
//! reacts, the refresh interval if it sits the notification out). Each group
//! is a list of (S, N) with one difference; the first member is a pair of
//! small numbers whose octets are unrelated (for differences below 2^31 with
//! no edge of the number space between them: the "plain" pair). A member
//! whose reaction class differs from the first member's is a violation. When
//! the query comes it must carry S.
//!
//! This file is included from `c16.rs` with `#[path]`.

use super::wire::{state_json, Tgt};
use crate::c07_io::{drive, Pdu as WirePdu};
use crate::c08::io::new_runtime;
use crate::core::{hex, Ctx, Rng, Stage, Tier};
use rpki::rtr::client::Client;
use rpki::rtr::payload::Timing;
use rpki::rtr::pdu;
use rpki::rtr::state::{Serial, State};
use serde_json::{json, Value};
use std::time::Duration;
use tokio::io::{AsyncReadExt, AsyncWriteExt};

//------------ (a) ------------------------------------------------------------------------------

/// Values whose octets tell every position apart, and their mirror images.
const SERIALS: [u32; 22] = [
    0x0000_0100,
    0x0001_0000,
    0xDEAD_BEEF,
    0xEFBE_ADDE,
    0x0102_0304,
    0x0403_0201,
    0x0000_00FF,
    0xFF00_0000,
    0x0000_0080,
    0x8000_0000,
    0x7FFF_FFFF,
    0xFFFF_FF7F,
    0x0000_0001,
    0x0100_0000,
    0x00FF_0000,
    0x0000_FF00,
    0xFFFF_FFFE,
    0xFEFF_FFFF,
    0x1234_5678,
    0x7856_3412,
    0,
    0xFFFF_FFFF,
];

const SESSIONS: [u16; 10] = [0x0100, 0x0001, 0xBEEF, 0xEFBE, 0x00FF, 0xFF00, 0x1234, 0x3412, 0, 0xFFFF];

struct Api<'a> {
    ctx: &'a mut Ctx,
    items: std::collections::BTreeSet<&'static str>,
    checks: u64,
}

impl Api<'_> {
    /// One comparison for one item of the list.
    fn check(&mut self, item: &'static str, ok: bool, detail: impl FnOnce() -> Value) {
        self.checks += 1;
        self.items.insert(item);
        if !ok {
            let d = detail();
            self.ctx.violation(&format!("C16:pdu-api:{item}"), &format!("{item}: a session id / serial number does not cross between the value and the octets big-endian and unchanged: {d}"), d);
        }
    }
}

fn now<F: std::future::Future>(f: F) -> Option<F::Output> {
    drive(f, 64).0
}

/// Reads `bytes` through each of the three readers of a fixed-size PDU type.
macro_rules! read_three_ways {
    ($api:expr, $ty:ty, $name:literal, $bytes:expr, $check:expr) => {{
        let bytes: &[u8] = $bytes;
        let check = $check;
        let mut rd: &[u8] = bytes;
        let got = now(<$ty>::read(&mut rd)).and_then(|r| r.ok());
        $api.check(concat!($name, "::read"), got.map_or(false, |p| check(&p) && p.as_ref() == bytes), || json!({"octets": hex(bytes), "read": got.map(|p| hex(p.as_ref()))}));
        let mut rd: &[u8] = bytes;
        let got = now(<$ty>::try_read(&mut rd)).and_then(|r| r.ok()).and_then(|r| r.ok());
        $api.check(concat!($name, "::try_read"), got.map_or(false, |p| check(&p) && p.as_ref() == bytes), || json!({"octets": hex(bytes), "read": got.map(|p| hex(p.as_ref()))}));
        let mut rd: &[u8] = bytes;
        let got = now(async {
            let h = pdu::Header::read(&mut rd).await?;
            <$ty>::read_payload(h, &mut rd).await
        })
        .and_then(|r| r.ok());
        $api.check(concat!($name, "::read_payload"), got.map_or(false, |p| check(&p) && p.as_ref() == bytes), || json!({"octets": hex(bytes), "read": got.map(|p| hex(p.as_ref()))}));
        // the buffer the readers fill
        let mut p = <$ty>::default();
        if p.as_mut().len() == bytes.len() {
            p.as_mut().copy_from_slice(bytes);
            $api.check(concat!($name, "::as_mut"), check(&p) && p.as_ref() == bytes, || json!({"octets": hex(bytes), "holds": hex(p.as_ref())}));
        } else {
            $api.check(concat!($name, "::as_mut"), false, || json!({"octets": hex(bytes), "buffer_len": p.as_mut().len()}));
        }
    }};
}

fn written<P: AsRef<[u8]>>(p: &P) -> Vec<u8> {
    p.as_ref().to_vec()
}

fn api_case(api: &mut Api, version: u8, session: u16, serial: u32) {
    let state = State::from_parts(session, Serial::from(serial));
    let timing = Timing { refresh: 0x0001_0203, retry: 0x0405_0607, expire: 0x0809_0A0B };
    let v1 = version.max(1);
    let d = move || json!({"version": version, "session": format!("{session:#06x}"), "serial": format!("{serial:#010x}")});
    // ---- state.rs
    api.check("State::from_parts", state.session() == session && u32::from(state.serial()) == serial, d);
    api.check("State::new_with_serial", u32::from(State::new_with_serial(Serial::from(serial)).serial()) == serial, d);
    // ---- what the documents prescribe
    let w_notify = WirePdu::SerialNotify { v: version, session, serial }.encode();
    let w_query = WirePdu::SerialQuery { v: version, session, serial }.encode();
    let w_resp = WirePdu::CacheResponse { v: version, session }.encode();
    let w_eod0 = WirePdu::EndOfData { v: 0, session, serial, refresh: 0, retry: 0, expire: 0 }.encode();
    let w_eod1 = WirePdu::EndOfData { v: v1, session, serial, refresh: timing.refresh, retry: timing.retry, expire: timing.expire }.encode();
    let w_eod = if version == 0 { &w_eod0 } else { &w_eod1 };
    // ---- constructors
    let h = pdu::Header::new(version, 0x55, session, 0x0A0B_0C0D);
    let hb = written(&h);
    api.check("Header::new", hb.len() == 8 && hb[2..4] == session.to_be_bytes() && hb[4..8] == [0x0A, 0x0B, 0x0C, 0x0D] && hb[0] == version && hb[1] == 0x55, || json!({"case": d(), "octets": hex(&hb)}));
    api.check("Header::session", h.session() == session && h.length() == 0x0A0B_0C0D, || json!({"case": d(), "session()": h.session()}));
    let n = pdu::SerialNotify::new(version, state);
    api.check("SerialNotify::new", n.as_ref() == w_notify.as_slice(), || json!({"case": d(), "octets": hex(n.as_ref()), "prescribed": hex(&w_notify)}));
    api.check("SerialNotify::session", n.session() == session && n.version() == version, || json!({"case": d(), "session()": n.session()}));
    let q = pdu::SerialQuery::new(version, state);
    api.check("SerialQuery::new", q.as_ref() == w_query.as_slice(), || json!({"case": d(), "octets": hex(q.as_ref()), "prescribed": hex(&w_query)}));
    api.check("SerialQuery::session", q.session() == session, || json!({"case": d(), "session()": q.session()}));
    let qp = pdu::SerialQueryPayload::new(Serial::from(serial));
    api.check("SerialQueryPayload::new", qp.as_ref() == serial.to_be_bytes(), || json!({"case": d(), "octets": hex(qp.as_ref())}));
    api.check("SerialQueryPayload::serial", u32::from(qp.serial()) == serial, || json!({"case": d(), "serial()": u32::from(qp.serial())}));
    let r = pdu::CacheResponse::new(version, state);
    api.check("CacheResponse::new", r.as_ref() == w_resp.as_slice(), || json!({"case": d(), "octets": hex(r.as_ref()), "prescribed": hex(&w_resp)}));
    api.check("CacheResponse::session", r.session() == session, || json!({"case": d(), "session()": r.session()}));
    let e0 = pdu::EndOfDataV0::new(state);
    api.check("EndOfDataV0::new", e0.as_ref() == w_eod0.as_slice(), || json!({"case": d(), "octets": hex(e0.as_ref()), "prescribed": hex(&w_eod0)}));
    api.check("EndOfDataV0::serial", u32::from(e0.serial()) == serial, || json!({"case": d(), "serial()": u32::from(e0.serial())}));
    api.check("EndOfDataV0::session", e0.session() == session, || json!({"case": d(), "session()": e0.session()}));
    let e1 = pdu::EndOfDataV1::new(v1, state, timing);
    api.check("EndOfDataV1::new", e1.as_ref() == w_eod1.as_slice(), || json!({"case": d(), "octets": hex(e1.as_ref()), "prescribed": hex(&w_eod1)}));
    api.check("EndOfDataV1::serial", u32::from(e1.serial()) == serial, || json!({"case": d(), "serial()": u32::from(e1.serial())}));
    api.check("EndOfDataV1::session", e1.session() == session, || json!({"case": d(), "session()": e1.session()}));
    let e = pdu::EndOfData::new(version, state, timing);
    api.check("EndOfData::new", e.as_ref() == w_eod.as_slice(), || json!({"case": d(), "octets": hex(e.as_ref()), "prescribed": hex(w_eod)}));
    api.check("EndOfData::session", e.session() == session, || json!({"case": d(), "session()": e.session()}));
    api.check("EndOfData::serial", u32::from(e.serial()) == serial, || json!({"case": d(), "serial()": u32::from(e.serial())}));
    api.check("EndOfData::state", e.state().session() == session && u32::from(e.state().serial()) == serial, || json!({"case": d(), "state()": state_json(Some(e.state()))}));
    // ---- write(): the octets that reach a transport
    macro_rules! write_check {
        ($name:literal, $pdu:expr, $want:expr) => {{
            let mut sink: Vec<u8> = Vec::new();
            let done = now($pdu.write(&mut sink)).map_or(false, |r| r.is_ok());
            api.check(concat!($name, "::write"), done && sink.as_slice() == $want, || json!({"case": d(), "written": hex(&sink), "prescribed": hex($want)}));
        }};
    }
    write_check!("SerialNotify", n, w_notify.as_slice());
    write_check!("SerialQuery", q, w_query.as_slice());
    write_check!("SerialQueryPayload", qp, &serial.to_be_bytes()[..]);
    write_check!("CacheResponse", r, w_resp.as_slice());
    write_check!("EndOfDataV0", e0, w_eod0.as_slice());
    write_check!("EndOfDataV1", e1, w_eod1.as_slice());
    write_check!("EndOfData", e, w_eod.as_slice());
    write_check!("Header", h, hb.as_slice());
    // ---- readers, from octets laid out by the independent encoder
    let mut rd: &[u8] = &w_notify;
    let got = now(pdu::Header::read(&mut rd)).and_then(|r| r.ok());
    api.check("Header::read", got.map_or(false, |h| h.session() == session && h.version() == version && h.length() == 12 && h.pdu() == 0 && h.as_ref() == &w_notify[..8]), || json!({"case": d(), "octets": hex(&w_notify[..8])}));
    let mut rd: &[u8] = &w_query[8..];
    let got = now(pdu::SerialQueryPayload::read(&mut rd)).and_then(|r| r.ok());
    api.check("SerialQueryPayload::read", got.map_or(false, |p| u32::from(p.serial()) == serial && p.as_ref() == &w_query[8..]), || json!({"case": d(), "octets": hex(&w_query[8..]), "serial()": got.map(|p| u32::from(p.serial()))}));
    read_three_ways!(api, pdu::SerialNotify, "SerialNotify", &w_notify, |p: &pdu::SerialNotify| p.session() == session && p.version() == version);
    read_three_ways!(api, pdu::SerialQuery, "SerialQuery", &w_query, |p: &pdu::SerialQuery| p.session() == session && p.version() == version);
    read_three_ways!(api, pdu::CacheResponse, "CacheResponse", &w_resp, |p: &pdu::CacheResponse| p.session() == session);
    read_three_ways!(api, pdu::EndOfDataV0, "EndOfDataV0", &w_eod0, |p: &pdu::EndOfDataV0| p.session() == session && u32::from(p.serial()) == serial);
    read_three_ways!(api, pdu::EndOfDataV1, "EndOfDataV1", &w_eod1, |p: &pdu::EndOfDataV1| p.session() == session && u32::from(p.serial()) == serial && p.timing().refresh == timing.refresh);
    let mut rd: &[u8] = w_eod;
    let got = now(async {
        let h = pdu::Header::read(&mut rd).await?;
        pdu::EndOfData::read_payload(h, &mut rd).await
    })
    .and_then(|r| r.ok());
    api.check(
        "EndOfData::read_payload",
        got.map_or(false, |p| p.session() == session && u32::from(p.serial()) == serial && p.state().session() == session && u32::from(p.state().serial()) == serial && p.as_ref() == w_eod.as_slice()),
        || json!({"case": d(), "octets": hex(w_eod), "state()": got.map(|p| state_json(Some(p.state())))}),
    );
    let mut rd: &[u8] = w_eod;
    let got = now(pdu::Payload::read(&mut rd)).and_then(|r| r.ok()).and_then(|r| r.err());
    api.check("Payload::read->EndOfData", got.map_or(false, |p| p.session() == session && u32::from(p.serial()) == serial && p.as_ref() == w_eod.as_slice()), || json!({"case": d(), "octets": hex(w_eod), "state()": got.map(|p| state_json(Some(p.state())))}));
}

fn api_workload(ctx: &mut Ctx) -> u64 {
    if ctx.shard != 0 && ctx.stage != Stage::Miri && ctx.tier == Tier::Quick {
        return 0;
    }
    let mut rng = ctx.rng("pdu-api");
    let n_random = ctx.stage_budget((2_000, 400_000), 1_000, 1, 0) as usize;
    let mut api = Api { ctx: &mut *ctx, items: Default::default(), checks: 0 };
    let mut cases = 0u64;
    if api.ctx.stage == Stage::Miri {
        for (i, (&serial, &session)) in [0x0000_0100u32, 0xDEAD_BEEF, 0x0001_0000].iter().zip([0x0100u16, 0xBEEF, 0x0001].iter()).enumerate() {
            api_case(&mut api, i as u8, session, serial);
            cases += 1;
        }
    } else {
        for (i, &serial) in SERIALS.iter().enumerate() {
            for (j, &session) in SESSIONS.iter().enumerate() {
                api_case(&mut api, ((i + j) % 3) as u8, session, serial);
                cases += 1;
            }
        }
        for i in 0..n_random {
            api_case(&mut api, (i % 3) as u8, rng.next_u32() as u16, rng.next_u32());
            cases += 1;
        }
    }
    let (items, checks) = (api.items.clone(), api.checks);
    drop(api);
    for item in &items {
        ctx.sig(&format!("pdu-api {item}"));
    }
    ctx.obs_max("pdu_api_items_exercised", items.len() as u64);
    ctx.obs("pdu_api_cases", cases);
    ctx.obs("pdu_api_comparisons", checks);
    ctx.sample("pdu-api", || {
        json!({
            "session": "0xbeef", "serial": "0xdeadbeef", "version": 1,
            "SerialNotify::new": hex(pdu::SerialNotify::new(1, State::from_parts(0xBEEF, Serial::from(0xDEAD_BEEF))).as_ref()),
            "CacheResponse::new": hex(pdu::CacheResponse::new(1, State::from_parts(0xBEEF, Serial::from(0xDEAD_BEEF))).as_ref()),
            "items": items.iter().collect::<Vec<_>>(),
        })
    });
    checks
}

//------------ (b) ------------------------------------------------------------------------------

/// How two serial numbers are related apart from their difference.
fn pair_relation(s: u32, n: u32) -> &'static str {
    if s == n {
        "same-serial"
    } else if n == s.swap_bytes() {
        "octets-reversed"
    } else if n == s.rotate_left(16) {
        "halves-swapped"
    } else if n == (s & 0xFFFF_0000) | ((s & 0xFF) << 8) | ((s >> 8) & 0xFF) || n == (s & 0x0000_FFFF) | ((s & 0x00FF_0000) << 8) | ((s >> 8) & 0x00FF_0000) {
        "two-octets-swapped"
    } else if (n.wrapping_sub(s) < 0x8000_0000) == (n < s) {
        "across-the-wrap"
    } else if ((s as i32) < 0) != ((n as i32) < 0) {
        "across-2^31"
    } else {
        "plain"
    }
}

fn diff_class(d: u32) -> &'static str {
    match d {
        0 => "d-is-0",
        1 => "d-is-1",
        0x8000_0000 => "d-is-2^31",
        d if d < 0x8000_0000 => "d-below-2^31",
        0xFFFF_FFFF => "d-is-minus-1",
        _ => "d-above-2^31",
    }
}

#[derive(Clone, Copy, Debug, PartialEq, Eq)]
enum Delivery {
    /// The Serial Notify is written once the client sits idle.
    WhenIdle,
    /// It travels in one piece with the End of Data of the first exchange.
    WithEndOfData,
    /// Virtual time passes (a tenth of the refresh interval) before it is sent.
    Later,
}

#[derive(Clone, Debug)]
struct Reaction {
    /// The first exchange completed and left the client at S.
    synced: bool,
    /// Virtual milliseconds between the Serial Notify and the next query; `None`: no query at all.
    waited_ms: Option<u64>,
    query_hex: String,
    query_ok: bool,
    second_step_ok: bool,
    adopted: Option<State>,
    refresh_s: u32,
}

impl Reaction {
    fn class(&self) -> &'static str {
        match self.waited_ms {
            None => "no-query",
            Some(ms) if ms < 1_000 => "at-once",
            Some(ms) if ms < self.refresh_s as u64 * 1_000 => "before-refresh",
            Some(_) => "sat-out-until-refresh",
        }
    }
}

/// Client holds (session, s) after a reset exchange; the cache announces n.
fn client_reaction(rt: &tokio::runtime::Runtime, version: u8, session: u16, s: u32, n: u32, delivery: Delivery, start_with_state: bool) -> Reaction {
    let refresh: u32 = if version == 0 { 3600 } else { 1800 };
    rt.block_on(async move {
        let (client_sock, mut cache) = tokio::io::duplex(4096);
        // a router that comes back with a state from an earlier connection, or a fresh one
        let initial = if start_with_state { Some(State::from_parts(session, Serial::from(s.wrapping_sub(1)))) } else { None };
        let mut client = Client::with_initial_version(version, client_sock, Tgt::default(), initial);
        let router = async {
            let first = client.step().await.is_ok();
            let st1 = client.state();
            let second = if first { client.step().await.is_ok() } else { false };
            (first, st1, second, client.state())
        };
        let script = async {
            let first_len = if start_with_state { 12 } else { 8 };
            let mut buf = vec![0u8; first_len];
            if cache.read_exact(&mut buf).await.is_err() {
                return (None, String::new());
            }
            let mut bytes = WirePdu::CacheResponse { v: version, session }.encode();
            bytes.extend(WirePdu::EndOfData { v: version, session, serial: s, refresh, retry: 600, expire: 7200 }.encode());
            let notify = WirePdu::SerialNotify { v: version, session, serial: n }.encode();
            match delivery {
                Delivery::WithEndOfData => {
                    bytes.extend_from_slice(&notify);
                    let _ = cache.write_all(&bytes).await;
                }
                Delivery::WhenIdle | Delivery::Later => {
                    let _ = cache.write_all(&bytes).await;
                    for _ in 0..8 {
                        tokio::task::yield_now().await;
                    }
                    if delivery == Delivery::Later {
                        tokio::time::sleep(Duration::from_secs(refresh as u64 / 10)).await;
                    }
                    let _ = cache.write_all(&notify).await;
                }
            }
            let t0 = tokio::time::Instant::now();
            let mut q = [0u8; 12];
            let got = tokio::time::timeout(Duration::from_secs(3 * refresh as u64), cache.read_exact(&mut q)).await;
            let waited = t0.elapsed();
            match got {
                Ok(Ok(_)) => {
                    let mut bytes = WirePdu::CacheResponse { v: version, session }.encode();
                    bytes.extend(WirePdu::EndOfData { v: version, session, serial: n, refresh, retry: 600, expire: 7200 }.encode());
                    let _ = cache.write_all(&bytes).await;
                    (Some(waited.as_millis() as u64), hex(&q))
                }
                _ => (None, String::new()),
            }
        };
        // nothing here may hang: a client that never asks again runs into the cap
        let both = futures_util::future::join(router, script);
        match tokio::time::timeout(Duration::from_secs(10 * refresh as u64), both).await {
            Ok(((first, st1, second, st2), (waited_ms, query_hex))) => {
                let want = WirePdu::SerialQuery { v: version, session, serial: s }.encode();
                Reaction {
                    synced: first && st1.map(|st| (st.session(), u32::from(st.serial()))) == Some((session, s)),
                    waited_ms,
                    query_ok: query_hex == hex(&want),
                    query_hex,
                    second_step_ok: second,
                    adopted: st2,
                    refresh_s: refresh,
                }
            }
            Err(_) => Reaction { synced: false, waited_ms: None, query_hex: String::new(), query_ok: false, second_step_ok: false, adopted: None, refresh_s: refresh },
        }
    })
}

/// Pairs with one difference; the first is the plain one.
fn groups(rng: &mut Rng, extra_random: usize) -> Vec<(u32, Vec<(u32, u32)>)> {
    let mut out: Vec<(u32, Vec<(u32, u32)>)> = Vec::new();
    let plain_base = |d: u32, salt: u32| -> u32 {
        // small, no edge between base and base + d when d < 2^31, octets unrelated to the result
        let mut b = 0x0003_1741u32.wrapping_add(salt.wrapping_mul(0x0101_0735) & 0x00FF_FFFF);
        for _ in 0..64 {
            let n = b.wrapping_add(d);
            if pair_relation(b, n) == "plain" || d == 0 || d >= 0x8000_0000 {
                break;
            }
            b = b.wrapping_add(0x0001_0203);
        }
        b
    };
    // --- pairs related by a permutation of their octets
    let mut seeds: Vec<u32> = vec![0x0000_0100, 0xDEAD_BEEF, 0x0102_0304, 0x1234_5678, 0x0000_0001, 0x0000_007F, 0x0000_0080, 0x00FF_0000, 0x0001_0000, 0xEFBE_ADDE, 0x0000_1200, 0x7F00_0001];
    for _ in 0..extra_random {
        seeds.push(rng.next_u32());
    }
    for (i, &s) in seeds.iter().enumerate() {
        let mirrors = [s.swap_bytes(), s.rotate_left(16), (s & 0xFFFF_0000) | ((s & 0xFF) << 8) | ((s >> 8) & 0xFF)];
        for (k, &n) in mirrors.iter().enumerate() {
            if n == s || (k > 0 && i >= 6) {
                continue;
            }
            let d = n.wrapping_sub(s);
            let p = plain_base(d, i as u32 * 3 + k as u32);
            out.push((d, vec![(p, p.wrapping_add(d)), (s, n), (s.wrapping_add(1), n.wrapping_add(1)), (s.wrapping_add(0x0100_0000), n.wrapping_add(0x0100_0000))]));
        }
    }
    // --- the same difference on both sides of an edge of the number space
    for (i, &d) in [1u32, 2, 0x20, 0x100, 0xFF00, 0x7FFF_FFFF, 0x8000_0000, 0x8000_0001, 0xFFFF_FFFF, 0xFFFF_FF00, 0].iter().enumerate() {
        let p = plain_base(d, 100 + i as u32);
        let mut g = vec![(p, p.wrapping_add(d))];
        for b in [0xFFFF_FFFFu32, 0xFFFF_FFF0, 0x7FFF_FFFF, 0x7FFF_FFF0, 0x8000_0000, 0, 5, 0xFFFF_FF01] {
            g.push((b, b.wrapping_add(d)));
        }
        g.push((0u32.wrapping_sub(d), 0));
        for _ in 0..extra_random.min(4) {
            let b = rng.next_u32();
            g.push((b, b.wrapping_add(d)));
        }
        out.push((d, g));
    }
    out
}

fn client_workload(ctx: &mut Ctx) -> u64 {
    let rt = new_runtime();
    let mut rng = ctx.rng("client-idle");
    let miri = ctx.stage == Stage::Miri;
    let extra = match (ctx.stage, ctx.tier) {
        (Stage::Native, Tier::Quick) => 6,
        (Stage::Native, Tier::Thorough) => 400,
        (Stage::Asan, _) => 4,
        _ => 0,
    };
    let mut all = groups(&mut rng, extra);
    if miri {
        // 256 / 65536 and 0xFFFFFFFF / 0, each with its plain pair
        all = vec![all[0].clone(), all.iter().find(|g| g.0 == 1).cloned().unwrap()];
        for g in all.iter_mut() {
            g.1.truncate(2);
        }
    }
    let mut evals = 0u64;
    let mut by_class: std::collections::BTreeMap<String, u64> = Default::default();
    let mut not_synced = 0u64;
    let mut queries = 0u64;
    let mut compared = 0u64;
    let mut no_reference = 0u64;
    let deliveries = [Delivery::WhenIdle, Delivery::WithEndOfData, Delivery::Later];
    for (gi, (d, pairs)) in all.iter().enumerate() {
        if !miri && !ctx.mine(gi as u64) {
            continue;
        }
        for version in 0..3u8 {
            if miri && version != 1 {
                continue;
            }
            // one delivery / start per (group, version) in quick, all of them in thorough
            let combos: Vec<(Delivery, bool)> = if ctx.tier == Tier::Thorough && ctx.stage == Stage::Native {
                deliveries.iter().flat_map(|dl| [(*dl, false), (*dl, true)]).collect()
            } else {
                let k = gi + version as usize;
                if miri {
                    vec![(deliveries[k % 3], k % 2 == 1)]
                } else {
                    vec![(deliveries[k % 3], k % 2 == 1), (deliveries[(k + 1) % 3], k % 2 == 0)]
                }
            };
            for (delivery, with_state) in combos {
                let session = 0x0A0Bu16.wrapping_add((gi as u16).wrapping_mul(0x0107));
                let mut reference: Option<(u32, u32, Reaction)> = None;
                for &(s, n) in pairs {
                    ctx.breadcrumb(&format!("client-idle: v{version} holds {s:#x}, notified of {n:#x}, {delivery:?}"));
                    let r = client_reaction(&rt, version, session, s, n, delivery, with_state);
                    evals += 1;
                    let rel = pair_relation(s, n);
                    ctx.sig(&format!("client-idle v{version} {} {rel} {delivery:?} start={}", diff_class(*d), if with_state { "serial" } else { "reset" }));
                    if !r.synced {
                        // the first exchange is the other workloads' business
                        not_synced += 1;
                        continue;
                    }
                    *by_class.entry(format!("client_idle_reaction[{}][{}]", diff_class(*d), r.class())).or_insert(0) += 1;
                    let detail = |r: &Reaction| {
                        json!({
                            "version": version, "session": format!("{session:#06x}"),
                            "router_holds": format!("{s:#010x}"), "serial_notify_announces": format!("{n:#010x}"),
                            "difference": format!("{:#x}", n.wrapping_sub(s)), "relation_of_the_pair": rel,
                            "delivery": format!("{delivery:?}"), "first_query": if with_state { "serial" } else { "reset" },
                            "virtual_ms_until_next_query": r.waited_ms, "reaction": r.class(), "refresh_s": r.refresh_s,
                            "next_query_hex": r.query_hex, "second_step_completed": r.second_step_ok, "state_after": state_json(r.adopted),
                        })
                    };
                    if r.waited_ms.is_some() {
                        queries += 1;
                        if !r.query_ok {
                            ctx.violation(
                                &format!("C16:client-idle:serial-query-after-notify-does-not-carry-the-serial-held:{rel}"),
                                &format!("the client holds session {session:#06x} serial {s:#010x} and was notified of {n:#010x}; its next query is {}", r.query_hex),
                                detail(&r),
                            );
                            continue;
                        }
                        if r.second_step_ok && r.adopted.map(|st| (st.session(), u32::from(st.serial()))) != Some((session, n)) {
                            ctx.violation(
                                &format!("C16:client-idle:state-is-not-the-serial-of-end-of-data:{rel}"),
                                &format!("End of Data carried serial {n:#010x}; Client::state() is {}", state_json(r.adopted)),
                                detail(&r),
                            );
                            continue;
                        }
                    }
                    if pairs[0] == (s, n) {
                        reference = Some((s, n, r));
                        continue;
                    }
                    let Some((ps, pn, pr)) = &reference else {
                        no_reference += 1;
                        continue;
                    };
                    compared += 1;
                    if pr.class() != r.class() {
                        ctx.violation(
                            &format!("C16:client-idle:reaction-to-serial-notify-depends-on-more-than-the-difference:{rel}:{}", diff_class(*d)),
                            &format!(
                                "holding {ps:#010x} and notified of {pn:#010x} the client's next query came {} ({:?} virtual ms); holding {s:#010x} and notified of {n:#010x} - the same difference {:#x}, pair {rel} - it came {} ({:?} virtual ms)",
                                pr.class(), pr.waited_ms, n.wrapping_sub(s), r.class(), r.waited_ms
                            ),
                            json!({"plain_pair": {"router_holds": format!("{ps:#010x}"), "announced": format!("{pn:#010x}"), "virtual_ms_until_next_query": pr.waited_ms, "reaction": pr.class()}, "this_pair": detail(&r)}),
                        );
                    } else if rel == "octets-reversed" {
                        ctx.sample("client-idle: octets reversed", || detail(&r));
                    }
                }
            }
        }
    }
    for (k, v) in by_class {
        ctx.obs(&k, v);
    }
    ctx.obs("client_idle_scenarios", evals);
    ctx.obs("client_idle_first_exchange_not_completed", not_synced);
    ctx.obs("client_idle_queries_after_notify_inspected", queries);
    ctx.obs("client_idle_reactions_compared_with_the_plain_pair", compared);
    ctx.obs("client_idle_pairs_without_reference", no_reference);
    if not_synced > 0 {
        ctx.notes.push(format!("{not_synced} client-idle scenarios did not complete their first exchange and were not judged"));
    }
    evals
}

pub fn run(ctx: &mut Ctx) -> u64 {
    api_workload(ctx) + client_workload(ctx)
}
