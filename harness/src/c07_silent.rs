//! C07 helper: streams that stay open and silent.
//!
//! Every other C07 workload ends its streams: after the damaged octets the
//! reader sees end-of-stream, so a reader that asks for more octets than the
//! offending header entitles it to still fails one way or the other. A real
//! connection does not end; the peer just says nothing more. This module feeds
//! the readers a prefix and then answers every read with `Pending` - without
//! ever waking the task - and counts those polls.
//!
//! * PDU level: every read entry point (`X::read`, `X::try_read`,
//!   `Payload::read`, `Header::read` + `read_payload` / `skip_payload`,
//!   dispatch on the type octet) on: a bare header; a complete PDU of another
//!   type that is shorter than the one expected; the right type with a length
//!   no PDU of the type has, cut to the announced length; every prefix length
//!   of these; followed by silence. The future is polled by hand with a
//!   counting waker: `Pending` without a wake-up, on a reader that never wakes
//!   anything, is waiting for ever - there is no timer at this level.
//! * Client level: `Client::step` / `update` + `apply` on a runtime with a
//!   paused clock (virtual time jumps to the next timer whenever the client
//!   waits), the peer is a scripted cache that answers queries and otherwise
//!   stays silent. The offending octets arrive at the idle position (where
//!   the refresh timer eventually fires), as first reply to either query, and
//!   inside the payload sequence, in the first and in later exchanges.
//!
//! Oracle (statement: a stream whose header announces a wrong type or length
//! terminates with an error after a bounded number of octets; never waits for
//! ever): once the octets delivered contain a complete header that the
//! independent model (`length_fits`, the type each reader takes, the router
//! side grammar of RFC 8210 per reading position) says cannot start the PDU
//! expected there, the read must come back with `Err` - it must not wait for
//! octets that never come, must not return `Ok`, and must not have taken more
//! than the announced / expected size. At the client level an error that
//! only arrives after virtual time has passed (a timer had to fire first) is
//! recorded, not reported; what is reported is a call that returns `Ok` (the
//! client carried on with the session over the offending PDU) or that is
//! still waiting when no timer but the harness' own is left.
//!
//! This file is a child module of `c07` (`#[path]`).

use super::c07_nego::{drive_counted, encode_all, gen_full_response, Driven, NTgt, PeerStats, ScriptPeer, Step};
use super::length_fits;
use crate::c07_gen::{b16, b32, gen_pdu, random_script, Size, KINDS};
use crate::c07_io::{hex_capped, parse_header, Chunking, Hdr, Pdu};
use crate::c07_lib::{dispatch_kind, run_entry, Entry, Got, Kind};
use crate::core::{catch, hex, panic_location, Ctx, Rng, Stage, Tier};
use rpki::rtr::client::Client;
use rpki::rtr::state::{Serial, State};
use serde_json::{json, Value};
use std::collections::HashSet;
use std::io;
use std::pin::Pin;
use std::sync::{Arc, Mutex};
use std::task::{Context, Poll};
use std::time::Duration;
use tokio::io::{AsyncRead, ReadBuf};

//------------ the silent reader ------------------------------------------------

/// Hands out `data` in the given delivery pattern; after that every read is
/// answered with `Pending` and no wake-up ever follows.
struct SilentReader<'a> {
    data: &'a [u8],
    pos: usize,
    chunking: Chunking,
    script_idx: usize,
    pended: bool,
    /// reads that arrived when everything had been handed out
    silent_polls: u64,
    polls: u64,
}

impl<'a> SilentReader<'a> {
    fn new(data: &'a [u8], chunking: Chunking) -> Self {
        SilentReader { data, pos: 0, chunking, script_idx: 0, pended: false, silent_polls: 0, polls: 0 }
    }
}

impl AsyncRead for SilentReader<'_> {
    fn poll_read(self: Pin<&mut Self>, cx: &mut Context<'_>, buf: &mut ReadBuf<'_>) -> Poll<io::Result<()>> {
        let this = self.get_mut();
        this.polls += 1;
        let room = buf.remaining();
        if room == 0 {
            return Poll::Ready(Ok(()));
        }
        if this.pos >= this.data.len() {
            this.silent_polls += 1;
            return Poll::Pending;
        }
        let allowance = match &this.chunking {
            Chunking::AllAtOnce => usize::MAX,
            Chunking::ByteWise => {
                if !this.pended {
                    this.pended = true;
                    cx.waker().wake_by_ref();
                    return Poll::Pending;
                }
                this.pended = false;
                1
            }
            Chunking::Script(script) => {
                let step = if script.is_empty() { usize::MAX } else { script[this.script_idx % script.len()] };
                this.script_idx += 1;
                if step == 0 {
                    cx.waker().wake_by_ref();
                    return Poll::Pending;
                }
                step
            }
        };
        let n = room.min(allowance).min(this.data.len() - this.pos);
        buf.put_slice(&this.data[this.pos..this.pos + n]);
        this.pos += n;
        Poll::Ready(Ok(()))
    }
}

//------------ PDU level: what the statement demands -------------------------------

#[derive(Clone, Copy, Debug, PartialEq, Eq)]
enum Want {
    /// fewer than eight octets: nothing can be said yet, waiting is right
    WaitsForHeader,
    /// the header is complete and cannot start the PDU this reader takes
    MustErr(&'static str),
    /// `try_read` on an Error Report header: comes back at once with the header
    ErrorHeader,
    /// a complete, well-formed PDU of this many octets is there
    Complete(usize),
    /// well-formed as far as it goes, the rest has not arrived: waiting is right
    WaitsForBody,
    /// `Header::read` alone / the header of a serial query payload read
    HeaderThen(usize),
    /// the harness does not hand this to the library
    NotHandled,
}

fn fits(kind: Kind, h: Hdr, have: usize) -> Want {
    match length_fits(kind, h.version, h.length) {
        Ok(true) => {
            if have as u64 >= h.length as u64 {
                Want::Complete(h.length as usize)
            } else {
                Want::WaitsForBody
            }
        }
        Ok(false) => {
            if kind == Kind::Eod && h.version > 2 {
                Want::MustErr("version-without-end-of-data-layout")
            } else {
                Want::MustErr("length-impossible-for-type")
            }
        }
        Err(()) => Want::WaitsForBody,
    }
}

fn want(entry: Entry, prefix: &[u8]) -> Want {
    let Some(h) = parse_header(prefix) else { return Want::WaitsForHeader };
    let have = prefix.len();
    match entry {
        Entry::HeaderOnly => Want::HeaderThen(8),
        Entry::SqPayload => {
            if have >= 12 {
                Want::HeaderThen(12)
            } else {
                Want::WaitsForBody
            }
        }
        Entry::Typed(k) => {
            if h.pdu != k.type_code() {
                Want::MustErr("type-not-taken-by-reader")
            } else {
                fits(k, h, have)
            }
        }
        Entry::Try(k) => {
            if h.pdu == 10 {
                Want::ErrorHeader
            } else if h.pdu != k.type_code() {
                Want::MustErr("type-not-taken-by-reader")
            } else {
                fits(k, h, have)
            }
        }
        Entry::PayloadRead => match h.pdu {
            4 => fits(Kind::V4, h, have),
            6 => fits(Kind::V6, h, have),
            7 => fits(Kind::Eod, h, have),
            9 => fits(Kind::RouterKey, h, have),
            11 => fits(Kind::Aspa, h, have),
            _ => Want::MustErr("type-not-taken-by-reader"),
        },
        Entry::HeaderPayload(k) => fits(k, h, have),
        Entry::Dispatch => match dispatch_kind(h.pdu) {
            Some(k) => fits(k, h, have),
            None => Want::NotHandled,
        },
    }
}

/// The largest PDU the reader behind `entry` can be after (fixed part).
fn expected_size(entry: Entry, h: Hdr) -> usize {
    fn fixed(k: Kind, v: u8) -> usize {
        match k {
            Kind::SerialNotify | Kind::SerialQuery | Kind::EodV0 => 12,
            Kind::ResetQuery | Kind::CacheResponse | Kind::CacheReset => 8,
            Kind::V4 => 20,
            Kind::V6 => 32,
            Kind::EodV1 => 24,
            Kind::Eod => {
                if v == 0 {
                    12
                } else {
                    24
                }
            }
            Kind::RouterKey => 32,
            Kind::Aspa => 12,
            Kind::Error => 16,
        }
    }
    match entry {
        Entry::Typed(k) | Entry::Try(k) | Entry::HeaderPayload(k) => fixed(k, h.version),
        Entry::PayloadRead | Entry::Dispatch => dispatch_kind(h.pdu).map(|k| fixed(k, h.version)).unwrap_or(8),
        Entry::SqPayload => 12,
        Entry::HeaderOnly => 8,
    }
}

fn type_class(t: u8) -> String {
    if t <= 11 && t != 5 {
        format!("t{}", t)
    } else {
        "t-unassigned".into()
    }
}

fn len_class(l: u32) -> &'static str {
    match l {
        0..=7 => "len<8",
        8 => "len8",
        9..=11 => "len9..11",
        12 => "len12",
        13..=19 => "len13..19",
        20 => "len20",
        21..=23 => "len21..23",
        24 => "len24",
        25..=31 => "len25..31",
        32 => "len32",
        33..=40 => "len33..40",
        41..=0xFFFF => "len41..65535",
        _ => "len>=2^16",
    }
}

fn have_class(n: usize) -> &'static str {
    match n {
        0..=7 => "have<8",
        8 => "have8",
        9..=11 => "have9..11",
        12 => "have12",
        13..=19 => "have13..19",
        20..=23 => "have20..23",
        24..=31 => "have24..31",
        32..=40 => "have32..40",
        _ => "have>40",
    }
}

struct SilentMon {
    evals: u64,
    seen: HashSet<u64>,
    refused_at_once: u64,
    waits_legit: u64,
    complete_ok: u64,
    early_refusals: u64,
    silent_polls: u64,
}

fn want_name(w: Want) -> String {
    match w {
        Want::WaitsForHeader => "wait:header-incomplete".into(),
        Want::MustErr(r) => format!("must-err:{}", r),
        Want::ErrorHeader => "error-report-header-returned".into(),
        Want::Complete(_) => "complete-pdu".into(),
        Want::WaitsForBody => "wait:wellformed-body-incomplete".into(),
        Want::HeaderThen(_) => "header-read".into(),
        Want::NotHandled => "not-handled".into(),
    }
}

/// One reader on one prefix followed by silence.
fn judge_pdu(ctx: &mut Ctx, mon: &mut SilentMon, what: &dyn Fn() -> Value, prefix: &[u8], entry: Entry, chunking: &Chunking, pristine: bool) {
    let w = want(entry, prefix);
    if w == Want::NotHandled {
        return;
    }
    mon.evals += 1;
    let h = parse_header(prefix);
    // "the library must read what the documents prescribe" only holds for the reader of that very type
    let pristine = pristine
        && match (entry, h) {
            (Entry::Typed(k), Some(h)) | (Entry::Try(k), Some(h)) | (Entry::HeaderPayload(k), Some(h)) => k.type_code() == h.pdu,
            _ => true,
        };
    // how much of what the header announces has arrived
    let have = match h {
        None => "header-incomplete",
        Some(_) if prefix.len() == 8 => "bare-header",
        Some(h) if (prefix.len() as u64) < h.length as u64 => "part-of-announced-length",
        Some(h) if prefix.len() as u64 == (h.length as u64).max(8) => "announced-length",
        Some(_) => "more-than-announced-length",
    };
    let class = format!(
        "silent pdu {} hdr {} {} {} -> {}",
        entry.label(),
        h.map(|h| type_class(h.pdu)).unwrap_or_else(|| "-".into()),
        h.map(|h| len_class(h.length)).unwrap_or("-"),
        have,
        want_name(w)
    );
    if mon.seen.insert(crate::core::fnv64(class.as_bytes())) {
        ctx.sig(&class);
    }
    let mut rd = SilentReader::new(prefix, chunking.clone());
    let budget = 16 * (prefix.len() as u64 + 8) + 64;
    let outcome = catch(|| {
        let fut = std::pin::pin!(run_entry(entry, &mut rd));
        drive_counted(fut, budget)
    });
    let consumed = rd.pos;
    mon.silent_polls += rd.silent_polls;
    // dispatch resolves to the reader it picked, so one defect has one signature whichever way it was reached
    let label = match (entry, h.and_then(|h| dispatch_kind(h.pdu))) {
        (Entry::Dispatch, Some(k)) => Entry::HeaderPayload(k).label(),
        _ => entry.label(),
    };
    let detail = |extra: Value| -> Value {
        json!({
            "case": what(),
            "octets_delivered_before_the_stream_falls_silent_hex": hex_capped(prefix, 512),
            "octets_delivered": prefix.len(),
            "header": h.map(|h| json!({"version": h.version, "type": h.pdu, "session_field": h.session, "length": h.length})),
            "delivery": format!("{:?}", chunking),
            "entry": entry.label(),
            "the_statement_demands": want_name(w),
            "observed": extra,
        })
    };
    let driven = match outcome {
        Ok(d) => d,
        Err(text) => {
            ctx.violation(
                &format!("C07:panic:{}:{}", label, panic_location(&text)),
                &format!("{} panicked on a stream that falls silent: {}", label, text),
                detail(json!({"panic": text, "consumed": consumed})),
            );
            return;
        }
    };
    let (got, polls): (Option<Got>, u64) = match driven {
        Driven::Done(g, p) => (Some(g), p),
        Driven::Parked(p) => (None, p),
        Driven::Budget(p) => {
            ctx.violation(
                &format!("C07:silent-stream:no-completion-within-poll-budget:{}", label),
                &format!("{} was still pending and asking to be polled after {} polls on {} octets followed by silence", label, p, prefix.len()),
                detail(json!({"polls": p, "consumed": consumed, "polls_on_the_silent_stream": rd.silent_polls})),
            );
            return;
        }
    };
    let seen = json!({"result": got.as_ref().map(|g| g.describe()).unwrap_or_else(|| "still waiting (Pending, no wake-up will ever come)".into()), "polls": polls, "octets_taken": consumed, "polls_on_the_silent_stream": rd.silent_polls});
    match w {
        Want::MustErr(reason) => {
            let hdr = h.expect("header complete");
            match &got {
                None => {
                    ctx.violation(
                        &format!("C07:silent-stream:waits-after-offending-header:{}:{}", label, reason),
                        &format!(
                            "{} has the complete header {} ({}), the stream stays open and silent, and the reader waits for more octets instead of reporting the error ({} octets delivered, {} taken)",
                            label, hex(&prefix[..8]), reason, prefix.len(), consumed
                        ),
                        detail(seen),
                    );
                }
                Some(g) if !g.is_err() => {
                    ctx.violation(
                        &format!("C07:silent-stream:accepted:{}:{}", label, reason),
                        &format!("{} returned {} for the header {} ({})", label, g.describe(), hex(&prefix[..8]), reason),
                        detail(seen),
                    );
                }
                Some(_) => {
                    let bound = (hdr.length as usize).max(8).max(expected_size(entry, hdr));
                    if consumed > bound {
                        ctx.violation(
                            &format!("C07:silent-stream:overread:{}:{}", label, reason),
                            &format!("{} refused the header {} only after taking {} octets (announced {}, the PDU it reads has {})", label, hex(&prefix[..8]), consumed, hdr.length, expected_size(entry, hdr)),
                            detail(seen),
                        );
                        return;
                    }
                    mon.refused_at_once += 1;
                    if prefix.len() > 8 && mon.refused_at_once == 500 {
                        ctx.sample("family-silent-stream-pdu", || json!({"what": "offending header, then silence: refused at once", "entry": label, "octets_delivered_hex": hex_capped(prefix, 48), "why": reason, "delivery": chunking.label(), "observed": seen}));
                    }
                }
            }
        }
        Want::ErrorHeader => match &got {
            None => {
                ctx.violation(
                    &format!("C07:silent-stream:waits-after-offending-header:{}:error-report-header", label),
                    &format!("{} has the complete header of an Error Report ({}) and waits for more octets on a silent stream instead of handing the header back", label, hex(&prefix[..8])),
                    detail(seen),
                );
            }
            Some(Got::ErrorHeader(_)) if consumed == 8 => mon.refused_at_once += 1,
            Some(g) if g.is_err() => mon.refused_at_once += 1,
            Some(g) => {
                ctx.violation(
                    &format!("C07:silent-stream:accepted:{}:error-report-header", label),
                    &format!("{} returned {} ({} octets taken) for an Error Report header", label, g.describe(), consumed),
                    detail(seen),
                );
            }
        },
        Want::Complete(n) | Want::HeaderThen(n) => match &got {
            None => {
                ctx.violation(
                    &format!("C07:silent-stream:waits-although-pdu-complete:{}", label),
                    &format!("the {} octets the reader is entitled to are there, the stream stays open and silent, and {} still waits ({} taken)", n, label, consumed),
                    detail(seen),
                );
            }
            Some(g) if g.is_err() => {
                if pristine {
                    ctx.violation(
                        &format!("C07:silent-stream:rejected-own-pdu:{}", label),
                        &format!("{} refused a PDU laid out as the documents prescribe: {}", label, g.describe()),
                        detail(seen),
                    );
                } else {
                    mon.early_refusals += 1;
                }
            }
            Some(g) => {
                if consumed != n && !matches!(g, Got::Unsupported) {
                    ctx.violation(
                        &format!("C07:silent-stream:consumed-differs-from-length-field:{}", label),
                        &format!("{} returned Ok after taking {} octets, the PDU has {}", label, consumed, n),
                        detail(seen),
                    );
                    return;
                }
                mon.complete_ok += 1;
            }
        },
        Want::WaitsForBody | Want::WaitsForHeader => match &got {
            None => {
                mon.waits_legit += 1;

            }
            Some(g) if g.is_err() => {
                mon.early_refusals += 1;
                ctx.obs("silent_pdu_incomplete_prefix_refused_early", 1);
            }
            Some(g) => {
                ctx.violation(
                    &format!("C07:silent-stream:accepted-incomplete-pdu:{}", label),
                    &format!("{} returned {} although only {} octets of the PDU had arrived", label, g.describe(), prefix.len()),
                    detail(seen),
                );
            }
        },
        Want::NotHandled => {}
    }
}

/// Every read entry point of the library, in a fixed order.
fn all_entries() -> Vec<Entry> {
    const ALL: [Kind; 13] = [
        Kind::SerialNotify, Kind::SerialQuery, Kind::ResetQuery, Kind::CacheResponse, Kind::V4, Kind::V6, Kind::EodV0,
        Kind::EodV1, Kind::Eod, Kind::CacheReset, Kind::RouterKey, Kind::Error, Kind::Aspa,
    ];
    let mut v = vec![Entry::PayloadRead, Entry::Dispatch, Entry::HeaderOnly, Entry::SqPayload];
    v.extend(ALL.iter().map(|k| Entry::HeaderPayload(*k)));
    v.extend(ALL.iter().filter(|k| k.has_read()).map(|k| Entry::Typed(*k)));
    v.extend(ALL.iter().filter(|k| k.has_try_read()).map(|k| Entry::Try(*k)));
    v
}

/// Streams for the PDU level: (description, octets, laid out as the documents prescribe).
fn pdu_streams(r: &mut Rng, size: Size) -> Vec<(String, Vec<u8>, bool)> {
    let mut out: Vec<(String, Vec<u8>, bool)> = Vec::new();
    // complete PDUs of every type (each one is "another, shorter type" for most readers)
    for which in 0..KINDS {
        let m = gen_pdu(r, which, size);
        let w = m.encode();
        if w.len() > 600 {
            continue;
        }
        out.push((format!("complete {} v{}", m.name(), m.version()), w.clone(), m.version() <= 2));
        // the right type, a length no such PDU has, cut or padded to that length
        let t = w.len() as u32;
        let mut lens: Vec<u32> = vec![8, 12, 16, 20, 24, 28, 32, t.saturating_sub(4).max(8), t + 4];
        if r.bool() {
            lens.push(r.range(8, 40) as u32);
        }
        lens.sort();
        lens.dedup();
        for l in lens {
            if l == t {
                continue;
            }
            let mut d = w.clone();
            d.resize(l as usize, 0);
            d[4..8].copy_from_slice(&l.to_be_bytes());
            out.push((format!("{} v{} resized to {} octets", m.name(), m.version(), l), d, false));
        }
        // a complete short PDU with more PDUs behind it
        if w.len() <= 12 {
            let mut d = w.clone();
            let which = r.below(KINDS);
            d.extend_from_slice(&gen_pdu(r, which, Size::Tiny).encode());
            d.truncate(64);
            out.push((format!("complete {} v{} followed by more octets", m.name(), m.version()), d, false));
        }
    }
    // bare headers: every type code, a boundary set of lengths
    let types: Vec<u8> = (0..=13).chain([0x7F, 0xFF, r.next_u32() as u8]).collect();
    for t in types {
        let v = r.below(3) as u8;
        for l in [0u32, 7, 8, 9, 11, 12, 13, 16, 20, 24, 31, 32, 33, 36, 40, 1000, 4000, 0x1_0008] {
            if r.below(3) != 0 && !matches!(l, 8 | 12 | 20 | 24 | 32) {
                continue;
            }
            let mut hd = vec![v, t];
            hd.extend_from_slice(&b16(r).to_be_bytes());
            hd.extend_from_slice(&l.to_be_bytes());
            out.push((format!("bare header type {} length {}", t, l), hd, false));
        }
    }
    // End of Data headers of a version that has no such layout
    for v in [3u8, 0x7F, 0xFF] {
        for l in [12u32, 24] {
            let mut hd = vec![v, 7];
            hd.extend_from_slice(&b16(r).to_be_bytes());
            hd.extend_from_slice(&l.to_be_bytes());
            out.push((format!("bare End of Data header version {} length {}", v, l), hd, false));
        }
    }
    out
}

fn pdu_level(ctx: &mut Ctx, mon: &mut SilentMon, r: &mut Rng, rounds: u64, miri: bool) {
    let entries = all_entries();
    for round in 0..rounds {
        let streams = pdu_streams(r, if miri { Size::Tiny } else { Size::Normal });
        ctx.breadcrumb(&format!("silent pdu round {}", round));
        for (si, (name, bytes, pristine)) in streams.iter().enumerate() {
            // Miri: a handful per shard (about 6 streams x 2 prefix lengths x 4 entry points)
            if miri && si % 48 != (round as usize + 4 * ctx.shard as usize) % 48 {
                continue;
            }
            let what = || json!({"kind": "stream falls silent", "stream": name});
            // every prefix length from the complete header on (and two shorter ones)
            let mut cuts: Vec<usize> = vec![3, 7];
            cuts.extend(8..=bytes.len().min(44));
            if bytes.len() > 44 {
                cuts.push(bytes.len() - 1);
                cuts.push(bytes.len());
            }
            cuts.retain(|c| *c <= bytes.len());
            for cut in cuts {
                let prefix = &bytes[..cut];
                let chunking = match (round + cut as u64 + si as u64) % 3 {
                    0 => Chunking::AllAtOnce,
                    1 => Chunking::ByteWise,
                    _ => random_script(r),
                };
                if miri && cut != 8 && cut != bytes.len() {
                    continue;
                }
                for (ei, entry) in entries.iter().enumerate() {
                    if miri && ei % 9 != (si + cut) % 9 {
                        continue;
                    }
                    judge_pdu(ctx, mon, &what, prefix, *entry, &chunking, *pristine && cut == bytes.len());
                }
            }
        }
    }
}

//------------ client level ------------------------------------------------------------

#[derive(Clone, Copy, Debug, PartialEq, Eq)]
enum Pos {
    /// between two exchanges: waiting for a Serial Notify (the refresh timer runs)
    Idle,
    FirstReplySerial,
    FirstReplyReset,
    /// after the Cache Response and `n` payload PDUs
    PayloadSeq,
}

impl Pos {
    fn name(self) -> &'static str {
        match self {
            Pos::Idle => "idle",
            Pos::FirstReplySerial => "first-reply-to-serial-query",
            Pos::FirstReplyReset => "first-reply-to-reset-query",
            Pos::PayloadSeq => "payload-sequence",
        }
    }
}

/// Can a PDU of type `t` have this length? (`true` where the documents leave it open.)
fn length_possible(t: u8, version: u8, len: u32) -> bool {
    match t {
        0 | 1 => len == 12,
        2 | 3 | 8 => len == 8,
        4 => len == 20,
        6 => len == 32,
        7 => match version {
            0 => len == 12,
            1 | 2 => len == 24,
            _ => true,
        },
        9 => len >= 32,
        11 => len >= 12 && (len - 12) % 4 == 0,
        _ => true,
    }
}

/// The router side of RFC 6810 / 8210, section 8: does a complete header at
/// this reading position show that what follows cannot be a PDU expected
/// there? `None`: the statement leaves it open.
fn offending(pos: Pos, h: Hdr) -> Option<&'static str> {
    let (proceeds, open): (&[u8], &[u8]) = match pos {
        Pos::Idle => (&[0], &[]),
        Pos::FirstReplySerial => (&[3, 8], &[0, 10]),
        Pos::FirstReplyReset => (&[3], &[0, 8, 10]),
        Pos::PayloadSeq => (&[4, 6, 7, 9, 11], &[0]),
    };
    if open.contains(&h.pdu) {
        None
    } else if !proceeds.contains(&h.pdu) {
        Some("type-wrong-for-position")
    } else if !length_possible(h.pdu, h.version, h.length) {
        Some("length-impossible-for-type")
    } else {
        None
    }
}

#[derive(Clone, Copy, Debug, PartialEq, Eq)]
enum EntryMode {
    Step,
    UpdateApply,
}

impl EntryMode {
    fn name(self) -> &'static str {
        match self {
            EntryMode::Step => "step",
            EntryMode::UpdateApply => "update+apply",
        }
    }
}

struct ClientCase {
    v: u8,
    client_version: u8,
    init_state: Option<(u16, u32)>,
    entry: EntryMode,
    pos: Pos,
    /// completed calls before the judged one
    earlier_calls: usize,
    /// refresh interval the cache announced in the last End of Data (seconds; 3600 if version 0)
    refresh: u32,
    /// what arrives at the position
    unsolicited: Vec<u8>,
    what: String,
    steps: Vec<Step>,
    /// octets sent in front of `unsolicited`
    before: usize,
}

fn gen_unsolicited(r: &mut Rng, v: u8, session: u16, pos: Pos) -> (String, Vec<u8>) {
    match r.below(10) {
        0 | 1 | 2 => {
            // a complete PDU of one of the library's types in the session's version
            let serial = b32(r);
            let pdus = [
                Pdu::ResetQuery { v },
                Pdu::CacheReset { v },
                Pdu::CacheResponse { v, session },
                Pdu::SerialQuery { v, session, serial },
                Pdu::SerialNotify { v, session, serial },
                Pdu::EndOfData { v, session, serial, refresh: 3600, retry: 600, expire: 7200 },
                Pdu::V4 { v, flags: 1, plen: 24, mlen: 24, addr: 0xC000_0200, asn: b32(r), via_item: true, explicit_max: true },
                Pdu::Error { v, code: *r.pick(&[0u16, 2, 3, 5]), pdu: Vec::new(), text: b"no".to_vec() },
            ];
            let p = r.pick(&pdus).clone();
            (format!("complete {}", p.name()), p.encode())
        }
        3 | 4 | 5 => {
            // a bare header
            let t = *r.pick(&[0u8, 0, 1, 2, 3, 4, 6, 7, 8, 9, 11, 12, 5, 0x7F, 0xFF]);
            let l = *r.pick(&[0u32, 7, 8, 8, 9, 11, 12, 12, 13, 16, 20, 24, 31, 32, 33, 1000, 4000, 0x1_0008]);
            let mut hd = vec![v, t];
            hd.extend_from_slice(&(if r.bool() { session } else { b16(r) }).to_be_bytes());
            hd.extend_from_slice(&l.to_be_bytes());
            (format!("bare header type {} length {}", t, l), hd)
        }
        6 | 7 => {
            // a PDU the position expects, resized coherently to a length it cannot have
            let serial = b32(r);
            let p = match pos {
                Pos::Idle => Pdu::SerialNotify { v, session, serial },
                Pos::FirstReplySerial => {
                    if r.bool() {
                        Pdu::CacheResponse { v, session }
                    } else {
                        Pdu::CacheReset { v }
                    }
                }
                Pos::FirstReplyReset => Pdu::CacheResponse { v, session },
                Pos::PayloadSeq => match r.below(3) {
                    0 => Pdu::EndOfData { v, session, serial, refresh: 3600, retry: 600, expire: 7200 },
                    1 => Pdu::V6 { v, flags: 1, plen: 32, mlen: 48, addr: 0x2001_0db8u128 << 96, asn: b32(r), via_item: true, explicit_max: true },
                    _ => super::c07_nego::gen_announce(r, v),
                },
            };
            let mut d = p.encode();
            let t = d.len() as u32;
            let l = *r.pick(&[8u32, 9, 12, 16, 20, 24, 28, t.saturating_sub(4).max(8), t.saturating_sub(1).max(8)]);
            d.resize(l as usize, 0);
            d[4..8].copy_from_slice(&l.to_be_bytes());
            (format!("{} resized to {} octets", p.name(), l), d)
        }
        8 => {
            // some octets of a PDU the position expects (the rest never comes)
            let p = match pos {
                Pos::Idle => Pdu::SerialNotify { v, session, serial: b32(r) },
                Pos::PayloadSeq => super::c07_nego::gen_announce(r, v),
                _ => Pdu::CacheResponse { v, session },
            };
            let mut d = p.encode();
            let keep = r.range(0, d.len() as u64 - 1) as usize;
            d.truncate(keep);
            (format!("first {} octets of {}", keep, p.name()), d)
        }
        _ => (String::from("nothing"), Vec::new()),
    }
}

fn gen_client_case(r: &mut Rng, idx: u64) -> ClientCase {
    let v = (idx % 3) as u8;
    let pos = match (idx / 3) % 6 {
        0 | 1 | 2 => Pos::Idle,
        3 => Pos::PayloadSeq,
        4 => Pos::FirstReplySerial,
        _ => Pos::FirstReplyReset,
    };
    let entry = if (idx / 18) % 2 == 0 { EntryMode::Step } else { EntryMode::UpdateApply };
    let session = b16(r);
    let s0 = b32(r);
    let client_version = r.range(v as u64, 2) as u8;
    let mut init_state = if r.bool() { Some((session, s0)) } else { None };
    let mut refresh = *r.pick(&[1u32, 2, 10, 11, 60, 600, 3600, 86_400]);
    let mut serial = s0;
    let mut steps: Vec<Step> = Vec::new();
    let mut before = 0usize;
    // completed exchanges in front
    let earlier_calls = match pos {
        Pos::Idle => r.range(1, 2) as usize,
        _ => r.below(2) as usize,
    };
    for _ in 0..earlier_calls {
        serial = serial.wrapping_add(1);
        let resp = encode_all(&gen_full_response(r, v, session, serial, refresh, 2));
        before += resp.len();
        steps.push(Step::AwaitQuery);
        steps.push(Step::Send(resp));
    }
    let has_state = init_state.is_some() || earlier_calls > 0;
    let pos = match pos {
        Pos::FirstReplySerial if !has_state => Pos::FirstReplyReset,
        Pos::FirstReplyReset if has_state => {
            // the client only asks with a reset query when it has no state
            if earlier_calls == 0 {
                init_state = None;
                Pos::FirstReplyReset
            } else {
                Pos::FirstReplySerial
            }
        }
        p => p,
    };
    if v == 0 {
        refresh = 3600; // version 0 has no timers on the wire: the client's default
    }
    let (what, unsolicited) = gen_unsolicited(r, v, session, pos);
    match pos {
        Pos::Idle => {
            // the unsolicited octets arrive while the client idles; if it ever asks again, it is answered
            steps.push(Step::Send(unsolicited.clone()));
        }
        Pos::FirstReplySerial | Pos::FirstReplyReset => {
            if earlier_calls > 0 {
                let n = Pdu::SerialNotify { v, session, serial: serial.wrapping_add(1) }.encode();
                before += n.len();
                steps.push(Step::Send(n));
            }
            steps.push(Step::AwaitQuery);
            steps.push(Step::Send(unsolicited.clone()));
        }
        Pos::PayloadSeq => {
            if earlier_calls > 0 {
                let n = Pdu::SerialNotify { v, session, serial: serial.wrapping_add(1) }.encode();
                before += n.len();
                steps.push(Step::Send(n));
            }
            let mut head = vec![Pdu::CacheResponse { v, session }];
            for _ in 0..r.below(3) {
                head.push(super::c07_nego::gen_announce(r, v));
            }
            let head = encode_all(&head);
            before += head.len();
            steps.push(Step::AwaitQuery);
            steps.push(Step::Send(head));
            steps.push(Step::Send(unsolicited.clone()));
        }
    }
    // a cache that goes on answering: whatever the client asks next gets a proper response
    for _ in 0..2 {
        serial = serial.wrapping_add(1);
        steps.push(Step::AwaitQuery);
        steps.push(Step::Send(encode_all(&gen_full_response(r, v, session, serial, refresh, 2))));
    }
    steps.push(Step::Silent);
    ClientCase { v, client_version, init_state, entry, pos, earlier_calls, refresh, unsolicited, what, steps, before }
}

/// Virtual seconds after which the harness gives up on a call. Far above
/// every timer of the client (refresh <= 86400 s, I/O timeout 10 s).
const PATIENCE_S: u64 = 4_000_000;

enum CallEnd {
    Ok,
    Err(String),
    /// no timer of the client was left, only the harness' own
    StillWaiting,
}

struct ClientOutcome {
    earlier_failed: Option<String>,
    end: Option<CallEnd>,
    virtual_s: f64,
    consumed: usize,
    queries_in_call: usize,
    applied_in_call: usize,
    silent_polls: u64,
    sent: Vec<u8>,
    panic: Option<String>,
}

async fn one_call(client: &mut Client<ScriptPeer, NTgt>, entry: EntryMode) -> Result<(), io::Error> {
    match entry {
        EntryMode::Step => client.step().await,
        EntryMode::UpdateApply => {
            let update = client.update().await?;
            client.apply(update).await
        }
    }
}

fn run_client_case(rt: &tokio::runtime::Runtime, case: &ClientCase, chunking: &Chunking) -> ClientOutcome {
    let sh = Arc::new(Mutex::new(PeerStats::default()));
    let peer = ScriptPeer::new(case.steps.clone(), chunking.clone(), sh.clone());
    let state = case.init_state.map(|(se, sn)| State::from_parts(se, Serial::from(sn)));
    let mut client = Client::with_initial_version(case.client_version, peer, NTgt::default(), state);
    let mut out = ClientOutcome { earlier_failed: None, end: None, virtual_s: 0.0, consumed: 0, queries_in_call: 0, applied_in_call: 0, silent_polls: 0, sent: Vec::new(), panic: None };
    let patience = Duration::from_secs(PATIENCE_S);
    let res = catch(|| {
        rt.block_on(async {
            for i in 0..case.earlier_calls {
                match tokio::time::timeout(patience, one_call(&mut client, case.entry)).await {
                    Ok(Ok(())) => {}
                    Ok(Err(e)) => return Err(format!("call {}: Err({:?}: {})", i + 1, e.kind(), e)),
                    Err(_) => return Err(format!("call {}: still waiting", i + 1)),
                }
            }
            let q0 = sh.lock().unwrap_or_else(|e| e.into_inner()).queries();
            let a0 = client.target().applied.len();
            let t0 = tokio::time::Instant::now();
            let end = match tokio::time::timeout(patience, one_call(&mut client, case.entry)).await {
                Ok(Ok(())) => CallEnd::Ok,
                Ok(Err(e)) => CallEnd::Err(format!("{:?}: {}", e.kind(), e)),
                Err(_) => CallEnd::StillWaiting,
            };
            let waited = tokio::time::Instant::now() - t0;
            let q1 = sh.lock().unwrap_or_else(|e| e.into_inner()).queries();
            Ok((end, waited.as_secs_f64(), q1 - q0, client.target().applied.len() - a0))
        })
    });
    match res {
        Ok(Ok((end, virtual_s, q, a))) => {
            out.end = Some(end);
            out.virtual_s = virtual_s;
            out.queries_in_call = q;
            out.applied_in_call = a;
        }
        Ok(Err(why)) => out.earlier_failed = Some(why),
        Err(text) => out.panic = Some(text),
    }
    let g = sh.lock().unwrap_or_else(|e| e.into_inner());
    out.consumed = g.consumed;
    out.silent_polls = g.silent_polls;
    out.sent = g.written.clone();
    out
}

struct ClientMon {
    evals: u64,
    seen: HashSet<String>,
    refused_at_once: u64,
    refused_after_timer: u64,
    open_ok: u64,
    open_err: u64,
    open_waits: u64,
    timer_fired_then_ok: u64,
    earlier_failed: u64,
    sampled: HashSet<&'static str>,
}

fn judge_client(ctx: &mut Ctx, mon: &mut ClientMon, rt: &tokio::runtime::Runtime, case: &ClientCase, chunking: &Chunking) {
    let o = run_client_case(rt, case, chunking);
    mon.evals += 1;
    let h = parse_header(&case.unsolicited);
    let verdict = h.and_then(|h| offending(case.pos, h));
    let hdr_class = match h {
        Some(h) => format!("{} {}", type_class(h.pdu), len_class(h.length)),
        None => format!("{} octets", case.unsolicited.len()),
    };
    let class = format!(
        "silent client {} v{} at {} x{} [{} {}] -> {}",
        case.entry.name(),
        case.v,
        case.pos.name(),
        case.earlier_calls.min(2),
        hdr_class,
        have_class(case.unsolicited.len()),
        verdict.unwrap_or("open")
    );
    if mon.seen.insert(class.clone()) {
        ctx.sig(&class);
    }
    let detail = |extra: Value| -> Value {
        json!({
            "protocol_version": case.v,
            "client_initial_version": case.client_version,
            "client_initial_state": case.init_state.map(|(a, b)| format!("{}:{}", a, b)),
            "entry_point": case.entry.name(),
            "calls_completed_before": case.earlier_calls,
            "reading_position": case.pos.name(),
            "refresh_interval_announced_s": case.refresh,
            "what_arrives_there": case.what,
            "octets_arriving_there_hex": hex_capped(&case.unsolicited, 128),
            "then": "the peer stays silent (reads are answered with Pending, no wake-up); a query the client writes is answered with a complete response",
            "octets_sent_by_the_peer_before": case.before,
            "delivery": format!("{:?}", chunking),
            "clock": "tokio runtime with paused clock; virtual time jumps to the next timer when the client waits",
            "octets_written_by_the_client_hex": hex_capped(&o.sent, 256),
            "observed": extra,
        })
    };
    if let Some(text) = &o.panic {
        ctx.violation(
            &format!("C07:panic:client-silent-stream:{}", panic_location(text)),
            &format!("Client::{} panicked: {}", case.entry.name(), text),
            detail(json!({"panic": text})),
        );
        return;
    }
    if let Some(why) = &o.earlier_failed {
        mon.earlier_failed += 1;
        if ctx.wants_sample("silent-client-earlier-call-failed") {
            let v = detail(json!({"earlier_call": why}));
            ctx.sample("silent-client-earlier-call-failed", || v);
        }
        return;
    }
    let Some(end) = &o.end else { return };
    let seen = json!({
        "result": match end { CallEnd::Ok => "Ok".to_string(), CallEnd::Err(e) => format!("Err({})", e), CallEnd::StillWaiting => format!("still waiting after {} virtual seconds", PATIENCE_S) },
        "virtual_seconds_passed_during_the_call": o.virtual_s,
        "queries_written_during_the_call": o.queries_in_call,
        "updates_applied_during_the_call": o.applied_in_call,
        "octets_taken_from_the_stream": o.consumed,
        "reads_answered_with_pending": o.silent_polls,
    });
    match verdict {
        Some(why) => match end {
            CallEnd::Ok => {
                ctx.violation(
                    &format!("C07:silent-stream:client-carries-on-after-offending-header:{}:{}", case.pos.name(), why),
                    &format!(
                        "Client::{} returned Ok: at the position '{}' the header {} arrived ({}: {}), the peer said nothing more, and the client went on with the session ({} queries sent, {} updates applied, {} virtual seconds later)",
                        case.entry.name(), case.pos.name(), hex(&case.unsolicited[..8]), why, case.what, o.queries_in_call, o.applied_in_call, o.virtual_s
                    ),
                    detail(seen),
                );
            }
            CallEnd::StillWaiting => {
                ctx.violation(
                    &format!("C07:silent-stream:client-waits-after-offending-header:{}:{}", case.pos.name(), why),
                    &format!(
                        "Client::{} never returned: at the position '{}' the header {} arrived ({}: {}), the peer said nothing more, and the client waits for octets without any timer running",
                        case.entry.name(), case.pos.name(), hex(&case.unsolicited[..8]), why, case.what
                    ),
                    detail(seen),
                );
            }
            CallEnd::Err(_) => {
                let hdr = h.expect("header");
                let expected = match case.pos {
                    Pos::Idle => 12,
                    Pos::FirstReplySerial | Pos::FirstReplyReset => 8,
                    Pos::PayloadSeq => 32,
                };
                let bound = case.before + (hdr.length as usize).max(8).max(expected);
                if o.consumed > bound {
                    ctx.violation(
                        &format!("C07:silent-stream:client-overread:{}:{}", case.pos.name(), why),
                        &format!("Client::{} gave up after taking {} octets; the offending PDU starts at {} and announces {}", case.entry.name(), o.consumed, case.before, hdr.length),
                        detail(seen),
                    );
                    return;
                }
                if o.virtual_s == 0.0 {
                    mon.refused_at_once += 1;
                    ctx.obs(&format!("silent_client_refused_at_once:{}", case.pos.name()), 1);
                    let sub: &'static str = match case.pos {
                        Pos::Idle => "idle",
                        _ => "",
                    };
                    if !sub.is_empty() && !mon.sampled.contains(sub) && case.unsolicited.len() < 12 && ctx.wants_sample("family-silent-stream-client") {
                        mon.sampled.insert(sub);
                        let s = json!({"what": "offending header, then silence: the client reports it at once", "entry": case.entry.name(), "version": case.v, "position": case.pos.name(), "arrives": case.what,
                            "octets_hex": hex(&case.unsolicited), "why": why, "delivery": chunking.label(), "observed": seen});
                        ctx.sample("family-silent-stream-client", || s);
                    }
                } else {
                    // an error, but only after a timer had to fire: the statement says "not for ever"
                    mon.refused_after_timer += 1;
                    ctx.obs(&format!("silent_client_error_only_after_a_timer_fired:{}", case.pos.name()), 1);
                    if ctx.wants_sample("silent-client-error-only-after-timer") {
                        let s = detail(seen);
                        ctx.sample("silent-client-error-only-after-timer", || s);
                    }
                }
            }
        },
        None => {
            // nothing offending arrived: recorded (the refresh timer path, partial PDUs, open types)
            match end {
                CallEnd::Ok => {
                    mon.open_ok += 1;
                    if case.pos == Pos::Idle && o.virtual_s > 0.0 {
                        mon.timer_fired_then_ok += 1;
                        ctx.obs_max("silent_client_virtual_seconds_waited_for_refresh", o.virtual_s as u64);
                        if case.unsolicited.is_empty() && (o.virtual_s - case.refresh as f64).abs() > 0.5 {
                            ctx.obs("silent_client_idle_wait_differs_from_refresh_interval", 1);
                        }
                        if !mon.sampled.contains("timer") && ctx.wants_sample("family-silent-stream-client") {
                            mon.sampled.insert("timer");
                            let s = json!({"what": "nothing offending arrives while idle: the refresh timer fires, the client asks again", "entry": case.entry.name(), "version": case.v, "refresh_s": case.refresh, "arrived_while_idle": case.what, "observed": seen});
                            ctx.sample("family-silent-stream-client", || s);
                        }
                    }
                }
                CallEnd::Err(_) => mon.open_err += 1,
                CallEnd::StillWaiting => {
                    mon.open_waits += 1;
                    ctx.obs(&format!("silent_client_waits_without_timer_for_rest_of_wellformed_pdu:{}", case.pos.name()), 1);
                }
            }
        }
    }
}

//------------ entry ------------------------------------------------------------------------

pub(super) fn run_silent(ctx: &mut Ctx) {
    let miri = ctx.stage == Stage::Miri;
    let mut mon = SilentMon { evals: 0, seen: HashSet::new(), refused_at_once: 0, waits_legit: 0, complete_ok: 0, early_refusals: 0, silent_polls: 0 };
    let mut r = ctx.rng("silent-streams");
    // PDU level: rounds of ~330 streams x prefix lengths x 37 entry points
    let rounds = ctx.stage_budget((16, 400), 8, 12, 0);
    pdu_level(ctx, &mut mon, &mut r, if miri { 1 } else { rounds }, miri);
    ctx.evals(mon.evals);
    ctx.obs("silent_pdu_reads_judged", mon.evals);
    ctx.obs("silent_pdu_classes_in_this_shard", mon.seen.len() as u64);
    ctx.obs("silent_pdu_offending_header_refused_at_once", mon.refused_at_once);
    ctx.obs("silent_pdu_incomplete_wellformed_prefix_waits", mon.waits_legit);
    ctx.obs("silent_pdu_complete_pdu_read", mon.complete_ok);
    ctx.obs("silent_pdu_refused_although_not_obliged", mon.early_refusals);
    ctx.obs("silent_pdu_polls_answered_with_pending_for_ever", mon.silent_polls);
    if mon.refused_at_once == 0 {
        ctx.notes.push("C07: silent-stream workload saw no offending header refused in this shard".into());
    }
    if miri {
        return;
    }
    // client level
    let mut cm = ClientMon { evals: 0, seen: HashSet::new(), refused_at_once: 0, refused_after_timer: 0, open_ok: 0, open_err: 0, open_waits: 0, timer_fired_then_ok: 0, earlier_failed: 0, sampled: HashSet::new() };
    let cases = ctx.stage_budget((24_000, 600_000), 12_000, 0, 0);
    let new_rt = || tokio::runtime::Builder::new_current_thread().enable_time().start_paused(true).build().expect("tokio runtime");
    let mut rt = new_rt();
    for i in 0..cases {
        if i % 32 == 31 {
            // virtual time adds up (a call that waits without a timer costs PATIENCE_S): start afresh now and then
            rt = new_rt();
        }
        let case = gen_client_case(&mut r, i + ctx.shard);
        if i % 256 == 0 {
            ctx.breadcrumb(&format!("silent client case {} {} {}", i, case.pos.name(), case.what));
        }
        let chunking = match r.below(4) {
            0 | 1 => Chunking::AllAtOnce,
            2 => Chunking::ByteWise,
            _ => random_script(&mut r),
        };
        judge_client(ctx, &mut cm, &rt, &case, &chunking);
    }
    ctx.evals(cm.evals);
    ctx.obs("silent_client_calls_judged", cm.evals);
    ctx.obs("silent_client_classes_in_this_shard", cm.seen.len() as u64);
    ctx.obs("silent_client_offending_header_refused_at_once", cm.refused_at_once);
    ctx.obs("silent_client_offending_header_refused_after_a_timer", cm.refused_after_timer);
    ctx.obs("silent_client_open_cases_ok", cm.open_ok);
    ctx.obs("silent_client_open_cases_err", cm.open_err);
    ctx.obs("silent_client_open_cases_still_waiting", cm.open_waits);
    ctx.obs("silent_client_refresh_timer_fired_then_exchange_completed", cm.timer_fired_then_ok);
    ctx.obs("silent_client_earlier_call_failed", cm.earlier_failed);
    if ctx.tier == Tier::Quick && cm.refused_at_once == 0 {
        ctx.notes.push("C07: silent-stream client workload refused no offending header in this shard".into());
    }
}
