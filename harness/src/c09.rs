//! C09 — RRDP files round-trip and hostile XML is rejected within fixed bounds.
//!
//! Sub-workloads (each an oracle written from the property statement):
//!  1. round trips: `parse(write_xml(v)) == v` for generated notification /
//!     snapshot / delta values, compared field by field with the model value
//!     (including element order) and through the harness' own
//!     `ProcessSnapshot` / `ProcessDelta` collectors;
//!  2. foreign but valid documents from an independent writer (observation);
//!  3. never-ending hostile streams behind a counting reader (c09_hostile);
//!  4. delta-chain and origin checks against a model (c09_deltas);
//!  5. byte-mutated documents and random bytes: no panic (c09_hostile).
//!
//! Literal cases (`vcheck C09 --case f`): a libFuzzer input of target
//! `c09_rrdp`, `{"fuzz_target": "rrdp", "hex": bytes}` (octet 0 selects file
//! kind, parser and reader chunking, the rest is the document; judged by the
//! same `feed_as` as the mutants of workload 5), or `{"write_corpus": dir}`
//! which writes the seed corpus of that target.

use crate::c09_gen::{self as g, Kind, MDelta, MEl, MNotif, MSnap, SizePlan, Style};
use crate::c09_io::Dribble;
use crate::c09_lib::{self as l, Collect, ReadMode};
use crate::core::{hex, Ctx, Rng, Stage, Tier};
use rpki::rrdp::{Delta, NotificationFile, ProcessDelta, ProcessSnapshot, Snapshot};
use serde_json::json;
use std::io::BufReader;

pub fn run(ctx: &mut Ctx) {
    // literal cases: libFuzzer artifact / seed corpus of the fuzz stage
    if let Some(case) = ctx.case.clone() {
        run_case(ctx, &case);
        return;
    }
    let limits = rpki::rrdp::VERIF_LIMITS;
    ctx.obs_max("configured_header_limit", limits.0);
    ctx.obs_max("configured_file_limit", limits.1);
    let timing = std::env::var_os("C09_TIMING").is_some();
    let mut last = ctx.elapsed_s();
    let mut lap = |ctx: &Ctx, what: &str| {
        if timing {
            let now = ctx.elapsed_s();
            eprintln!("C09 timing {:<14} {:.2}s", what, now - last);
            last = now;
        }
    };
    roundtrips(ctx);
    lap(ctx, "roundtrips");
    foreign(ctx);
    lap(ctx, "foreign");
    lexical_attrs(ctx);
    lap(ctx, "lexical_attrs");
    failing_sinks(ctx);
    lap(ctx, "failing_sinks");
    crate::c09_deltas::delta_chain(ctx);
    lap(ctx, "delta_chain");
    crate::c09_deltas::origins(ctx);
    lap(ctx, "origins");
    crate::c09_hostile::hostile(ctx, limits);
    lap(ctx, "hostile");
    crate::c09_hostile::compound(ctx, limits);
    lap(ctx, "compound");
    crate::c09_hostile::after_long_valid_prefix(ctx, limits);
    lap(ctx, "long_prefix");
    crate::c09_hostile::finite_hostile(ctx);
    lap(ctx, "finite_hostile");
    crate::c09_hostile::mutation(ctx);
    lap(ctx, "mutation");
}

fn head(xml: &[u8]) -> String {
    String::from_utf8_lossy(&xml[..xml.len().min(600)]).into_owned()
}

/// How the bytes are handed to the parser.
fn reader_plan(rng: &mut Rng, len: usize) -> Option<(usize, Vec<usize>)> {
    match rng.below(4) {
        0 => None, // the slice itself (it is a BufRead)
        1 => Some((*rng.pick(&[1usize, 2, 3, 7, 64]), vec![1, 5, 2, 64])),
        2 => Some((8192, vec![4096, 1, 8191, 3])),
        _ => Some((rng.range(16, 70_000) as usize, vec![len.max(1)])),
    }
}

fn plan_for(ctx: &Ctx, rng: &mut Rng, i: u64) -> (SizePlan, &'static str) {
    if ctx.stage == Stage::Miri {
        return (SizePlan { max_elements: 3, data_cap: 80, long_uris: false }, "tiny");
    }
    // the first cases of every shard are the big ones, so that a quick run
    // always contains documents larger than the per-element limits
    match i {
        0 => (SizePlan { max_elements: 300, data_cap: 65_536, long_uris: true }, "large"),
        _ => match rng.below(20) {
            0 => (SizePlan { max_elements: 300, data_cap: 65_536, long_uris: true }, "large"),
            1..=4 => (SizePlan { max_elements: 300, data_cap: 4_096, long_uris: true }, "medium"),
            _ => (SizePlan { max_elements: 40, data_cap: 700, long_uris: false }, "small"),
        },
    }
}

/// Object lengths for the one "huge" document of a shard.
fn huge_lengths(ctx: &mut Ctx) -> Vec<usize> {
    let top = if ctx.tier == Tier::Thorough { 24 } else { 22 };
    let mut ladder = Vec::new();
    for k in 17..=top {
        let p = 1usize << k;
        ladder.extend_from_slice(&[p - 1, p, p + 1, p + 2, p / 2 * 3, p / 2 * 3 + 1, p / 2 * 3 + 2]);
    }
    let per = if ctx.tier == Tier::Thorough { 4 } else { 2 };
    let start = ctx.shard as usize * per;
    let out: Vec<usize> = (0..per).map(|j| ladder[(start + j * 7 + j) % ladder.len()]).collect();
    ctx.obs_max("roundtrip_largest_object_octets", *out.iter().max().unwrap() as u64);
    ctx.obs("roundtrip_huge_objects", out.len() as u64);
    out
}

fn roundtrips(ctx: &mut Ctx) {
    let n = crate::c09_io::budget(ctx, (7_200, 240_000), 9_000, (8, 48));
    let mut rng = ctx.rng("roundtrip");
    let mut gen_rejected = 0u64;
    let miri = ctx.stage == Stage::Miri;
    for i in 0..n {
        let kind = Kind::ALL[(i % 3) as usize];
        let (mut plan, size) = plan_for(ctx, &mut rng, i / 3);
        let big = i / 3 == 0 && !miri;
        // the second case of every shard carries a few objects far above the
        // sizes of the rest of the workload: lengths around powers of two and
        // around 3 * 2^k from 128 KiB up (block sizes of streaming encoders /
        // decoders), a different pair of lengths in every shard
        let huge: Vec<usize> = if i / 3 == 1 && !miri { huge_lengths(ctx) } else { Vec::new() };
        if big && kind != Kind::Notification {
            // make sure the total exceeds the header limit many times over
            plan.max_elements = 300;
        }
        match kind {
            Kind::Notification => {
                let mut m = g::gen_notif(&mut rng, &plan);
                if big {
                    // > header limit in total while every element stays small
                    while m.deltas.len() < 300 {
                        m.deltas.push((g::gen_serial(&mut rng), g::gen_https(&mut rng, None, true), g::gen_hash(&mut rng)));
                    }
                    for d in m.deltas.iter_mut() {
                        if d.1.len() < 3000 {
                            d.1 = format!("{}/{}", d.1, "p".repeat(3600));
                        }
                    }
                }
                match l::lib_notif(&m) {
                    Some(v) => rt_notif(ctx, &mut rng, &m, &v, size),
                    None => gen_rejected += 1,
                }
            }
            Kind::Snapshot => {
                let mut m = g::gen_snap(&mut rng, &plan);
                if big {
                    while m.elements.len() < 40 {
                        m.elements.push((g::gen_rsync(&mut rng, false), rng.bytes(65_536)));
                    }
                }
                for n in &huge {
                    m.elements.push((g::gen_rsync(&mut rng, false), rng.bytes(*n)));
                }
                let size = if huge.is_empty() { size } else { "huge" };
                match l::lib_snap(&m) {
                    Some(v) => rt_snap(ctx, &mut rng, &m, &v, size),
                    None => gen_rejected += 1,
                }
            }
            Kind::Delta => {
                let mut m = g::gen_delta(&mut rng, &plan);
                if big {
                    while m.elements.len() < 40 {
                        let u = g::gen_rsync(&mut rng, false);
                        let k = m.elements.len() % 3;
                        m.elements.push(match k {
                            0 => MEl::Publish(u, rng.bytes(65_536)),
                            1 => MEl::Withdraw(u, g::gen_hash(&mut rng)),
                            _ => MEl::Update(u, g::gen_hash(&mut rng), rng.bytes(65_535)),
                        });
                    }
                }
                for (k, n) in huge.iter().enumerate() {
                    let u = g::gen_rsync(&mut rng, false);
                    m.elements.push(if k % 2 == 0 { MEl::Publish(u, rng.bytes(*n)) } else { MEl::Update(u, g::gen_hash(&mut rng), rng.bytes(*n)) });
                }
                let size = if huge.is_empty() { size } else { "huge" };
                match l::lib_delta(&m) {
                    Some(v) => rt_delta(ctx, &mut rng, &m, &v, size),
                    None => gen_rejected += 1,
                }
            }
        }
    }
    if gen_rejected > 0 {
        ctx.obs("generator_values_rejected_by_constructors", gen_rejected);
        ctx.notes.push(format!("C09: {} generated URIs were refused by the crate's URI constructors (generator bug, cases skipped)", gen_rejected));
    }
}

fn chars_of<'a>(uris: impl Iterator<Item = &'a str>) -> String {
    let mut set = std::collections::BTreeSet::new();
    for u in uris {
        for c in g::uri_class(u).chars() {
            set.insert(c);
        }
    }
    set.into_iter().collect()
}

fn rt_notif(ctx: &mut Ctx, rng: &mut Rng, m: &MNotif, v: &NotificationFile, size: &str) {
    let mut xml = Vec::new();
    if let Err(e) = v.write_xml(&mut xml) {
        ctx.violation("C09:roundtrip:notification:write-failed", &format!("write_xml failed: {}", e), json!({"serial": m.serial}));
        return;
    }
    ctx.obs_max("roundtrip_doc_bytes_notification", xml.len() as u64);
    short_sink_check(ctx, rng, "notification", &xml, |w| v.write_xml(w));
    let plan = reader_plan(rng, xml.len());
    let limited = match rng.below(4) {
        0 => Some(m.deltas.len()),
        1 => Some(m.deltas.len() + 1),
        _ => None,
    };
    let detail = || json!({"xml_head": head(&xml), "xml_len": xml.len(), "deltas": m.deltas.len(), "reader": format!("{:?}", plan), "parse_limited": limited});
    let res = ctx.no_panic("NotificationFile::parse", detail, || match (&plan, limited) {
        (None, None) => NotificationFile::parse(&xml[..]),
        (None, Some(k)) => NotificationFile::parse_limited(&xml[..], k),
        (Some((cap, chunks)), None) => NotificationFile::parse(BufReader::with_capacity(*cap, Dribble::new(&xml, chunks.clone()))),
        (Some((cap, chunks)), Some(k)) => {
            NotificationFile::parse_limited(BufReader::with_capacity(*cap, Dribble::new(&xml, chunks.clone())), k)
        }
    });
    ctx.eval();
    ctx.sig(&format!(
        "rt notification n={} chars={} size={}",
        g::count_class(m.deltas.len()),
        chars_of(std::iter::once(m.snapshot.0.as_str()).chain(m.deltas.iter().map(|d| d.1.as_str()))),
        size
    ));
    match res {
        None => {}
        Some(Err(e)) => ctx.violation(
            "C09:roundtrip:notification:rejected",
            &format!("a notification written by write_xml was rejected by parse: {}", e),
            detail(),
        ),
        Some(Ok(p)) => {
            ctx.obs("roundtrip_ok_candidates", 1);
            if let Some(f) = l::diff_notif(&p, m) {
                ctx.violation(&format!("C09:roundtrip:notification:{}", f), "parsed notification differs from the written value", detail());
            } else if p != *v {
                ctx.violation("C09:roundtrip:notification:not-eq", "parsed notification != written value although all fields agree", detail());
            }
        }
    }
    ctx.sample("roundtrip-notification", || {
        json!({"session": g::uuid_text(&m.session), "serial": m.serial, "snapshot_uri": m.snapshot.0, "deltas": m.deltas.len(),
               "xml_len": xml.len(), "xml_head": head(&xml), "observed": "parsed value equal to written value"})
    });
}

fn rt_snap(ctx: &mut Ctx, rng: &mut Rng, m: &MSnap, v: &Snapshot, size: &str) {
    let mut xml = Vec::new();
    if let Err(e) = v.write_xml(&mut xml) {
        ctx.violation("C09:roundtrip:snapshot:write-failed", &format!("write_xml failed: {}", e), json!({"serial": m.serial}));
        return;
    }
    ctx.obs_max("roundtrip_doc_bytes_snapshot", xml.len() as u64);
    short_sink_check(ctx, rng, "snapshot", &xml, |w| v.write_xml(w));
    let plan = reader_plan(rng, xml.len());
    let detail = || json!({"xml_head": head(&xml), "xml_len": xml.len(), "elements": m.elements.len(), "reader": format!("{:?}", plan),
                           "data_lens": m.elements.iter().take(40).map(|e| e.1.len()).collect::<Vec<_>>()});
    let biggest = m.elements.iter().map(|e| e.1.len()).max().unwrap_or(0);
    ctx.sig(&format!(
        "rt snapshot n={} chars={} maxdata={} size={}",
        g::count_class(m.elements.len()),
        chars_of(m.elements.iter().map(|e| e.0.as_str())),
        g::data_class(&vec![0u8; biggest.min(65_536)]),
        size
    ));
    // (a) the owned parser
    let res = ctx.no_panic("Snapshot::parse", detail, || match &plan {
        None => Snapshot::parse(&xml[..]),
        Some((cap, chunks)) => Snapshot::parse(BufReader::with_capacity(*cap, Dribble::new(&xml, chunks.clone()))),
    });
    ctx.eval();
    match res {
        None => {}
        Some(Err(e)) => ctx.violation("C09:roundtrip:snapshot:rejected", &format!("a snapshot written by write_xml was rejected by parse: {}", e), detail()),
        Some(Ok(p)) => {
            ctx.obs("roundtrip_ok_candidates", 1);
            if let Some(f) = l::diff_snap(&p, m) {
                ctx.violation(&format!("C09:roundtrip:snapshot:{}", f), "parsed snapshot differs from the written value", detail());
            } else if p != *v {
                ctx.violation("C09:roundtrip:snapshot:not-eq", "parsed snapshot != written value although all fields agree", detail());
            }
        }
    }
    // (b) the harness' own ProcessSnapshot implementation
    let mode = match rng.below(8) {
        0 => ReadMode::ToEnd,
        6 | 7 => ReadMode::Mixed(rng.next_u64()),
        1 => ReadMode::Chunk(1),
        2 => ReadMode::Chunk(*rng.pick(&[2usize, 3, 4, 5, 7, 1023, 1024, 1025])),
        3 => ReadMode::Skip,
        4 => ReadMode::Partial(*rng.pick(&[1usize, 3, 100])),
        _ => ReadMode::Chunk(rng.range(1, 10_000) as usize),
    };
    if matches!(mode, ReadMode::Chunk(1)) && xml.len() > 400_000 {
        return;
    }
    let mut c = Collect::new(mode);
    let res = ctx.no_panic("ProcessSnapshot::process", detail, || ProcessSnapshot::process(&mut c, &xml[..]));
    ctx.eval();
    match res {
        None => {}
        Some(Err(e)) => ctx.violation("C09:roundtrip:snapshot:process-rejected", &format!("ProcessSnapshot::process rejected a written snapshot: {:?}", e), detail()),
        Some(Ok(())) => {
            let want: Vec<MEl> = m.elements.iter().map(|(u, d)| MEl::Publish(u.clone(), d.clone())).collect();
            if let Some(f) = l::diff_collect(&c, &m.session, m.serial, &want) {
                ctx.violation(&format!("C09:roundtrip:snapshot:process:{}", f), &format!("ProcessSnapshot callbacks differ from the written value (read mode {:?})", mode), detail());
            }
            ctx.obs(&format!("collector_mode_{}", mode_name(mode)), 1);
        }
    }
    ctx.sample("roundtrip-snapshot", || {
        json!({"session": g::uuid_text(&m.session), "serial": m.serial, "elements": m.elements.len(),
               "first_uri": m.elements.first().map(|e| e.0.clone()), "data_lens": m.elements.iter().take(12).map(|e| e.1.len()).collect::<Vec<_>>(),
               "xml_len": xml.len(), "observed": "Snapshot::parse and the collecting ProcessSnapshot both returned the written elements in order"})
    });
}

fn mode_name(m: ReadMode) -> &'static str {
    match m {
        ReadMode::ToEnd => "read_to_end",
        ReadMode::Chunk(_) => "chunked",
        ReadMode::Skip => "skip",
        ReadMode::Partial(_) => "partial",
        ReadMode::Mixed(_) => "mixed_read_calls",
    }
}

fn rt_delta(ctx: &mut Ctx, rng: &mut Rng, m: &MDelta, v: &Delta, size: &str) {
    let mut xml = Vec::new();
    if let Err(e) = v.write_xml(&mut xml) {
        ctx.violation("C09:roundtrip:delta:write-failed", &format!("write_xml failed: {}", e), json!({"serial": m.serial}));
        return;
    }
    ctx.obs_max("roundtrip_doc_bytes_delta", xml.len() as u64);
    short_sink_check(ctx, rng, "delta", &xml, |w| v.write_xml(w));
    let plan = reader_plan(rng, xml.len());
    let order: String = m.elements.iter().take(60).map(|e| e.kind_char()).collect();
    let detail = || json!({"xml_head": head(&xml), "xml_len": xml.len(), "elements": m.elements.len(), "order": order, "reader": format!("{:?}", plan)});
    let mut kinds = std::collections::BTreeSet::new();
    let mut transitions = std::collections::BTreeSet::new();
    let mut prev = None;
    for e in &m.elements {
        kinds.insert(e.kind_char());
        if let Some(p) = prev {
            if p != e.kind_char() {
                transitions.insert(format!("{}{}", p, e.kind_char()));
            }
        }
        prev = Some(e.kind_char());
    }
    ctx.sig(&format!(
        "rt delta n={} kinds={} transitions={} chars={} size={}",
        g::count_class(m.elements.len()),
        kinds.iter().collect::<String>(),
        transitions.len(),
        chars_of(m.elements.iter().map(|e| e.uri())),
        size
    ));
    let res = ctx.no_panic("Delta::parse", detail, || match &plan {
        None => Delta::parse(&xml[..]),
        Some((cap, chunks)) => Delta::parse(BufReader::with_capacity(*cap, Dribble::new(&xml, chunks.clone()))),
    });
    ctx.eval();
    match res {
        None => {}
        Some(Err(e)) => ctx.violation("C09:roundtrip:delta:rejected", &format!("a delta written by write_xml was rejected by parse: {}", e), detail()),
        Some(Ok(p)) => {
            ctx.obs("roundtrip_ok_candidates", 1);
            if let Some(f) = l::diff_delta(&p, m) {
                ctx.violation(&format!("C09:roundtrip:delta:{}", f), "parsed delta differs from the written value", detail());
            } else if p != *v {
                ctx.violation("C09:roundtrip:delta:not-eq", "parsed delta != written value although all fields agree", detail());
            }
        }
    }
    let mode = match rng.below(7) {
        0 => ReadMode::ToEnd,
        5 | 6 => ReadMode::Mixed(rng.next_u64()),
        1 => ReadMode::Chunk(*rng.pick(&[1usize, 2, 3, 5, 1024])),
        2 => ReadMode::Skip,
        3 => ReadMode::Partial(*rng.pick(&[1usize, 3, 100])),
        _ => ReadMode::Chunk(rng.range(1, 10_000) as usize),
    };
    if matches!(mode, ReadMode::Chunk(1)) && xml.len() > 400_000 {
        return;
    }
    let mut c = Collect::new(mode);
    let res = ctx.no_panic("ProcessDelta::process", detail, || ProcessDelta::process(&mut c, &xml[..]));
    ctx.eval();
    match res {
        None => {}
        Some(Err(e)) => ctx.violation("C09:roundtrip:delta:process-rejected", &format!("ProcessDelta::process rejected a written delta: {:?}", e), detail()),
        Some(Ok(())) => {
            if let Some(f) = l::diff_collect(&c, &m.session, m.serial, &m.elements) {
                ctx.violation(&format!("C09:roundtrip:delta:process:{}", f), &format!("ProcessDelta callbacks differ from the written value (read mode {:?})", mode), detail());
            }
            ctx.obs(&format!("collector_mode_{}", mode_name(mode)), 1);
        }
    }
    ctx.sample("roundtrip-delta", || {
        json!({"session": g::uuid_text(&m.session), "serial": m.serial, "element_kinds_in_order": order,
               "first_uri": m.elements.first().map(|e| e.uri().to_string()), "xml_len": xml.len(),
               "observed": "Delta::parse and the collecting ProcessDelta both returned the written elements in order"})
    });
}

//------------ foreign valid documents (observation only) --------------------

/// Documents produced by the harness' own writer in many legal spellings.
/// The statement only demands "error or value, no panic" for them; whether
/// they are accepted and whether the value is the intended one is recorded.
fn foreign(ctx: &mut Ctx) {
    let n = crate::c09_io::budget(ctx, (6_000, 90_000), 6_000, (4, 24));
    let mut rng = ctx.rng("foreign");
    let tiny = ctx.stage == Stage::Miri;
    for i in 0..n {
        let kind = Kind::ALL[(i % 3) as usize];
        let plan = if tiny {
            SizePlan { max_elements: 3, data_cap: 60, long_uris: false }
        } else {
            SizePlan { max_elements: 12, data_cap: 2_000, long_uris: false }
        };
        let st = Style::random(&mut rng);
        let detail_style = st.describe();
        let (doc, verdict): (Vec<u8>, Option<Result<Option<String>, String>>) = match kind {
            Kind::Notification => {
                let m = g::gen_notif(&mut rng, &plan);
                let d = g::write_notif(&m, &st, &mut rng).bytes;
                let r = ctx.no_panic("NotificationFile::parse(foreign)", || json!({"doc": head(&d), "style": detail_style}), || NotificationFile::parse(&d[..]));
                let v = r.map(|r| r.map(|p| l::diff_notif(&p, &m)).map_err(|e| e.to_string()));
                (d, v)
            }
            Kind::Snapshot => {
                let m = g::gen_snap(&mut rng, &plan);
                let d = g::write_snap(&m, &st, &mut rng).bytes;
                let r = ctx.no_panic("Snapshot::parse(foreign)", || json!({"doc": head(&d), "style": detail_style}), || Snapshot::parse(&d[..]));
                let v = r.map(|r| r.map(|p| l::diff_snap(&p, &m)).map_err(|e| e.to_string()));
                (d, v)
            }
            Kind::Delta => {
                let m = g::gen_delta(&mut rng, &plan);
                let d = g::write_delta(&m, &st, &mut rng).bytes;
                let r = ctx.no_panic("Delta::parse(foreign)", || json!({"doc": head(&d), "style": detail_style}), || Delta::parse(&d[..]));
                let v = r.map(|r| r.map(|p| l::diff_delta(&p, &m)).map_err(|e| e.to_string()));
                (d, v)
            }
        };
        ctx.eval();
        match verdict {
            None => {}
            Some(Ok(None)) => {
                ctx.obs("foreign_valid_accepted_with_intended_value", 1);
                ctx.sig(&format!("foreign {} accepted ns{} q{} e{} b{} a{}", kind.name(), st.prefix_ns as u8, st.quote, st.empty_style, st.b64_wrap, st.amp_style));
            }
            Some(Ok(Some(field))) => {
                ctx.obs("foreign_valid_accepted_with_other_value", 1);
                ctx.sample("foreign-accepted-with-other-value", || json!({"kind": kind.name(), "field": field, "style": detail_style, "doc_head": head(&doc)}));
            }
            Some(Err(e)) => {
                ctx.obs("foreign_valid_rejected", 1);
                ctx.sig(&format!("foreign {} rejected decl{} ns{} H{}", kind.name(), st.decl, st.prefix_ns as u8, st.upper_hex as u8));
                ctx.sample("foreign-rejected", || json!({"kind": kind.name(), "error": e, "style": detail_style, "doc_head": head(&doc)}));
            }
        }
        if i == 0 {
            ctx.sample("foreign-accepted", || json!({"kind": kind.name(), "style": detail_style, "doc_head": head(&doc)}));
        }
    }
    let _ = (hex(&[]), Tier::Quick);
}


//------------ attribute values in other lexical forms ------------------------

/// The spans (start, end) of attribute values in a document written by the
/// harness (plain style: `name="value"`), with the attribute's name.
fn attr_spans(doc: &[u8]) -> Vec<(String, usize, usize)> {
    let mut v = Vec::new();
    let mut i = 0;
    while i + 1 < doc.len() {
        if doc[i] == b'=' && (doc[i + 1] == b'"' || doc[i + 1] == b'\'') {
            let q = doc[i + 1];
            let start = i + 2;
            if let Some(len) = doc[start..].iter().position(|b| *b == q) {
                let mut n = i;
                while n > 0 && (doc[n - 1].is_ascii_alphanumeric() || doc[n - 1] == b'_' || doc[n - 1] == b':') {
                    n -= 1;
                }
                v.push((String::from_utf8_lossy(&doc[n..i]).into_owned(), start, start + len));
                i = start + len + 1;
                continue;
            }
        }
        i += 1;
    }
    v
}

/// Valid documents whose attribute values are re-spelled: characters written
/// as numeric character references (the same character: an XML reader sees
/// the same value), references to characters of 2, 3 and 4 UTF-8 octets put
/// in place of as many ASCII characters (so every fixed-length check still
/// sees the expected number of octets, at every offset of `hash`,
/// `session_id` and the other attributes), raw non-ASCII octets, and
/// predefined entities. The statement asks for an error or a value, never a
/// panic; whether a same-character reference is read as the character is
/// recorded.
fn lexical_attrs(ctx: &mut Ctx) {
    let tiny = ctx.stage == Stage::Miri;
    if tiny && ctx.shard != 0 {
        return;
    }
    let rounds = crate::c09_io::budget(ctx, (9, 120), 9, (1, 2));
    let mut rng = ctx.rng("lexical-attrs");
    let st = Style::plain();
    let wide: [(u32, usize); 6] = [(0xE9, 2), (0x100, 2), (0x4E2D, 3), (0x212A, 3), (0x1F600, 4), (0x10FFFF, 4)];
    for round in 0..rounds {
        let kind = Kind::ALL[(round % 3) as usize];
        let plan = SizePlan { max_elements: if tiny { 1 } else { 3 }, data_cap: 40, long_uris: false };
        let doc = match kind {
            Kind::Notification => g::write_notif(&g::gen_notif(&mut rng, &plan), &st, &mut rng).bytes,
            Kind::Snapshot => g::write_snap(&g::gen_snap(&mut rng, &plan), &st, &mut rng).bytes,
            Kind::Delta => g::write_delta(&g::gen_delta(&mut rng, &plan), &st, &mut rng).bytes,
        };
        let baseline = l::parse_kind(kind, l::Via::Owned, &doc[..]).is_ok();
        if !baseline {
            ctx.obs("lexical_baseline_document_rejected", 1);
            continue;
        }
        let spans = attr_spans(&doc);
        let mut variants: Vec<(String, &'static str, Vec<u8>)> = Vec::new();
        for (name, a, b) in &spans {
            let len = b - a;
            let offsets: Vec<usize> = if tiny { vec![0, len / 2] } else if len <= 70 { (0..len).collect() } else { (0..len).step_by(len / 40 + 1).collect() };
            for &o in &offsets {
                let c = doc[a + o];
                if c == b'&' {
                    continue;
                }
                let splice = |from: usize, to: usize, with: &[u8]| -> Vec<u8> {
                    let mut d = doc[..from].to_vec();
                    d.extend_from_slice(with);
                    d.extend_from_slice(&doc[to..]);
                    d
                };
                // the same character as a reference (hex and decimal)
                variants.push((name.clone(), "same-char-hex-ref", splice(a + o, a + o + 1, format!("&#x{:X};", c).as_bytes())));
                if o % 3 == 0 {
                    variants.push((name.clone(), "same-char-dec-ref", splice(a + o, a + o + 1, format!("&#{};", c).as_bytes())));
                }
                // w ASCII characters replaced by one character of w octets, as a reference and raw
                for (cp, w) in wide {
                    if o + w > len || (o + w as usize + cp as usize) % 2 == 1 && !tiny && len > 40 && w == 4 {
                        continue;
                    }
                    variants.push((name.clone(), "wide-char-ref-keeping-octet-length", splice(a + o, a + o + w, format!("&#x{:X};", cp).as_bytes())));
                    if o % 5 == 0 {
                        let raw = char::from_u32(cp).unwrap_or('\u{E9}').to_string();
                        variants.push((name.clone(), "wide-char-raw-keeping-octet-length", splice(a + o, a + o + w, raw.as_bytes())));
                    }
                }
                if o % 7 == 0 {
                    variants.push((name.clone(), "entity-inserted", splice(a + o, a + o, *rng.pick(&[&b"&amp;"[..], b"&lt;", b"&quot;", b"&apos;", b"&gt;", b"&#0;", b"&#xD800;", b"&#x110000;", b"&;", b"&#;", b"&#x;"]))));
                }
            }
        }
        if tiny {
            // a parse costs tens of milliseconds in the interpreter
            let keep: Vec<usize> = (0..variants.len()).step_by(variants.len() / 24 + 1).collect();
            variants = keep.into_iter().map(|i| variants[i].clone()).collect();
        }
        for (name, what, d) in variants {
            for via in [l::Via::Owned, l::Via::Alt] {
                let r = ctx.no_panic(
                    &format!("parse-lexical-attr:{}:{}", kind.name(), name),
                    || json!({"kind": kind.name(), "attribute": name, "respelling": what, "doc": String::from_utf8_lossy(&d)}),
                    || l::parse_kind(kind, via, &d[..]).is_ok(),
                );
                ctx.eval();
                if let Some(ok) = r {
                    ctx.obs(&format!("lexical_{}_{}", what, if ok { "accepted" } else { "rejected" }), 1);
                    ctx.sig(&format!("lexical {} @{} {} {}", kind.name(), name, what, if ok { "accepted" } else { "rejected" }));
                }
            }
        }
    }
}

//------------ short writes ---------------------------------------------------

/// An `io::Write` that takes at most `max` bytes per call.
struct ShortSink {
    out: Vec<u8>,
    max: usize,
}

impl std::io::Write for ShortSink {
    fn write(&mut self, buf: &[u8]) -> std::io::Result<usize> {
        let n = buf.len().min(self.max);
        self.out.extend_from_slice(&buf[..n]);
        Ok(n)
    }
    fn flush(&mut self) -> std::io::Result<()> {
        Ok(())
    }
}

/// The same file written into a sink that accepts only a few bytes per call:
/// if the writer reports success, exactly the same bytes must have arrived.
/// (An error is the writer's right, e.g. the Base64 encoder refuses short
/// writes; it is only counted.)
fn short_sink_check(
    ctx: &mut Ctx,
    rng: &mut Rng,
    kind: &str,
    xml: &[u8],
    write: impl Fn(&mut ShortSink) -> Result<(), std::io::Error>,
) {
    if xml.len() > 200_000 || !rng.chance(1, 3) {
        return;
    }
    let max = *rng.pick(&[1usize, 3, 16, 61]);
    let mut sink = ShortSink { out: Vec::new(), max };
    ctx.eval();
    match write(&mut sink) {
        Ok(()) => {
            ctx.obs("short_sink_write_ok", 1);
            ctx.sig(&format!("short-sink write {} max={}", kind, max));
            if sink.out != xml {
                let at = sink.out.iter().zip(xml.iter()).position(|(a, b)| a != b).unwrap_or(sink.out.len().min(xml.len()));
                ctx.violation(
                    &format!("C09:roundtrip:{}:short-writes-change-output", kind),
                    &format!("write_xml into a sink accepting {} bytes per call reported success but {} bytes arrived instead of {} (first difference at {})", max, sink.out.len(), xml.len(), at),
                    json!({"max_per_call": max, "expected_prefix": String::from_utf8_lossy(&xml[..xml.len().min(300)]), "got_prefix": String::from_utf8_lossy(&sink.out[..sink.out.len().min(300)])}),
                );
            }
        }
        Err(_) => ctx.obs("short_sink_write_error", 1),
    }
}

//------------ sinks that start refusing ---------------------------------------

/// An `io::Write` with room for exactly `room` bytes: it takes at most
/// `per_call` bytes per call and, once full, answers every further `write`
/// with an error (for good). At the edge it either takes the part that still
/// fits (`partial_at_edge`) or refuses the whole call.
struct FailingSink {
    out: Vec<u8>,
    room: usize,
    per_call: usize,
    partial_at_edge: bool,
    refused: u64,
}

impl std::io::Write for FailingSink {
    fn write(&mut self, buf: &[u8]) -> std::io::Result<usize> {
        if buf.is_empty() {
            return Ok(0);
        }
        let left = self.room.saturating_sub(self.out.len());
        let mut n = buf.len().min(self.per_call);
        if left == 0 || (n > left && !self.partial_at_edge) {
            self.refused += 1;
            return Err(std::io::Error::other("sink is full"));
        }
        n = n.min(left);
        self.out.extend_from_slice(&buf[..n]);
        Ok(n)
    }
    fn flush(&mut self) -> std::io::Result<()> {
        // no second chance to notice the failure
        Ok(())
    }
}

/// `write` is run against a sink with room for `room` bytes, for every `room`
/// in `rooms` and several ways of taking bytes. `xml` is what the same writer
/// produced into a `Vec` (and what was parsed back by the round-trip check).
/// Law: success may only be reported if the complete file arrived; whenever
/// the sink holds less (or anything else), the writer must have returned the
/// error. What it does when everything fitted is left open.
fn failing_sink_sweep(
    ctx: &mut Ctx,
    kind: &str,
    shape: &str,
    xml: &[u8],
    rooms: &[usize],
    variants: &[(usize, bool)],
    write: &dyn Fn(&mut FailingSink) -> Result<(), std::io::Error>,
) {
    let mut n = 0u64;
    let (mut err_incomplete, mut ok_complete, mut err_complete) = (0u64, 0u64, 0u64);
    let mut reported = false;
    for &room in rooms {
        for &(per_call, partial_at_edge) in variants {
            let mut sink = FailingSink { out: Vec::new(), room, per_call, partial_at_edge, refused: 0 };
            let res = ctx.no_panic(
                &format!("write_xml-failing-sink:{kind}"),
                || json!({"kind": kind, "room": room, "per_call": per_call, "partial_at_edge": partial_at_edge, "document_len": xml.len()}),
                || write(&mut sink),
            );
            n += 1;
            let complete = sink.out == xml;
            match res {
                None => {}
                Some(Ok(())) if complete => ok_complete += 1,
                Some(Ok(())) => {
                    if !reported {
                        reported = true;
                        let is_prefix = xml.starts_with(&sink.out);
                        let region = if !is_prefix {
                            "different-bytes"
                        } else if xml.len() - sink.out.len() <= 40 {
                            "closing-tags"
                        } else {
                            "body"
                        };
                        let per_call_text = if per_call == usize::MAX { "unlimited".to_string() } else { per_call.to_string() };
                        ctx.violation(
                            &format!("C09:write:{kind}:ok-although-sink-failed:{region}"),
                            &format!(
                                "write_xml returned Ok(()) although the sink had room for only {room} of the {} bytes of the file and refused {} write(s): {} bytes arrived, the file on the other side is truncated",
                                xml.len(), sink.refused, sink.out.len()
                            ),
                            json!({"kind": kind, "shape": shape, "room": room, "document_len": xml.len(), "arrived": sink.out.len(), "writes_refused": sink.refused,
                                   "per_call": per_call_text, "partial_at_edge": partial_at_edge,
                                   "document": String::from_utf8_lossy(&xml[..xml.len().min(3000)]),
                                   "arrived_tail": String::from_utf8_lossy(&sink.out[sink.out.len().saturating_sub(200)..])}),
                        );
                    }
                }
                Some(Err(_)) if complete => err_complete += 1,
                Some(Err(_)) => err_incomplete += 1,
            }
        }
    }
    ctx.evals(n);
    ctx.obs("failing_sink_writes", n);
    ctx.obs("failing_sink_error_reported_for_incomplete_file", err_incomplete);
    ctx.obs("failing_sink_ok_with_complete_file", ok_complete);
    if err_complete > 0 {
        // left open by the statement
        ctx.obs("failing_sink_error_although_complete_file", err_complete);
    }
    ctx.obs(&format!("failing_sink_documents_{kind}"), 1);
    ctx.sig(&format!("failing-sink {kind} {shape} len={}", g::count_class(xml.len() / 100)));
}

/// A small document written through the crate's XML writer directly (every
/// construct the RRDP writers use: nested and empty elements, attributes with
/// escapes, PCDATA, raw text, Base64), ending in `Writer::done`.
fn encode_tree(w: &mut impl std::io::Write, shape: u64, data: &[u8]) -> Result<(), std::io::Error> {
    let mut writer = rpki::xml::encode::Writer::new(w);
    writer
        .element("root".into())?
        .attr("a", "x&y<z>\"'")?
        .attr("n", &shape)?
        .content(|c| {
            if shape & 1 != 0 {
                c.element("empty".into())?;
            }
            if shape & 2 != 0 {
                c.element("t".into())?.attr("k", "v")?.content(|c| c.pcdata("some <text> & more"))?;
            }
            if shape & 4 != 0 {
                c.element("b".into())?.content(|c| c.base64(data))?;
            }
            if shape & 8 != 0 {
                c.element("n".into())?.content(|c| {
                    c.element("m".into())?.content(|c| {
                        c.element("leaf".into())?.attr("uri", "rsync://h/m/a")?;
                        Ok(())
                    })?;
                    Ok(())
                })?;
            }
            if shape & 16 != 0 {
                c.element("r".into())?.content(|c| c.raw("raw text"))?;
            }
            Ok(())
        })?;
    writer.done()
}

/// Which `room` values are swept for a document of `len` bytes.
fn rooms_for(ctx: &Ctx, len: usize) -> Vec<usize> {
    if ctx.stage == Stage::Miri {
        // every 128th cut, and every cut inside the closing sequence
        return (0..=len).filter(|r| r % 128 == 0 || r + 26 >= len).collect();
    }
    if len <= 4_000 {
        return (0..=len + 1).collect();
    }
    (0..=len + 1).filter(|r| *r < 600 || r + 600 >= len || r % 61 == 0).collect()
}

/// Every RRDP writer against sinks that start refusing at every byte offset
/// of the file.
fn failing_sinks(ctx: &mut Ctx) {
    let docs = crate::c09_io::budget(ctx, (12 * 12, 16 * 40), 24, (1, 2));
    let mut rng = ctx.rng("failing-sinks");
    let miri = ctx.stage == Stage::Miri;
    let all_variants: [(usize, bool); 5] = [(usize::MAX, false), (usize::MAX, true), (1, true), (7, true), (7, false)];
    for i in 0..docs {
        let plan = SizePlan { max_elements: 3, data_cap: if i % 7 == 6 { 400 } else { 70 }, long_uris: false };
        // the number of children cycles through 0..=3 (an empty root element is closed differently)
        let want = (i % 4) as usize;
        let variants: Vec<(usize, bool)> = if miri {
            vec![all_variants[(i % 2) as usize]]
        } else {
            vec![all_variants[0], all_variants[1], all_variants[2 + (i % 3) as usize]]
        };
        // the interpreter stage affords one file kind per shard
        let pick = |k: u64| !miri || (ctx.shard + i) % 4 == k;
        let (do_notif, do_snap, do_delta, do_tree) = (pick(0), pick(1), pick(2), pick(3));
        let want = if miri { 1 + (ctx.seed % 2) as usize } else { want };
        // notification
        let mut m = g::gen_notif(&mut rng, &plan);
        m.deltas.truncate(want);
        if !do_notif {
        } else if let Some(v) = l::lib_notif(&m) {
            let mut xml = Vec::new();
            if v.write_xml(&mut xml).is_ok() && NotificationFile::parse(&xml[..]).map(|p| p == v).unwrap_or(false) {
                let rooms = rooms_for(ctx, xml.len());
                failing_sink_sweep(ctx, "notification", &format!("deltas={}", m.deltas.len()), &xml, &rooms, &variants, &|w| v.write_xml(w));
            }
        }
        // snapshot
        let mut m = g::gen_snap(&mut rng, &plan);
        m.elements.truncate(want);
        if !do_snap {
        } else if let Some(v) = l::lib_snap(&m) {
            let mut xml = Vec::new();
            if v.write_xml(&mut xml).is_ok() && Snapshot::parse(&xml[..]).map(|p| p == v).unwrap_or(false) {
                let rooms = rooms_for(ctx, xml.len());
                let last = match m.elements.last() {
                    None => "none",
                    Some((_, d)) if d.is_empty() => "publish-empty",
                    Some(_) => "publish",
                };
                failing_sink_sweep(ctx, "snapshot", &format!("elements={} last={last}", m.elements.len()), &xml, &rooms, &variants, &|w| v.write_xml(w));
            }
        }
        // delta
        let mut m = g::gen_delta(&mut rng, &plan);
        m.elements.truncate(want);
        if !do_delta {
        } else if let Some(v) = l::lib_delta(&m) {
            let mut xml = Vec::new();
            if v.write_xml(&mut xml).is_ok() && Delta::parse(&xml[..]).map(|p| p == v).unwrap_or(false) {
                let rooms = rooms_for(ctx, xml.len());
                let last = match m.elements.last() {
                    None => "none",
                    Some(MEl::Publish(..)) => "publish",
                    Some(MEl::Update(..)) => "update",
                    Some(MEl::Withdraw(..)) => "withdraw",
                };
                failing_sink_sweep(ctx, "delta", &format!("elements={} last={last}", m.elements.len()), &xml, &rooms, &variants, &|w| v.write_xml(w));
            }
        }
        // the XML writer itself
        let shape = if i < 32 { i } else { rng.below(32) };
        let data = rng.bytes((i % 5) as usize * 7);
        let mut xml = Vec::new();
        if do_tree && encode_tree(&mut xml, shape, &data).is_ok() {
            let rooms = rooms_for(ctx, xml.len());
            failing_sink_sweep(ctx, "xml-writer", &format!("constructs={shape:05b}"), &xml, &rooms, &variants, &|w| encode_tree(w, shape, &data));
        }
    }
}

//------------ libFuzzer target c09_rrdp / literal cases ----------------------

/// What the first octet of a fuzz input selects: the file kind (3), the parser
/// (owned `parse` or `parse_limited` / the collecting processor) and whether
/// the document is dribbled through a small `BufReader` (5 capacities) or
/// handed over as a slice.
pub fn fuzz_selector(sel: u8) -> (Kind, l::Via, Option<usize>) {
    let sel = sel as usize;
    let kind = Kind::ALL[sel % 3];
    let via = if (sel / 3) % 2 == 0 { l::Via::Owned } else { l::Via::Alt };
    let dribble = match (sel / 6) % 8 {
        0..=2 => None,
        d => Some(crate::c09_hostile::DRIBBLE_CAPS[d - 3]),
    };
    (kind, via, dribble)
}

fn judge_fuzz_input(ctx: &mut Ctx, data: &[u8]) {
    let Some((sel, doc)) = data.split_first() else { return };
    let (kind, via, dribble) = fuzz_selector(*sel);
    crate::c09_hostile::feed_as(ctx, kind, via, dribble, "libfuzzer", doc);
}

/// One libFuzzer execution of target `c09_rrdp`: no panic (a library panic
/// propagates, libFuzzer aborts on it) and any value the owned parser accepts
/// must survive `write_xml` followed by a parse to an equal value; that
/// finding panics with a message that starts with the violation signature, so
/// the crash artifact replays natively through `vcheck C09 --case`.
pub fn fuzz_one(group: &str, data: &[u8]) {
    let _ = group; // one group: "rrdp"
    let mut ctx = Ctx::new("C09", Tier::Thorough, Stage::Native, 0, 0, 1);
    judge_fuzz_input(&mut ctx, data);
    if ctx.violation_count() > 0 {
        let out = ctx.finish();
        let v = &out["violations"][0];
        panic!("{} -- {}", v["sig"].as_str().unwrap_or("C09:fuzz:unnamed"), v["desc"].as_str().unwrap_or(""));
    }
}

/// Seed corpus of target `c09_rrdp`: small notification / snapshot / delta
/// files from the module's generators, in the library's own spelling
/// (`write_xml`) and in the legal foreign spellings of the independent writer,
/// for the owned parsers and for `parse_limited` / the collecting processors.
fn write_corpus(ctx: &mut Ctx, dir: &str) {
    let gdir = std::path::PathBuf::from(dir).join("c09_rrdp");
    let _ = std::fs::create_dir_all(&gdir);
    let mut rng = ctx.rng("corpus");
    let mut written = 0u64;
    let mut put = |sel: u8, doc: &[u8]| {
        if doc.len() + 1 > 12_000 {
            return;
        }
        let mut bytes = vec![sel];
        bytes.extend_from_slice(doc);
        if std::fs::write(gdir.join(format!("{:016x}", crate::core::fnv64(&bytes))), &bytes).is_ok() {
            written += 1;
        }
    };
    for i in 0..60u64 {
        let plan = if i % 5 == 0 {
            SizePlan { max_elements: 12, data_cap: 600, long_uris: false }
        } else {
            SizePlan { max_elements: 4, data_cap: 90, long_uris: false }
        };
        let st = if i % 2 == 0 { Style::plain() } else { Style::random(&mut rng) };
        // selector octet: kind + 3 * via (+ 6 * dribble class)
        let alt = if i % 3 == 2 { 3u8 } else { 0 };
        let dribble = if i % 7 == 6 { 6 * 3 } else { 0 };
        let n = g::gen_notif(&mut rng, &plan);
        let s = g::gen_snap(&mut rng, &plan);
        let d = g::gen_delta(&mut rng, &plan);
        put(alt + dribble, &g::write_notif(&n, &st, &mut rng).bytes);
        put(1 + alt + dribble, &g::write_snap(&s, &st, &mut rng).bytes);
        put(2 + alt + dribble, &g::write_delta(&d, &st, &mut rng).bytes);
        let mut x = Vec::new();
        if l::lib_notif(&n).map(|v| v.write_xml(&mut x).is_ok()) == Some(true) {
            put(alt, &x);
        }
        let mut x = Vec::new();
        if l::lib_snap(&s).map(|v| v.write_xml(&mut x).is_ok()) == Some(true) {
            put(1 + alt, &x);
        }
        let mut x = Vec::new();
        if l::lib_delta(&d).map(|v| v.write_xml(&mut x).is_ok()) == Some(true) {
            put(2 + alt, &x);
        }
    }
    ctx.obs("fuzz_corpus_files_written", written);
    ctx.evals(written);
    ctx.sig("corpus-written");
    ctx.sig("corpus");
}

fn run_case(ctx: &mut Ctx, case: &serde_json::Value) {
    if let Some(dir) = case["write_corpus"].as_str() {
        write_corpus(ctx, dir);
        return;
    }
    if case["fuzz_target"].as_str().is_some() {
        let raw = crate::core::unhex(case["hex"].as_str().unwrap_or(""));
        judge_fuzz_input(ctx, &raw);
        ctx.sig("replay");
        if let Some(sel) = raw.first() {
            let (kind, via, dribble) = fuzz_selector(*sel);
            ctx.sig(&format!("replay|{}|{:?}|{:?}", kind.name(), via, dribble));
        }
        return;
    }
    ctx.notes.push("C09: case file of unknown shape".into());
}
