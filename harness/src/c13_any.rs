//! C13 — values that enter through doors other than the named constructors.
//!
//! The statement says what can be *constructed* at all ("a prefix can only be
//! constructed with a length within its family and zero host bits, a
//! max-length prefix only with prefix length <= max length <= family
//! maximum", "a small AS-number set built from any items is sorted and
//! duplicate-free"). Besides `new*` / `from_str` / `from_iter` the public API
//! has two more families of constructors: the serde `Deserialize`
//! implementations (whatever data format the application picked) and, with
//! the crate's `arbitrary` feature, `Arbitrary::arbitrary` from raw octets.
//! Every value that comes out of one of them is put through the same value
//! laws as a value from a named constructor:
//!
//! * prefix: length within the family, host bits zero, equal (==, hash under
//!   two hashers, `cmp`) to the value `Prefix::new` builds from its own
//!   address and length, text form parses back to it;
//! * max-length prefix: the prefix laws, len <= max-len <= family maximum,
//!   equal to what `MaxLenPrefix::new` builds from its parts, text round trip;
//! * route origin: equal, equally hashed and `cmp == Equal` to the origin
//!   rebuilt from its parts;
//! * AS-number set: iteration strictly ascending, equal to the set collected
//!   from its own items.
//!
//! serde: every domain value is serialised into the harness' token format
//! (human-readable and compact) and read back through every transport
//! (borrowed / transient / owned strings, structs as maps / sequences): the
//! result must be the same value. Then every leaf token is damaged in every
//! way `serde_tok::damage_leaf` knows and read again: an `Err` is fine, an
//! `Ok` value must satisfy the laws.

use crate::core::{hash2_of, Ctx, Rng, Stage, Tier};
use crate::serde_tok::{self as st, De, Tok};
use arbitrary::{Arbitrary, Unstructured};
use rpki::resources::addr::{MaxLenPrefix, Prefix};
use rpki::resources::asn::{Asn, SmallAsnSet};
use rpki::rtr::payload::RouteOrigin;
use serde_json::json;
use std::cmp::Ordering;
use std::net::IpAddr;
use std::str::FromStr;

type Law = Result<(), (&'static str, String)>;

fn bits_of(a: IpAddr) -> (bool, u128) {
    match a {
        IpAddr::V4(a) => (false, u32::from(a) as u128),
        IpAddr::V6(a) => (true, u128::from(a)),
    }
}

pub fn prefix_laws(p: Prefix) -> Law {
    if p.is_v4() == p.is_v6() {
        return Err(("family", format!("is_v4 = {} and is_v6 = {}", p.is_v4(), p.is_v6())));
    }
    let (v6, bits) = bits_of(p.addr());
    if v6 != p.is_v6() {
        return Err(("family", format!("addr() is {} but is_v6() = {}", p.addr(), p.is_v6())));
    }
    let width: u32 = if v6 { 128 } else { 32 };
    let len = p.len() as u32;
    if len > width {
        return Err(("len-overflow", format!("length {} in a {}-bit family", len, width)));
    }
    let host = if len == width { 0 } else if len == 0 { if v6 { u128::MAX } else { u32::MAX as u128 } } else { (1u128 << (width - len)) - 1 };
    if bits & host != 0 {
        return Err(("host-bits", format!("{}/{} has non-zero host bits", p.addr(), len)));
    }
    let q = match Prefix::new(p.addr(), p.len()) {
        Ok(q) => q,
        Err(e) => return Err(("rebuild-rejected", format!("Prefix::new({}, {}) fails: {}", p.addr(), p.len(), e))),
    };
    if q != p || p != q {
        return Err(("rebuild-unequal", format!("value prints as {} but is != Prefix::new({}, {})", p, p.addr(), p.len())));
    }
    if hash2_of(&q) != hash2_of(&p) {
        return Err(("rebuild-hash", format!("{} hashes differently from Prefix::new of its own parts", p)));
    }
    if q.cmp(&p) != Ordering::Equal || p.cmp(&q) != Ordering::Equal {
        return Err(("rebuild-cmp", format!("{} does not compare Equal to Prefix::new of its own parts", p)));
    }
    match Prefix::from_str(&p.to_string()) {
        Ok(r) if r == p && hash2_of(&r) == hash2_of(&p) => Ok(()),
        Ok(r) => Err(("text-roundtrip", format!("text {:?} parses to a different value ({:?} vs {:?})", p.to_string(), r, p))),
        Err(e) => Err(("text-roundtrip", format!("text {:?} does not parse: {}", p.to_string(), e))),
    }
}

pub fn maxlen_laws(m: MaxLenPrefix) -> Law {
    prefix_laws(m.prefix())?;
    let width = if m.prefix().is_v4() { 32 } else { 128 };
    if let Some(ml) = m.max_len() {
        if ml < m.prefix().len() || ml > width {
            return Err(("max-len-range", format!("{} with max-len {} (prefix length {}, family maximum {})", m.prefix(), ml, m.prefix().len(), width)));
        }
    }
    if m.resolved_max_len() < m.prefix().len() || m.resolved_max_len() > width {
        return Err(("resolved-max-len-range", format!("{} resolves to max-len {}", m.prefix(), m.resolved_max_len())));
    }
    match MaxLenPrefix::new(m.prefix(), m.max_len()) {
        Ok(n) if n == m && hash2_of(&n) == hash2_of(&m) && n.cmp(&m) == Ordering::Equal => {}
        Ok(_) => return Err(("rebuild-unequal", format!("{} differs from MaxLenPrefix::new of its own parts", m))),
        Err(e) => return Err(("rebuild-rejected", format!("MaxLenPrefix::new({}, {:?}) fails: {}", m.prefix(), m.max_len(), e))),
    }
    match MaxLenPrefix::from_str(&m.to_string()) {
        Ok(r) if r == m => Ok(()),
        Ok(_) => Err(("text-roundtrip", format!("text {:?} parses to a different value", m.to_string()))),
        Err(e) => Err(("text-roundtrip", format!("text {:?} does not parse: {}", m.to_string(), e))),
    }
}

pub fn origin_laws(o: RouteOrigin) -> Law {
    maxlen_laws(o.prefix)?;
    let rebuilt = match Prefix::new(o.prefix.addr(), o.prefix.prefix_len()).ok().and_then(|p| MaxLenPrefix::new(p, o.prefix.max_len()).ok()) {
        Some(m) => RouteOrigin::new(m, o.asn),
        None => return Err(("rebuild-rejected", format!("parts of {:?} are refused by the constructors", o))),
    };
    if rebuilt != o || hash2_of(&rebuilt) != hash2_of(&o) || rebuilt.cmp(&o) != Ordering::Equal {
        return Err(("rebuild-unequal", format!("{:?} is not equal / equally hashed / Equal to the origin rebuilt from its parts", o)));
    }
    Ok(())
}

pub fn asnset_laws(s: &SmallAsnSet) -> Law {
    let items: Vec<u32> = s.iter().map(|a| a.into_u32()).collect();
    if let Some(w) = items.windows(2).find(|w| w[0] >= w[1]) {
        return Err(("not-ascending", format!("iteration yields {} before {} ({} items)", w[0], w[1], items.len())));
    }
    let again: SmallAsnSet = s.iter().collect();
    if again != *s {
        return Err(("recollect-unequal", "the set differs from the set collected from its own items".into()));
    }
    Ok(())
}

fn report(ctx: &mut Ctx, door: &str, ty: &str, r: Law, detail: impl FnOnce() -> serde_json::Value) {
    ctx.eval();
    if let Err((l, m)) = r {
        ctx.violation(&format!("C13:{door}:{ty}:{l}"), &format!("{ty} obtained through {door}: {m}"), detail());
    }
}

//------------ Arbitrary ----------------------------------------------------------

fn arbitrary_door(ctx: &mut Ctx, rng: &mut Rng) {
    let tails: [[u8; 16]; 5] = [
        [0; 16],
        [0xff; 16],
        [0, 0, 0, 0, 0, 0, 0, 0, 0, 0, 0xff, 0xff, 192, 0, 2, 1],
        [0x20, 0x01, 0x0d, 0xb8, 0, 0, 0, 0, 0, 0, 0, 0, 0, 0, 0, 1],
        [0x80, 0, 0, 0, 0, 0, 0, 0, 0, 0, 0, 0, 0, 0, 0, 0],
    ];
    let random_n = match (ctx.stage, ctx.tier) {
        (Stage::Miri, _) => 40,
        (_, Tier::Quick) => 40_000,
        _ => 1_000_000,
    } / ctx.nshards.max(1);
    let mut inputs: Vec<Vec<u8>> = Vec::new();
    // every (family selector, length selector) pair with characteristic addresses and max-len octets
    let step = if ctx.stage == Stage::Miri { 37 } else { 1 };
    let mut index = 0u64;
    for b0 in [0u8, 1] {
        for b1 in (0..=255u8).step_by(step) {
            for (t, tail) in tails.iter().enumerate() {
                for (sel, ml) in [(0u8, 0u8), (1, 0), (1, 8), (1, 24), (1, 32), (1, 33), (1, 64), (1, 128), (1, 129), (1, 255)] {
                    if t > 1 && sel == 1 && ml % 8 != 0 {
                        continue;
                    }
                    let mine = ctx.mine(index);
                    index += 1;
                    if !mine {
                        continue;
                    }
                    let mut v = vec![b0, b1];
                    v.extend_from_slice(tail);
                    v.extend_from_slice(&[sel, ml, 0, 0, 0xfd, 0xe8]);
                    inputs.push(v);
                }
            }
        }
    }
    for _ in 0..random_n {
        let n = rng.range(0, 48) as usize;
        inputs.push(rng.bytes(n));
    }
    // collections: random octets practically never repeat a 32-bit value. Every sequence of up to
    // five items over a few AS numbers (repeats adjacent and apart), in the layouts `arbitrary` uses
    // for collections (a continue-octet before each item; items first and the count in the last
    // octets), and a soup of such pieces.
    let asns: [u32; 4] = [0, 1, 2, u32::MAX];
    let seq_n: u64 = if ctx.stage == Stage::Miri { 60 } else { 4u64.pow(5) + 4u64.pow(4) + 4u64.pow(3) };
    for code in 0..seq_n {
        if !ctx.mine(index) {
            index += 1;
            continue;
        }
        index += 1;
        let (len, mut c) = if code < 4u64.pow(5) { (5, code) } else if code < 4u64.pow(5) + 4u64.pow(4) { (4, code - 4u64.pow(5)) } else { (3, code - 4u64.pow(5) - 4u64.pow(4)) };
        let items: Vec<u32> = (0..len)
            .map(|_| {
                let a = asns[(c % 4) as usize];
                c /= 4;
                a
            })
            .collect();
        let mut a = Vec::new();
        for it in &items {
            a.push(1u8);
            a.extend_from_slice(&it.to_le_bytes());
        }
        a.push(0);
        inputs.push(a);
        let mut b = Vec::new();
        for it in &items {
            b.extend_from_slice(&it.to_le_bytes());
        }
        b.extend_from_slice(&[0; 3]);
        b.push(len as u8);
        inputs.push(b);
    }
    for _ in 0..random_n / 4 {
        let mut v = Vec::new();
        for _ in 0..rng.range(1, 14) {
            match rng.below(8) {
                0 | 1 => v.push(1),
                2 => v.push(0),
                3 => v.push(0xff),
                _ => v.extend_from_slice(&rng.pick(&asns).to_le_bytes()),
            }
        }
        inputs.push(v);
    }
    let mut made = [0u64; 5];
    for bytes in &inputs {
        let d = || json!({"arbitrary_input_hex": crate::core::hex(bytes)});
        if let Some(Ok(p)) = ctx.no_panic("Prefix::arbitrary", d, || Prefix::arbitrary(&mut Unstructured::new(bytes))) {
            made[0] += 1;
            ctx.sig(&format!("arbitrary prefix v{} len-class {}", if p.is_v4() { 4 } else { 6 }, len_class(p)));
            report(ctx, "arbitrary", "prefix", prefix_laws(p), || json!({"arbitrary_input_hex": crate::core::hex(bytes), "value": format!("{:?}", p)}));
        }
        if let Some(Ok(m)) = ctx.no_panic("MaxLenPrefix::arbitrary", d, || MaxLenPrefix::arbitrary(&mut Unstructured::new(bytes))) {
            made[1] += 1;
            ctx.sig(&format!("arbitrary maxlen v{} len-class {} maxlen {}", if m.prefix().is_v4() { 4 } else { 6 }, len_class(m.prefix()), m.max_len().is_some()));
            report(ctx, "arbitrary", "max-len-prefix", maxlen_laws(m), || json!({"arbitrary_input_hex": crate::core::hex(bytes), "value": format!("{:?}", m)}));
        }
        if let Some(Ok(o)) = ctx.no_panic("RouteOrigin::arbitrary", d, || RouteOrigin::arbitrary(&mut Unstructured::new(bytes))) {
            made[2] += 1;
            report(ctx, "arbitrary", "route-origin", origin_laws(o), || json!({"arbitrary_input_hex": crate::core::hex(bytes), "value": format!("{:?}", o)}));
        }
        if let Some(Ok(s)) = ctx.no_panic("SmallAsnSet::arbitrary", d, || SmallAsnSet::arbitrary(&mut Unstructured::new(bytes))) {
            made[3] += 1;
            ctx.sig(&format!("arbitrary asn-set size-class {}", s.iter().count().min(4)));
            report(ctx, "arbitrary", "asn-set", asnset_laws(&s), || json!({"arbitrary_input_hex": crate::core::hex(bytes), "items": s.iter().map(|a| a.into_u32()).collect::<Vec<_>>()}));
        }
        if let Some(Ok(a)) = ctx.no_panic("Asn::arbitrary", d, || Asn::arbitrary(&mut Unstructured::new(bytes))) {
            made[4] += 1;
            let r = match Asn::from_str(&a.to_string()) {
                Ok(b) if b == a => Ok(()),
                _ => Err(("text-roundtrip", format!("{} does not parse back", a))),
            };
            report(ctx, "arbitrary", "asn", r, || json!({"arbitrary_input_hex": crate::core::hex(bytes)}));
        }
    }
    ctx.obs("arbitrary_inputs", inputs.len() as u64);
    ctx.obs("arbitrary_prefixes_made", made[0]);
    ctx.obs("arbitrary_maxlen_prefixes_made", made[1]);
    ctx.obs("arbitrary_route_origins_made", made[2]);
    ctx.obs("arbitrary_asn_sets_made", made[3]);
    ctx.sample("arbitrary", || json!({"inputs": inputs.len(), "observed": "every value made by Arbitrary satisfied the constructor laws"}));
}

fn len_class(p: Prefix) -> &'static str {
    let w = if p.is_v4() { 32 } else { 128 };
    match p.len() {
        0 => "0",
        l if l == w => "max",
        l if l + 1 == w => "max-1",
        l if l % 8 == 0 => "octet",
        _ => "mid",
    }
}

//------------ serde -----------------------------------------------------------------

fn domain(rng: &mut Rng, n: usize) -> Vec<Prefix> {
    let mut out = Vec::new();
    let v4 = [0u32, 1, 0x0a00_0000, 0x7fff_ffff, 0x8000_0000, 0xc000_0201, 0xffff_fffe, 0xffff_ffff];
    let v6 = [0u128, 1, 0xffff_0000_0000u128, 0xffff_c000_0201u128, 0x2001_0db8u128 << 96, 1u128 << 127, u128::MAX - 1, u128::MAX];
    for a in v4 {
        for len in [0u8, 1, 7, 8, 9, 23, 24, 31, 32] {
            if let Ok(p) = Prefix::new_relaxed(IpAddr::V4(a.into()), len) {
                out.push(p);
            }
        }
    }
    for a in v6 {
        for len in [0u8, 1, 8, 32, 33, 63, 64, 95, 96, 97, 120, 127, 128] {
            if let Ok(p) = Prefix::new_relaxed(IpAddr::V6(a.into()), len) {
                out.push(p);
            }
        }
    }
    for _ in 0..n {
        let p = if rng.bool() {
            Prefix::new_relaxed(IpAddr::V4((rng.next_u64() as u32).into()), rng.below(33) as u8)
        } else {
            Prefix::new_relaxed(IpAddr::V6((((rng.next_u64() as u128) << 64) | rng.next_u64() as u128).into()), rng.below(129) as u8)
        };
        if let Ok(p) = p {
            out.push(p);
        }
    }
    out
}

fn serde_door(ctx: &mut Ctx, rng: &mut Rng) {
    let extra = match (ctx.stage, ctx.tier) {
        (Stage::Miri, _) => 0,
        (_, Tier::Quick) => 300,
        _ => 20_000,
    };
    let dom = domain(rng, extra);
    let (mut round, mut damaged, mut accepted) = (0u64, 0u64, 0u64);
    for (i, p) in dom.iter().enumerate() {
        if !ctx.mine(i as u64) || (ctx.stage == Stage::Miri && i % 9 != 0) {
            continue;
        }
        for hr in [true, false] {
            let tok = match ctx.no_panic("Prefix::serialize", || json!({"value": p.to_string(), "human_readable": hr}), || st::to_tok(p, hr)) {
                Some(Ok(t)) => t,
                Some(Err(e)) => {
                    ctx.violation("C13:serde:prefix:serialize-failed", &format!("serialising a prefix fails: {}", e), json!({"value": p.to_string(), "human_readable": hr}));
                    continue;
                }
                None => continue,
            };
            ctx.sig(&format!("serde prefix {} form {}", if hr { "human-readable" } else { "compact" }, tok_shape(&tok)));
            for de in De::all(hr) {
                round += 1;
                ctx.eval();
                let d = || json!({"value": p.to_string(), "tokens": format!("{:?}", tok), "transport": de.describe()});
                match ctx.no_panic("Prefix::deserialize", d, || st::from_tok::<Prefix>(&tok, de)) {
                    Some(Ok(q)) if q == *p && hash2_of(&q) == hash2_of(p) => {}
                    Some(Ok(q)) => ctx.violation("C13:serde:prefix:roundtrip-differs", &format!("{} came back as {:?}", p, q), d()),
                    Some(Err(e)) => ctx.violation(
                        &format!("C13:serde:prefix:roundtrip-rejected:{}", if de.human_readable { "human-readable" } else { "compact" }),
                        &format!("the serde form of {} does not read back ({}): {}", p, de.describe(), e),
                        d(),
                    ),
                    None => {}
                }
            }
            // damaged tokens
            let leaves = tok.leaves();
            for leaf in 0..leaves {
                for pick in 0..12u64 {
                    let mut t = tok.clone();
                    let mut changed = false;
                    t.edit_leaf(leaf, &mut |x| changed = st::damage_leaf(x, pick));
                    if !changed || t == tok {
                        continue;
                    }
                    let de = De { human_readable: hr, strings: *rng.pick(&[st::Strings::Borrowed, st::Strings::Transient, st::Strings::Owned]), structs_as_seq: rng.bool() };
                    damaged += 1;
                    let d = || json!({"original": p.to_string(), "tokens": format!("{:?}", t), "transport": de.describe()});
                    if let Some(Ok(q)) = ctx.no_panic("Prefix::deserialize", d, || st::from_tok::<Prefix>(&t, de)) {
                        accepted += 1;
                        report(ctx, "serde", "prefix", prefix_laws(q), || json!({"original": p.to_string(), "tokens": format!("{:?}", t), "value": format!("{:?}", q)}));
                    } else {
                        ctx.eval();
                    }
                }
            }
        }
        // Asn rides along: a newtype around u32
        let a = Asn::from_u32((i as u32).wrapping_mul(0x9e37_79b1));
        for hr in [true, false] {
            if let Ok(tok) = st::to_tok(&a, hr) {
                for de in De::all(hr) {
                    ctx.eval();
                    match st::from_tok::<Asn>(&tok, de) {
                        Ok(b) if b == a => {}
                        other => ctx.violation("C13:serde:asn:roundtrip", &format!("{} came back as {:?}", a, other.map(|x| x.into_u32())), json!({"tokens": format!("{:?}", tok), "transport": de.describe()})),
                    }
                }
            }
        }
    }
    ctx.obs("serde_roundtrips", round);
    ctx.obs("serde_damaged_token_trees", damaged);
    ctx.obs("serde_damaged_accepted", accepted);
    ctx.sample("serde", || json!({"domain": dom.len(), "roundtrips": round, "damaged_token_trees": damaged, "damaged_accepted": accepted,
        "observed": "every transport returned the serialised value; every value accepted from damaged tokens satisfied the prefix laws"}));
}

fn tok_shape(t: &Tok) -> &'static str {
    match t {
        Tok::Str(_) => "string",
        Tok::Tuple(_) | Tok::Seq(_) | Tok::TupleStruct(..) => "tuple",
        Tok::Struct(..) | Tok::Map(_) => "struct",
        Tok::Bytes(_) => "bytes",
        _ => "other",
    }
}

pub fn run(ctx: &mut Ctx) {
    let mut rng = ctx.rng("any-door");
    arbitrary_door(ctx, &mut rng);
    serde_door(ctx, &mut rng);
}
