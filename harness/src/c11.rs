//! C11 — CA protocol XML (RFC 6492, 8181, 8183) round-trips and stays
//! well-formed; the parsers never panic.
//!
//! Oracles
//!  1. well-formedness: an independent parser (python3 `xml.parsers.expat`
//!     through `tools/xml_wf.py`) must consume every written document;
//!  2. round trip: `decode(write(m)) == m` by the message types' `PartialEq`
//!     (the property *is* this equivalence);
//!  3. robustness: the six parsers return `Ok` or `Err` on byte-level and
//!     tag-level mutants of valid documents and on random documents;
//!  4. sinks (`c11_sink.rs`): `Ok(())` from a writer implies that the sink
//!     holds the complete document, for sinks that fail after any number of
//!     octets and for sinks that take a few octets per call.
//!
//! `c11_long.rs` puts values with long plain runs around the characters that
//! need an escape (255 .. 64 KiB + 1) into every field under oracles 1 and 2.
//!
//! Scope decisions (see DESIGN §4 C11 and the property text): only
//! protocol-valid field values are held to oracle 1 and 2. Values the API
//! admits but the protocols do not (a handle made with the unchecked
//! `Handle::new`, a `<publish>` without tag, an error reply without errors,
//! an empty base64 payload, a sub-second `not_after`) are still generated, but
//! what happens to them is only *recorded* (`lenient:*` observations).
//!
//! Literal cases (`vcheck C11 --case f`): a libFuzzer input of target
//! `c11_xml`, `{"fuzz_target": "xml", "hex": bytes}` (octet 0 selects one of the
//! six parsers, the rest is the document; judged by the same `feed_parser` as
//! the mutants of oracle 3), or `{"write_corpus": dir}` which writes the seed
//! corpus of that target.

// Helper modules of this monitor (value generators, document mutators). They
// are declared here so that `lib.rs` needs no extra `pub mod` lines.
#[path = "c11_gen.rs"]
mod c11_gen;
#[path = "c11_mut.rs"]
mod c11_mut;
#[path = "c11_text.rs"]
mod c11_text;
#[path = "c11_long.rs"]
mod c11_long;
#[path = "c11_sink.rs"]
mod c11_sink;

use self::c11_gen as gen;
use self::c11_mut as mutate;
use crate::core::{Ctx, Rng, Stage};
use crate::keys::PoolSigner;
use rpki::ca::csr::{Csr, RpkiCaCsr};
use rpki::ca::idcert::IdCert;
use rpki::ca::idexchange::{
    ChildRequest, Handle, ParentResponse, PublisherRequest, RepositoryResponse, ServiceUri,
};
use rpki::ca::provisioning as prov;
use rpki::ca::publication as publ;
use rpki::crypto::KeyIdentifier;
use rpki::repository::cert::{Cert, KeyUsage, Overclaim, TbsCert};
use rpki::repository::resources::{AsBlocks, Asn, Ipv4Blocks, Ipv6Blocks, Prefix};
use rpki::repository::x509::{Time, Validity};
use rpki::rrdp;
use rpki::uri;
use serde_json::{json, Value};
use std::io::Write as _;
use std::process::{Command, Stdio};
use std::str::FromStr;

//------------ the message under test -----------------------------------------

#[derive(Clone, Debug, PartialEq)]
enum AnyMsg {
    Prov(prov::Message),
    Publ(publ::Message),
    ChildReq(ChildRequest),
    ParentResp(ParentResponse),
    PubReq(PublisherRequest),
    RepoResp(RepositoryResponse),
}

#[derive(Clone, Copy, Debug, PartialEq, Eq)]
enum Kind {
    Prov,
    Publ,
    ChildReq,
    ParentResp,
    PubReq,
    RepoResp,
}

const KINDS: [Kind; 6] = [Kind::Prov, Kind::Publ, Kind::ChildReq, Kind::ParentResp, Kind::PubReq, Kind::RepoResp];

impl Kind {
    fn name(self) -> &'static str {
        match self {
            Kind::Prov => "provisioning",
            Kind::Publ => "publication",
            Kind::ChildReq => "child_request",
            Kind::ParentResp => "parent_response",
            Kind::PubReq => "publisher_request",
            Kind::RepoResp => "repository_response",
        }
    }

    fn parse(self, doc: &[u8]) -> Result<AnyMsg, String> {
        match self {
            Kind::Prov => prov::Message::decode(doc).map(AnyMsg::Prov).map_err(|e| e.to_string()),
            Kind::Publ => publ::Message::decode(doc).map(AnyMsg::Publ).map_err(|e| e.to_string()),
            Kind::ChildReq => ChildRequest::parse(doc).map(AnyMsg::ChildReq).map_err(|e| e.to_string()),
            Kind::ParentResp => ParentResponse::parse(doc).map(AnyMsg::ParentResp).map_err(|e| e.to_string()),
            Kind::PubReq => PublisherRequest::parse(doc).map(AnyMsg::PubReq).map_err(|e| e.to_string()),
            Kind::RepoResp => RepositoryResponse::parse(doc).map(AnyMsg::RepoResp).map_err(|e| e.to_string()),
        }
    }
}

impl AnyMsg {
    fn kind(&self) -> Kind {
        match self {
            AnyMsg::Prov(_) => Kind::Prov,
            AnyMsg::Publ(_) => Kind::Publ,
            AnyMsg::ChildReq(_) => Kind::ChildReq,
            AnyMsg::ParentResp(_) => Kind::ParentResp,
            AnyMsg::PubReq(_) => Kind::PubReq,
            AnyMsg::RepoResp(_) => Kind::RepoResp,
        }
    }

    /// Through `write_xml` (the `to_xml_*` helpers are thin wrappers that
    /// `unwrap` its result).
    fn write(&self) -> Result<Vec<u8>, String> {
        let mut v = Vec::new();
        self.write_into(&mut v).map(|_| v).map_err(|e| e.to_string())
    }

    /// `write_xml` into any sink.
    fn write_into<W: std::io::Write>(&self, w: &mut W) -> Result<(), std::io::Error> {
        match self {
            AnyMsg::Prov(m) => m.write_xml(w),
            AnyMsg::Publ(m) => m.write_xml(w),
            AnyMsg::ChildReq(m) => m.write_xml(w),
            AnyMsg::ParentResp(m) => m.write_xml(w),
            AnyMsg::PubReq(m) => m.write_xml(w),
            AnyMsg::RepoResp(m) => m.write_xml(w),
        }
    }

    /// The writing entry points that bring their own sink.
    fn to_xml_all(&self) -> Vec<(&'static str, Vec<u8>)> {
        match self {
            AnyMsg::Prov(m) => vec![("to_xml_bytes", m.to_xml_bytes().to_vec()), ("to_xml_string", m.to_xml_string().into_bytes())],
            AnyMsg::Publ(m) => vec![("to_xml_bytes", m.to_xml_bytes().to_vec()), ("to_xml_string", m.to_xml_string().into_bytes())],
            AnyMsg::ChildReq(m) => vec![("to_xml_vec", m.to_xml_vec()), ("to_xml_string", m.to_xml_string().into_bytes())],
            AnyMsg::ParentResp(m) => vec![("to_xml_vec", m.to_xml_vec()), ("to_xml_string", m.to_xml_string().into_bytes())],
            AnyMsg::PubReq(m) => vec![("to_xml_vec", m.to_xml_vec()), ("to_xml_string", m.to_xml_string().into_bytes())],
            AnyMsg::RepoResp(m) => vec![("to_xml_vec", m.to_xml_vec()), ("to_xml_string", m.to_xml_string().into_bytes())],
        }
    }
}

//------------ a generated case -----------------------------------------------

/// A value that travels as attribute text through `Display` / `FromStr`;
/// kept to name the culprit when a round trip fails.
#[derive(Clone)]
enum TextField {
    As(&'static str, AsBlocks),
    V4(&'static str, Ipv4Blocks),
    V6(&'static str, Ipv6Blocks),
    NotAfter(Time),
}

impl TextField {
    /// `Some((field, kind, text))` if the value's own text form (what the
    /// writer puts into the attribute) does not parse back to the value.
    fn broken(&self) -> Option<(&'static str, &'static str, String)> {
        match self {
            TextField::As(n, b) => {
                let t = b.to_string();
                match AsBlocks::from_str(&t) {
                    Ok(x) if &x == b => None,
                    _ => Some((n, "as-blocks-text-form", t)),
                }
            }
            TextField::V4(n, b) => {
                let t = b.to_string();
                match Ipv4Blocks::from_str(&t) {
                    Ok(x) if &x == b => None,
                    _ => Some((n, "ipv4-blocks-text-form", t)),
                }
            }
            TextField::V6(n, b) => {
                let t = b.to_string();
                match Ipv6Blocks::from_str(&t) {
                    Ok(x) if &x == b => None,
                    _ => Some((n, "ipv6-blocks-text-form", t)),
                }
            }
            TextField::NotAfter(t) => {
                let s = t.to_rfc3339_opts(chrono::SecondsFormat::Secs, true);
                match chrono::DateTime::<chrono::Utc>::from_str(&s) {
                    Ok(x) if Time::new(x) == *t => None,
                    _ => Some(("resource_set_notafter", "time-text-form", s)),
                }
            }
        }
    }
}

struct Case {
    variant: &'static str,
    msg: AnyMsg,
    /// free-form string fields (name, value) — for the case signature and the report
    strings: Vec<(&'static str, String)>,
    /// list-size classes etc.
    shape: String,
    text_fields: Vec<TextField>,
    /// `Some(reason)`: built from values outside "protocol-valid"; observed only
    lenient: Option<&'static str>,
    /// `Some(reason)`: a value is longer than the protocol's schema allows. The
    /// document must still be well-formed and, if it is parsed back, equal; a
    /// decoder that refuses it is within its rights (observed only)
    open: Option<&'static str>,
    /// for a message that came out of a decoder: the document it was decoded
    /// from and how that was spelled (goes into the detail of a violation)
    source: Option<Value>,
}

impl Case {
    fn new(variant: &'static str, msg: AnyMsg) -> Self {
        Case { variant, msg, strings: Vec::new(), shape: String::new(), text_fields: Vec::new(), lenient: None, open: None, source: None }
    }

    fn signature(&self) -> String {
        let mut sp = Vec::new();
        let mut ws = Vec::new();
        for (n, v) in &self.strings {
            if gen::has_special(v) {
                sp.push(*n);
            }
            if gen::has_edge_space(v) {
                ws.push(*n);
            }
        }
        format!(
            "{}|special-chars-in:{}|edge-spaces-in:{}|{}{}",
            self.variant,
            if sp.is_empty() { "-".to_string() } else { sp.join("+") },
            if ws.is_empty() { "-".to_string() } else { ws.join("+") },
            self.shape,
            match self.lenient {
                Some(r) => format!("|lenient:{r}"),
                None => String::new(),
            }
        )
    }

    fn describe(&self, doc: Option<&[u8]>) -> Value {
        let strings: Vec<Value> = self.strings.iter().map(|(n, v)| json!({"field": n, "value": clip(v, 400)})).collect();
        json!({
            "variant": self.variant,
            "string_fields": strings,
            "shape": self.shape,
            "lenient": self.lenient,
            "xml": doc.map(|d| clip(&String::from_utf8_lossy(d), 6000)),
        })
    }
}

fn clip(s: &str, max: usize) -> String {
    if s.len() <= max {
        s.to_string()
    } else {
        let mut end = max;
        while !s.is_char_boundary(end) {
            end -= 1;
        }
        format!("{}…[{} bytes in total]", &s[..end], s.len())
    }
}

//------------ certificates, CSRs, identity certificates ----------------------

struct Crypto {
    certs: Vec<Cert>,
    csrs: Vec<RpkiCaCsr>,
    id_certs: Vec<Vec<u8>>,
    key_ids: Vec<KeyIdentifier>,
}

fn fixed_validity() -> Validity {
    Validity::new(Time::utc(2024, 1, 1, 0, 0, 0), Time::utc(2034, 12, 31, 23, 59, 59))
}

impl Crypto {
    /// Built once per shard with the library's own builders over pool keys.
    fn build() -> Result<Self, String> {
        let pool = PoolSigner::new(3);
        let mut certs = Vec::new();
        let repo = uri::Rsync::from_str("rsync://repo.example/m&m/ca's/").map_err(|e| e.to_string())?;
        let mft = uri::Rsync::from_str("rsync://repo.example/m&m/ca's/x.mft").map_err(|e| e.to_string())?;
        let notify = uri::Https::from_str("https://rrdp.example/n'&/notification.xml").map_err(|e| e.to_string())?;
        for i in 0..3usize {
            let pubkey = pool.info(i);
            let issuer = pool.info(0);
            let mut tbs = TbsCert::new(
                (100 + i as u64).into(),
                issuer.to_subject_name(),
                fixed_validity(),
                None,
                pubkey,
                KeyUsage::Ca,
                Overclaim::Trim,
            );
            tbs.set_basic_ca(Some(true));
            tbs.set_ca_repository(Some(repo.clone()));
            tbs.set_rpki_manifest(Some(mft.clone()));
            if i != 1 {
                tbs.set_rpki_notify(Some(notify.clone()));
            }
            match i {
                0 => {
                    tbs.build_v4_resource_blocks(|b| b.push(Prefix::new(0, 0)));
                    tbs.build_v6_resource_blocks(|b| b.push(Prefix::new(0, 0)));
                    tbs.build_as_resource_blocks(|b| b.push((Asn::MIN, Asn::MAX)));
                }
                1 => {
                    tbs.build_v4_resource_blocks(|b| b.push(Prefix::new(std::net::Ipv4Addr::new(10, 0, 0, 0), 8)));
                    tbs.build_as_resource_blocks(|b| b.push((Asn::from_u32(64512), Asn::from_u32(64600))));
                }
                _ => {
                    tbs.set_v4_resources_inherit();
                    tbs.set_v6_resources_inherit();
                    tbs.set_as_resources_inherit();
                }
            }
            if i > 0 {
                tbs.set_authority_key_identifier(Some(issuer.key_identifier()));
                tbs.set_crl_uri(Some(uri::Rsync::from_str("rsync://repo.example/m&m/ca's/x.crl").map_err(|e| e.to_string())?));
                tbs.set_ca_issuer(Some(uri::Rsync::from_str("rsync://repo.example/m&m/ta.cer").map_err(|e| e.to_string())?));
            }
            let cert = tbs.into_cert(&pool, &0usize).map_err(|e| e.to_string())?;
            // what a peer would hold: the decoded form of the encoded certificate
            let der = cert.to_captured();
            certs.push(Cert::decode(der.as_slice()).map_err(|e| e.to_string())?);
        }
        let mut csrs = Vec::new();
        for i in 0..3usize {
            let der = Csr::construct_rpki_ca(&pool, &i, &repo, &mft, if i == 1 { None } else { Some(&notify) })
                .map_err(|e| e.to_string())?;
            csrs.push(RpkiCaCsr::decode(der.as_slice()).map_err(|e| e.to_string())?);
        }
        let mut id_certs = Vec::new();
        for i in 0..2usize {
            let c = IdCert::new_ta(fixed_validity(), &i, &pool).map_err(|e| e.to_string())?;
            id_certs.push(c.to_captured().as_slice().to_vec());
        }
        let key_ids = (0..3).map(|i| pool.info(i).key_identifier()).collect();
        Ok(Crypto { certs, csrs, id_certs, key_ids })
    }
}

//------------ generator of cases ---------------------------------------------

struct Gen<'a> {
    rng: Rng,
    crypto: Option<&'a Crypto>,
    refused_uri: u64,
    refused_handle: u64,
    res_stats: gen::ResStats,
    refused_other: u64,
}

fn handle_is_protocol_valid(s: &str) -> bool {
    // RFC 8183: handle = xsd:string { maxLength="255" pattern="[\-_A-Za-z0-9/]*" }, non-empty in the library
    !s.is_empty() && s.len() <= 255 && s.bytes().all(|b| b.is_ascii_alphanumeric() || b == b'-' || b == b'_' || b == b'/')
}

impl<'a> Gen<'a> {
    /// A handle through the checked constructor. Rarely (and then the case
    /// becomes lenient) through the unchecked `Handle::new`.
    fn handle<T>(&mut self, case_lenient: &mut Option<&'static str>) -> (Handle<T>, String) {
        if self.rng.chance(1, 40) {
            let s = gen::freeform(&mut self.rng);
            if !handle_is_protocol_valid(&s) {
                *case_lenient = Some("unchecked-handle");
            }
            return (Handle::new(s.as_str().into()), s);
        }
        if self.rng.chance(1, 30) {
            // the checked constructor must refuse these; count it
            let bad = match self.rng.below(3) {
                0 => String::new(),
                1 => "a".repeat(256),
                _ => gen::freeform(&mut self.rng),
            };
            if !handle_is_protocol_valid(&bad) && Handle::<T>::from_str(&bad).is_err() {
                self.refused_handle += 1;
            }
        }
        loop {
            let s = gen::handle_str(&mut self.rng);
            match Handle::<T>::from_str(&s) {
                Ok(h) => return (h, s),
                Err(_) => {
                    self.refused_handle += 1;
                    // A handle that is valid by RFC 8183 (1..=255 characters of the
                    // permitted alphabet, judged by the harness) can still be put
                    // into a message through the public unchecked constructor; the
                    // message must then round-trip like any other.
                    if handle_is_protocol_valid(&s) {
                        return (Handle::new(s.as_str().into()), s);
                    }
                }
            }
        }
    }

    fn class_name(&mut self) -> (prov::ResourceClassName, String) {
        let s = gen::freeform(&mut self.rng);
        let name = match self.rng.below(3) {
            0 => prov::ResourceClassName::from(s.as_str()),
            1 => prov::ResourceClassName::from(s.clone()),
            _ => prov::ResourceClassName::from_str(&s).expect("infallible"),
        };
        (name, s)
    }

    fn rsync(&mut self) -> uri::Rsync {
        gen::rsync(&mut self.rng, &mut self.refused_uri)
    }

    fn https(&mut self) -> uri::Https {
        gen::https(&mut self.rng, &mut self.refused_uri)
    }

    fn service_uri(&mut self) -> (ServiceUri, String) {
        if self.rng.bool() {
            let u = self.https();
            let s = u.to_string();
            (ServiceUri::Https(u), s)
        } else {
            let scheme = *self.rng.pick(&["http://", "HTTP://", "Http://", "hTTp://"]);
            let s = format!("{}{}", scheme, gen::freeform(&mut self.rng));
            // half of the time through the public enum variant itself (the
            // scheme of an http URI is case-insensitive, RFC 3986), so that
            // the value does not depend on what the string parser admits
            if self.rng.bool() {
                return (ServiceUri::Http(s.clone()), s);
            }
            match ServiceUri::from_str(&s) {
                Ok(u) => (u, s),
                Err(_) => {
                    self.refused_other += 1;
                    let u = self.https();
                    let s = u.to_string();
                    (ServiceUri::Https(u), s)
                }
            }
        }
    }

    fn tag(&mut self) -> Option<String> {
        if self.rng.chance(1, 5) {
            None
        } else {
            Some(gen::freeform(&mut self.rng))
        }
    }

    fn resource_set(&mut self, case: &mut Vec<TextField>) -> gen::SetGen {
        let g = gen::resource_set(&mut self.rng, &mut self.res_stats);
        case.push(TextField::As("resource_set_as", g.set.asn().clone()));
        case.push(TextField::V4("resource_set_ipv4", g.set.ipv4().clone()));
        case.push(TextField::V6("resource_set_ipv6", g.set.ipv6().clone()));
        g
    }

    fn limit(&mut self, case: &mut Vec<TextField>) -> gen::LimitGen {
        let g = gen::limit(&mut self.rng, &mut self.res_stats);
        if let Some(b) = g.limit.asn() {
            case.push(TextField::As("req_resource_set_as", b.clone()));
        }
        if let Some(b) = g.limit.ipv4() {
            case.push(TextField::V4("req_resource_set_ipv4", b.clone()));
        }
        if let Some(b) = g.limit.ipv6() {
            case.push(TextField::V6("req_resource_set_ipv6", b.clone()));
        }
        g
    }

    fn list_len(&mut self, many_max: u64) -> (usize, &'static str) {
        let many_max = if gen::small() { many_max.min(3) } else { many_max };
        match self.rng.below(6) {
            0 => (0, "0"),
            1 | 2 => (1, "1"),
            _ => (self.rng.range(2, many_max) as usize, "many"),
        }
    }

    fn key_id(&mut self) -> KeyIdentifier {
        if let Some(c) = self.crypto {
            if self.rng.bool() {
                return *self.rng.pick(&c.key_ids);
            }
        }
        KeyIdentifier::from(gen::key_id20(&mut self.rng))
    }

    /// Base64 payload of an identity message.
    fn id_cert(&mut self, case_lenient: &mut Option<&'static str>) -> (publ::Base64, &'static str) {
        if let Some(c) = self.crypto {
            if self.rng.chance(3, 4) {
                return (publ::Base64::from_content(&c.id_certs[self.rng.usize_below(c.id_certs.len())]), "idcert");
            }
        }
        if self.rng.chance(1, 40) {
            *case_lenient = Some("empty-base64-content");
            return (publ::Base64::from_content(b""), "empty");
        }
        let bytes = gen::content(&mut self.rng);
        (publ::Base64::from_content(&bytes), "bytes")
    }

    //--- provisioning

    fn entitlement(
        &mut self,
        strings: &mut Vec<(&'static str, String)>,
        text_fields: &mut Vec<TextField>,
    ) -> (prov::ResourceClassEntitlements, String) {
        let c = self.crypto.expect("crypto");
        let (name, s) = self.class_name();
        strings.push(("class_name", s));
        let set = self.resource_set(text_fields);
        let not_after = gen::whole_second_time(&mut self.rng);
        text_fields.push(TextField::NotAfter(not_after));
        let (n, ncls) = self.list_len(5);
        let mut issued = Vec::new();
        for _ in 0..n {
            let uri = self.rsync();
            let lim = self.limit(text_fields);
            issued.push(prov::IssuedCert::new(uri, lim.limit, self.rng.pick(&c.certs).clone()));
        }
        let signing = prov::SigningCert::new(self.rsync(), self.rng.pick(&c.certs).clone());
        let shape = format!("issued={ncls},{}", set.class);
        (prov::ResourceClassEntitlements::new(name, set.set, not_after, issued, signing), shape)
    }

    fn provisioning(&mut self) -> Case {
        let mut lenient = None;
        let (sender, _) = self.handle(&mut lenient);
        let (recipient, _) = self.handle(&mut lenient);
        let mut strings: Vec<(&'static str, String)> = Vec::new();
        let mut text_fields: Vec<TextField> = Vec::new();
        let mut shape = String::new();
        // without certificates (Miri) only the XML-only variants
        let choice = if self.crypto.is_some() { self.rng.below(10) } else { *self.rng.pick(&[0u64, 4, 5, 6]) };
        let (variant, msg): (&'static str, prov::Message) = match choice {
            0 => ("provisioning.list", prov::Message::list(sender, recipient)),
            1 | 7 | 8 => {
                let (n, ncls) = self.list_len(6);
                let mut classes = Vec::new();
                let mut first_shape = String::new();
                for i in 0..n {
                    let (e, sh) = self.entitlement(&mut strings, &mut text_fields);
                    if i == 0 {
                        first_shape = sh;
                    }
                    classes.push(e);
                }
                shape = format!("classes={ncls},{first_shape}");
                (
                    "provisioning.list_response",
                    prov::Message::list_response(sender, recipient, prov::ResourceClassListResponse::new(classes)),
                )
            }
            2 => {
                let c = self.crypto.expect("crypto");
                let (name, s) = self.class_name();
                strings.push(("class_name", s));
                let lim = self.limit(&mut text_fields);
                shape = format!("limit:{}", lim.class);
                let req = prov::IssuanceRequest::new(name, lim.limit, self.rng.pick(&c.csrs).clone());
                ("provisioning.issue", prov::Message::issue(sender, recipient, req))
            }
            3 | 9 => {
                let c = self.crypto.expect("crypto");
                let (name, s) = self.class_name();
                strings.push(("class_name", s));
                let set = self.resource_set(&mut text_fields);
                let not_after = if self.rng.chance(1, 50) {
                    // the wire format carries whole seconds only
                    lenient = Some("sub-second-not-after");
                    gen::subsecond_time(&mut self.rng)
                } else {
                    let t = gen::whole_second_time(&mut self.rng);
                    text_fields.push(TextField::NotAfter(t));
                    t
                };
                let lim = self.limit(&mut text_fields);
                let issued = prov::IssuedCert::new(self.rsync(), lim.limit, self.rng.pick(&c.certs).clone());
                let signing = prov::SigningCert::new(self.rsync(), self.rng.pick(&c.certs).clone());
                shape = format!("{},limit:{}", set.class, lim.class);
                let resp = prov::IssuanceResponse::new(name, set.set, not_after, issued, signing);
                ("provisioning.issue_response", prov::Message::issue_response(sender, recipient, resp))
            }
            4 => {
                let (name, s) = self.class_name();
                strings.push(("class_name", s));
                let req = prov::RevocationRequest::new(name, self.key_id());
                ("provisioning.revoke", prov::Message::revoke(sender, recipient, req))
            }
            5 => {
                let (name, s) = self.class_name();
                strings.push(("class_name", s));
                let req = prov::RevocationRequest::new(name, self.key_id());
                let resp = if self.rng.bool() {
                    prov::RevocationResponse::from(&req)
                } else {
                    prov::RevocationResponse::new((*req).clone())
                };
                ("provisioning.revoke_response", prov::Message::revoke_response(sender, recipient, resp))
            }
            _ => {
                let (code, resp) = match self.rng.below(11) {
                    0 => (1101, prov::NotPerformedResponse::err_1101()),
                    1 => (1102, prov::NotPerformedResponse::err_1102()),
                    2 => (1103, prov::NotPerformedResponse::err_1103()),
                    3 => (1104, prov::NotPerformedResponse::err_1104()),
                    4 => (1201, prov::NotPerformedResponse::err_1201()),
                    5 => (1202, prov::NotPerformedResponse::err_1202()),
                    6 => (1203, prov::NotPerformedResponse::err_1203()),
                    7 => (1204, prov::NotPerformedResponse::err_1204()),
                    8 => (1301, prov::NotPerformedResponse::err_1301()),
                    9 => (1302, prov::NotPerformedResponse::err_1302()),
                    _ => (2001, prov::NotPerformedResponse::err_2001()),
                };
                match prov::Message::not_performed_response(sender.clone(), recipient.clone(), resp) {
                    Ok(m) => {
                        shape = format!("code={code}");
                        ("provisioning.error_response", m)
                    }
                    Err(_) => {
                        // the constructor returns a Result; a refusal is fine
                        self.refused_other += 1;
                        ("provisioning.list", prov::Message::list(sender, recipient))
                    }
                }
            }
        };
        Case { variant, msg: AnyMsg::Prov(msg), strings, shape, text_fields, lenient, open: None, source: None }
    }

    //--- publication

    fn publish_content(&mut self, lenient: &mut Option<&'static str>) -> (publ::Base64, &'static str) {
        if self.rng.chance(1, 60) {
            *lenient = Some("empty-base64-content");
            return (publ::Base64::from_content(b""), "empty");
        }
        if let Some(c) = self.crypto {
            if self.rng.chance(1, 6) {
                return (publ::Base64::from(self.rng.pick(&c.certs)), "cert");
            }
        }
        let bytes = gen::content(&mut self.rng);
        let class = match bytes.len() % 3 {
            0 => "len%3=0",
            1 => "len%3=1",
            _ => "len%3=2",
        };
        (publ::Base64::from_content(&bytes), class)
    }

    fn publication(&mut self) -> Case {
        match self.rng.below(10) {
            0 => Case::new("publication.list_query", AnyMsg::Publ(publ::Message::list_query())),
            1 => Case::new("publication.success", AnyMsg::Publ(publ::Message::success())),
            2 | 3 => {
                let (n, ncls) = match self.rng.below(12) {
                    0 if !gen::small() => (self.rng.range(100, 600) as usize, "many"),
                    _ => self.list_len(40),
                };
                let mut reply = if self.rng.bool() { publ::ListReply::empty() } else { publ::ListReply::new(Vec::new()) };
                for _ in 0..n {
                    let el = publ::ListElement::new(self.rsync(), rrdp::Hash::from(gen::hash32(&mut self.rng)));
                    reply.add_element(el);
                }
                let mut case = Case::new("publication.list_reply", AnyMsg::Publ(publ::Message::list_reply(reply)));
                case.shape = format!("elements={ncls}");
                case
            }
            4 => {
                // error reply
                let codes = [
                    publ::ReportErrorCode::XmlError,
                    publ::ReportErrorCode::PermissionFailure,
                    publ::ReportErrorCode::BadCmsSignature,
                    publ::ReportErrorCode::ObjectAlreadyPresent,
                    publ::ReportErrorCode::NoObjectPresent,
                    publ::ReportErrorCode::NoObjectMatchingHash,
                    publ::ReportErrorCode::ConsistencyProblem,
                    publ::ReportErrorCode::OtherError,
                ];
                let mut lenient = None;
                let (n, ncls) = match self.rng.below(30) {
                    0 => {
                        lenient = Some("error-reply-without-errors");
                        (0, "0")
                    }
                    1..=12 => (1, "1"),
                    _ => (self.rng.range(2, 9) as usize, "many"),
                };
                let mut first = String::new();
                let reply = if n == 1 && self.rng.bool() {
                    let code = self.rng.pick(&codes).clone();
                    first = code.to_string();
                    publ::ErrorReply::for_error(publ::ReportError::with_code(code))
                } else {
                    let mut r = publ::ErrorReply::empty();
                    for i in 0..n {
                        let code = self.rng.pick(&codes).clone();
                        if i == 0 {
                            first = code.to_string();
                        }
                        r.add_error(publ::ReportError::with_code(code));
                    }
                    r
                };
                let mut case = Case::new("publication.error_reply", AnyMsg::Publ(publ::Message::error(reply)));
                case.shape = format!("errors={ncls},first={first}");
                case.lenient = lenient;
                case
            }
            _ => {
                // delta of publish / update / withdraw
                let (n, ncls) = self.list_len(12);
                let mut delta = publ::PublishDelta::empty();
                let mut lenient = None;
                let mut kinds = [false; 3];
                let mut strings = Vec::new();
                let mut content_class = "-";
                // tag-less elements only in a few deltas (they make the case lenient)
                let allow_tagless = self.rng.chance(1, 25);
                for _ in 0..n {
                    let uri = self.rsync();
                    let hash_tag = self.crypto.is_some() && self.rng.chance(1, 8);
                    let tag = if allow_tagless && self.rng.bool() { None } else { Some(gen::freeform(&mut self.rng)) };
                    if tag.is_none() && !hash_tag {
                        // RFC 8181: the tag attribute is mandatory on <publish> and <withdraw>
                        lenient = Some("publish-or-withdraw-without-tag");
                    }
                    if let Some(t) = &tag {
                        if !hash_tag {
                            strings.push(("tag", t.clone()));
                        }
                    }
                    match self.rng.below(3) {
                        0 => {
                            kinds[0] = true;
                            let (content, cc) = self.publish_content(&mut lenient);
                            content_class = cc;
                            if hash_tag && cc != "empty" {
                                delta.add_publish(publ::Publish::with_hash_tag(uri, content));
                            } else {
                                delta.add_publish(publ::Publish::new(tag, uri, content));
                            }
                        }
                        1 => {
                            kinds[1] = true;
                            let (content, cc) = self.publish_content(&mut lenient);
                            content_class = cc;
                            let old = rrdp::Hash::from(gen::hash32(&mut self.rng));
                            if hash_tag && cc != "empty" {
                                delta.add_update(publ::Update::with_hash_tag(uri, content, old));
                            } else {
                                delta.add_update(publ::Update::new(tag, uri, content, old));
                            }
                        }
                        _ => {
                            kinds[2] = true;
                            let old = rrdp::Hash::from(gen::hash32(&mut self.rng));
                            if hash_tag {
                                delta.add_withdraw(publ::Withdraw::with_hash_tag(uri, old));
                            } else {
                                delta.add_withdraw(publ::Withdraw::new(tag, uri, old));
                            }
                        }
                    }
                }
                // a tag-less, hash-tagged element is not lenient; recompute
                let mut case = Case::new("publication.delta", AnyMsg::Publ(publ::Message::delta(delta)));
                case.strings = strings;
                case.shape = format!(
                    "elements={ncls},publish={},update={},withdraw={},content={content_class}",
                    kinds[0], kinds[1], kinds[2]
                );
                case.lenient = lenient;
                case
            }
        }
    }

    //--- RFC 8183

    fn idexchange(&mut self) -> Case {
        let mut lenient = None;
        let (id_cert, idc) = self.id_cert(&mut lenient);
        let mut case = match self.rng.below(5) {
            0 => {
                let (h, _) = self.handle(&mut lenient);
                if self.rng.bool() {
                    Case::new("idexchange.child_request", AnyMsg::ChildReq(ChildRequest::new(id_cert, h)))
                } else {
                    // the only public way to a child request *with* a tag that is
                    // not the XML parser: serde
                    let tag = gen::freeform(&mut self.rng);
                    let v = json!({"id_cert": id_cert.as_str(), "child_handle": h.as_str(), "tag": tag});
                    match serde_json::from_value::<ChildRequest>(v) {
                        Ok(req) => {
                            let mut c = Case::new("idexchange.child_request", AnyMsg::ChildReq(req));
                            c.strings.push(("tag", tag));
                            c
                        }
                        Err(_) => {
                            // serde re-validates the handle: an unchecked one is refused here
                            self.refused_other += 1;
                            Case::new("idexchange.child_request", AnyMsg::ChildReq(ChildRequest::new(id_cert, h)))
                        }
                    }
                }
            }
            1 | 2 => {
                let (p, _) = self.handle(&mut lenient);
                let (c, _) = self.handle(&mut lenient);
                let (su, sus) = self.service_uri();
                let tag = self.tag();
                let mut case = Case::new(
                    "idexchange.parent_response",
                    AnyMsg::ParentResp(ParentResponse::new(id_cert, p, c, su, tag.clone())),
                );
                case.strings.push(("service_uri", sus));
                if let Some(t) = tag {
                    case.strings.push(("tag", t));
                }
                case
            }
            3 => {
                let (h, _) = self.handle(&mut lenient);
                let tag = self.tag();
                let mut case =
                    Case::new("idexchange.publisher_request", AnyMsg::PubReq(PublisherRequest::new(id_cert, h, tag.clone())));
                if let Some(t) = tag {
                    case.strings.push(("tag", t));
                }
                case
            }
            _ => {
                let (h, _) = self.handle(&mut lenient);
                let (su, sus) = self.service_uri();
                let sia = self.rsync();
                let rrdp_uri = if self.rng.chance(2, 3) { Some(self.https()) } else { None };
                let tag = self.tag();
                let mut case = Case::new(
                    "idexchange.repository_response",
                    AnyMsg::RepoResp(RepositoryResponse::new(id_cert, h, su, sia.clone(), rrdp_uri.clone(), tag.clone())),
                );
                case.strings.push(("service_uri", sus));
                case.strings.push(("sia_base", sia.to_string()));
                if let Some(u) = rrdp_uri {
                    case.strings.push(("rrdp_notification_uri", u.to_string()));
                }
                if let Some(t) = tag {
                    case.strings.push(("tag", t));
                }
                case
            }
        };
        case.shape = format!("id_cert={idc}");
        case.lenient = lenient;
        case
    }

    fn case(&mut self) -> Case {
        match self.rng.below(10) {
            0..=3 => self.provisioning(),
            4..=6 => self.publication(),
            _ => self.idexchange(),
        }
    }
}

//------------ well-formedness oracle (batched) --------------------------------

struct WfDoc {
    start: usize,
    len: usize,
    variant: &'static str,
    lenient: Option<&'static str>,
    strings: Vec<(&'static str, String)>,
    source: Option<Value>,
}

struct WfBatch {
    stream: Vec<u8>,
    docs: Vec<WfDoc>,
    enabled: bool,
    checked: u64,
    batches: u64,
}

fn expat_kind(msg: &str) -> String {
    // "not well-formed (invalid token): line 1, column 9" -> "not-well-formed-(invalid-token)"
    let head = msg.split(": line").next().unwrap_or(msg);
    head.chars().map(|c| if c.is_ascii_alphanumeric() || c == '(' || c == ')' { c } else { '-' }).collect()
}

impl WfBatch {
    fn new(enabled: bool) -> Self {
        WfBatch { stream: Vec::new(), docs: Vec::new(), enabled, checked: 0, batches: 0 }
    }

    fn push(&mut self, ctx: &mut Ctx, case: &Case, doc: &[u8]) {
        if !self.enabled {
            return;
        }
        self.stream.extend_from_slice(&(doc.len() as u32).to_be_bytes());
        let start = self.stream.len();
        self.stream.extend_from_slice(doc);
        self.docs.push(WfDoc {
            start,
            len: doc.len(),
            variant: case.variant,
            lenient: case.lenient,
            strings: case.strings.clone(),
            source: case.source.clone(),
        });
        if self.stream.len() >= 6 << 20 || self.docs.len() >= 1500 {
            self.flush(ctx);
        }
    }

    fn run_oracle(stream: &[u8]) -> Result<Value, String> {
        let script = concat!(env!("CARGO_MANIFEST_DIR"), "/../tools/xml_wf.py");
        let mut child = Command::new("python3")
            .arg(script)
            .stdin(Stdio::piped())
            .stdout(Stdio::piped())
            .stderr(Stdio::null())
            .spawn()
            .map_err(|e| format!("cannot start python3: {e}"))?;
        {
            // the script reads all of stdin before it writes anything
            let mut stdin = child.stdin.take().ok_or("no stdin")?;
            stdin.write_all(stream).map_err(|e| format!("write to oracle: {e}"))?;
        }
        let out = child.wait_with_output().map_err(|e| format!("wait for oracle: {e}"))?;
        if !out.status.success() {
            return Err(format!("oracle exit status {:?}: {}", out.status.code(), String::from_utf8_lossy(&out.stdout)));
        }
        serde_json::from_slice::<Value>(&out.stdout).map_err(|e| format!("oracle output: {e}"))
    }

    fn flush(&mut self, ctx: &mut Ctx) {
        if self.docs.is_empty() {
            return;
        }
        match Self::run_oracle(&self.stream) {
            Err(e) => {
                // inability is never a violation
                ctx.obs("wf_oracle_failed_batches", 1);
                let note = format!("C11: well-formedness oracle could not run: {e}");
                if !ctx.notes.contains(&note) && ctx.notes.len() < 4 {
                    ctx.notes.push(note);
                }
            }
            Ok(v) => {
                let count = v["count"].as_u64().unwrap_or(0);
                if count != self.docs.len() as u64 {
                    ctx.obs("wf_oracle_failed_batches", 1);
                    ctx.notes.push(format!("C11: oracle saw {count} documents, {} were sent", self.docs.len()));
                } else {
                    self.batches += 1;
                    self.checked += count;
                    ctx.evals(count);
                    ctx.obs("wf_documents_checked_by_expat", count);
                    if let Some(bad) = v["bad"].as_array() {
                        for b in bad {
                            let idx = b[0].as_u64().unwrap_or(0) as usize;
                            let msg = b[1].as_str().unwrap_or("?").to_string();
                            let d = &self.docs[idx];
                            let doc = &self.stream[d.start..d.start + d.len];
                            let strings: Vec<Value> =
                                d.strings.iter().map(|(n, v)| json!({"field": n, "value": clip(v, 400)})).collect();
                            let mut detail = json!({
                                "variant": d.variant,
                                "expat": msg,
                                "string_fields": strings,
                                "xml": clip(&String::from_utf8_lossy(doc), 6000),
                            });
                            if let Some(src) = &d.source {
                                detail["message_was_decoded_from"] = src.clone();
                            }
                            match d.lenient {
                                Some(r) => ctx.obs(&format!("lenient:{r}:not-well-formed"), 1),
                                None => ctx.violation(
                                    &format!("C11:not-well-formed:{}:{}", d.variant, expat_kind(&msg)),
                                    &format!("{} message written by the library is not well-formed XML: {}", d.variant, msg),
                                    detail,
                                ),
                            }
                        }
                    }
                }
            }
        }
        self.stream.clear();
        self.docs.clear();
    }
}

//------------ the monitor ------------------------------------------------------

struct Reservoir {
    docs: Vec<(Kind, &'static str, Vec<u8>)>,
}

impl Reservoir {
    fn offer(&mut self, rng: &mut Rng, kind: Kind, variant: &'static str, doc: &[u8]) {
        if doc.len() > 40_000 {
            return;
        }
        if self.docs.len() < 48 {
            self.docs.push((kind, variant, doc.to_vec()));
        } else if rng.chance(1, 4) {
            let i = rng.usize_below(self.docs.len());
            self.docs[i] = (kind, variant, doc.to_vec());
        }
    }
}

fn check_case(ctx: &mut Ctx, case: &Case, wf: &mut WfBatch) -> Option<Vec<u8>> {
    let variant = case.variant;
    // --- write
    let doc = match ctx.no_panic(&format!("write:{variant}"), || case.describe(None), || case.msg.write()) {
        None => return None,
        Some(Err(e)) => {
            // an in-memory writer cannot fail; the to_xml_* helpers unwrap this
            match case.lenient {
                Some(r) => ctx.obs(&format!("lenient:{r}:write-error"), 1),
                None => ctx.violation(
                    &format!("C11:write-error:{variant}"),
                    &format!("write_xml into a Vec failed: {e}"),
                    case.describe(None),
                ),
            }
            return None;
        }
        Some(Ok(d)) => d,
    };
    ctx.obs_max("document_bytes", doc.len() as u64);
    // --- oracle 1 (deferred): well-formedness
    wf.push(ctx, case, &doc);
    // --- oracle 2: round trip
    let kind = case.msg.kind();
    let back = ctx.no_panic(&format!("decode-own-output:{variant}"), || case.describe(Some(&doc)), || kind.parse(&doc));
    ctx.eval();
    let failure: Option<(&'static str, String)> = match back {
        None => None, // panic already reported
        Some(Err(e)) => Some(("decode-error", e)),
        Some(Ok(m)) => {
            if m == case.msg {
                None
            } else {
                Some(("not-equal", "the parsed message differs from the written one".to_string()))
            }
        }
    };
    match (&failure, case.lenient) {
        (None, None) => ctx.obs("roundtrip_equal", 1),
        (None, Some(r)) => ctx.obs(&format!("lenient:{r}:roundtrip-equal"), 1),
        (Some((what, _)), Some(r)) => ctx.obs(&format!("lenient:{r}:{what}"), 1),
        (Some((what, _)), None) if *what == "decode-error" && case.open.is_some() => {
            ctx.obs(&format!("open:{}:decode-error", case.open.unwrap_or("")), 1)
        }
        (Some((what, err)), None) => {
            // name the culprit if one of the attribute values has a text form
            // that does not parse back by itself
            let culprits: Vec<(&'static str, &'static str, String)> =
                case.text_fields.iter().filter_map(|f| f.broken()).collect();
            let mut kinds: Vec<&str> = culprits.iter().map(|c| c.1).collect();
            kinds.sort();
            kinds.dedup();
            let sig = if kinds.is_empty() {
                format!("C11:roundtrip:{variant}:{what}")
            } else {
                format!("C11:roundtrip:{what}:{}", kinds.join("+"))
            };
            let mut detail = case.describe(Some(&doc));
            detail["error"] = json!(err);
            detail["fields_whose_text_form_does_not_parse_back"] = json!(culprits
                .iter()
                .take(8)
                .map(|(f, k, t)| json!({"field": f, "kind": k, "text_written_by_display": clip(t, 600)}))
                .collect::<Vec<_>>());
            ctx.violation(
                &sig,
                &format!("{variant}: the library does not parse its own output back to an equal message ({what}: {err})"),
                detail,
            );
        }
    }
    Some(doc)
}

fn feed_parser(ctx: &mut Ctx, kind: Kind, origin: &str, mutator: &'static str, doc: &[u8]) {
    let what = format!("parse:{}", kind.name());
    let res = ctx.no_panic(
        &what,
        || json!({"parser": kind.name(), "derived_from": origin, "mutator": mutator, "input_hex": crate::core::hex(&doc[..doc.len().min(20_000)]), "input_lossy": clip(&String::from_utf8_lossy(doc), 4000)}),
        || kind.parse(doc),
    );
    ctx.eval();
    // resource chains built from hostile attribute text are checked by hook H1
    ctx.drain_chain_hook(|| {
        json!({"while": "parsing a mutated document", "parser": kind.name(), "derived_from": origin, "mutator": mutator,
               "input_lossy": clip(&String::from_utf8_lossy(doc), 6000), "input_hex": crate::core::hex(&doc[..doc.len().min(20_000)])})
    });
    match res {
        None => ctx.obs("parser_panics", 1),
        Some(Err(_)) => ctx.obs("mutants_rejected", 1),
        Some(Ok(m)) => {
            ctx.obs("mutants_accepted", 1);
            ctx.obs(&format!("accepted_by:{}", mutator), 1);
            // second generation: writing what was parsed must not panic; whether
            // it round-trips is recorded only (its field values need not be
            // protocol-valid)
            let w = ctx.no_panic(
                &format!("write-parsed:{}", kind.name()),
                || json!({"parser": kind.name(), "mutator": mutator, "input_hex": crate::core::hex(&doc[..doc.len().min(20_000)])}),
                || m.write(),
            );
            if let Some(Ok(doc2)) = w {
                let again = ctx.no_panic(
                    &format!("parse:{}", kind.name()),
                    || json!({"parser": kind.name(), "mutator": "rewrite-of-accepted-mutant", "input_hex": crate::core::hex(&doc2[..doc2.len().min(20_000)])}),
                    || kind.parse(&doc2),
                );
                match again {
                    Some(Ok(m2)) if m2 == m => ctx.obs("accepted_mutant_rewrite_roundtrips", 1),
                    Some(Ok(_)) => {
                        ctx.obs("accepted_mutant_rewrite_differs", 1);
                        ctx.sample("accepted mutant, rewritten (recorded only)", || {
                            json!({"parser": kind.name(), "mutator": mutator, "observed": "accepted; its rewrite parses to a different message", "input": clip(&String::from_utf8_lossy(doc), 500), "rewritten": clip(&String::from_utf8_lossy(&doc2), 500)})
                        });
                    }
                    Some(Err(e)) => {
                        ctx.obs("accepted_mutant_rewrite_rejected", 1);
                        ctx.sample("accepted mutant, rewritten (recorded only)", || {
                            json!({"parser": kind.name(), "mutator": mutator, "observed": format!("accepted; its rewrite is rejected: {e}"), "input": clip(&String::from_utf8_lossy(doc), 500), "rewritten": clip(&String::from_utf8_lossy(&doc2), 500)})
                        });
                    }
                    None => {}
                }
            }
        }
    }
    ctx.sample(if mutator.starts_with("random") { "random document" } else { "mutant of a valid document" }, || {
        json!({"parser": kind.name(), "derived_from": origin, "mutator": mutator, "input": clip(&String::from_utf8_lossy(doc), 300), "observed": "returned without panic"})
    });
}

//------------ oracle 2 on messages that only the decoder can produce -------------

/// Name of the struct field at which the `Debug` texts of two messages first
/// differ (for a signature that names what got lost), e.g. `description`.
fn first_differing_field(a: &str, b: &str) -> String {
    let at = a.bytes().zip(b.bytes()).position(|(x, y)| x != y).unwrap_or(a.len().min(b.len()));
    let head = &a.as_bytes()[..at.min(a.len())];
    // the last `identifier: ` before the difference that is not inside a
    // string literal (field values may look like that, too)
    let mut end = None;
    let mut in_string = false;
    let mut escaped = false;
    for i in 0..head.len() {
        let c = head[i];
        if in_string {
            if escaped {
                escaped = false;
            } else if c == b'\\' {
                escaped = true;
            } else if c == b'"' {
                in_string = false;
            }
            continue;
        }
        if c == b'"' {
            in_string = true;
        } else if c == b':' && i > 0 && (head[i - 1].is_ascii_alphanumeric() || head[i - 1] == b'_') && head.get(i + 1).map(|c| *c == b' ').unwrap_or(true) {
            end = Some(i);
        }
    }
    match end {
        Some(e) => {
            let mut s = e;
            while s > 0 && (head[s - 1].is_ascii_alphanumeric() || head[s - 1] == b'_') {
                s -= 1;
            }
            String::from_utf8_lossy(&head[s..e]).into_owned()
        }
        None => "unnamed".into(),
    }
}

/// The strings the `Debug` text of a message shows for its free-text fields
/// (`description`, `error_text`): the types have no accessor for the latter.
fn free_texts_in_debug(dbg: &str) -> Vec<String> {
    let mut out = Vec::new();
    for marker in ["description: Some(\"", "error_text: Some(\""] {
        let mut from = 0;
        while let Some(at) = dbg[from..].find(marker) {
            let start = from + at + marker.len();
            let mut val = String::new();
            let mut esc = false;
            let mut end = dbg.len();
            for (i, c) in dbg[start..].char_indices() {
                if esc {
                    val.push(c);
                    esc = false;
                } else if c == '\\' {
                    esc = true;
                } else if c == '"' {
                    end = start + i;
                    break;
                } else {
                    val.push(c);
                }
            }
            out.push(val);
            from = end.min(dbg.len());
        }
    }
    out
}

/// parse → write → parse → compare → write again, with no reporting at all.
/// `None`: the document was rejected, or everything agreed.
fn quiet_roundtrip_failure(kind: Kind, doc: &[u8]) -> Option<&'static str> {
    let r = crate::core::catch(|| {
        let m = match kind.parse(doc) {
            Ok(m) => m,
            Err(_) => return None,
        };
        let doc2 = match m.write() {
            Ok(d) => d,
            Err(_) => return Some("write-error"),
        };
        match kind.parse(&doc2) {
            Err(_) => Some("decode-error"),
            Ok(m2) if m2 != m => Some("not-equal"),
            Ok(m2) => match m2.write() {
                Ok(d3) if d3 == doc2 => None,
                _ => Some("rewrite-differs"),
            },
        }
    });
    match r {
        Ok(x) => x,
        Err(_) => Some("panic"),
    }
}

fn lex_uses_json(uses: &[c11_text::LexUse]) -> Value {
    json!(uses
        .iter()
        .map(|u| json!({
            "where": u.slot, "family": u.family, "form": u.form,
            "value_an_xml_processor_reports": clip(&u.logical, 1500), "as_written": clip(&u.lexical, 3000),
        }))
        .collect::<Vec<_>>())
}

/// Which of the re-spelled values of a failing lexical document is enough to
/// make it fail: `Some((slot, family, form, the smaller document))`. `None`:
/// the same document in the plain spelling fails as well, so the spelling is
/// not the cause.
fn lexical_culprit(td: &c11_text::TextDoc) -> Option<(String, String, String, Option<Value>)> {
    if let Some(plain) = td.render_plain() {
        if quiet_roundtrip_failure(td.kind, &plain).is_some() {
            return None;
        }
    }
    if td.lex.len() == 1 {
        let u = &td.lex[0];
        return Some((u.slot.clone(), u.family.to_string(), u.form.to_string(), None));
    }
    for i in 0..td.lex.len() {
        if let Some((doc, uses)) = td.render_only(i) {
            if let (Some(what), Some(u)) = (quiet_roundtrip_failure(td.kind, &doc), uses.first()) {
                let small = json!({
                    "document_with_only_this_value_respelled": clip(&String::from_utf8_lossy(&doc), 6000),
                    "it_fails_with": what,
                    "lexical_forms": lex_uses_json(&uses),
                });
                return Some((u.slot.clone(), u.family.to_string(), u.form.to_string(), Some(small)));
            }
        }
    }
    let mut fams: Vec<&str> = td.lex.iter().map(|u| u.family).collect();
    fams.sort();
    fams.dedup();
    Some(("several-values".to_string(), fams.join("+"), "combination".to_string(), None))
}

/// A document from the harness' own XML writer (`c11_text`): if the decoder
/// accepts it, the message it returns came from the public API and carries
/// protocol-valid field values, so it must be written as well-formed XML that
/// parses back to an equal message (and writing that again gives the same
/// bytes). A rejected document asserts nothing.
///
/// Documents of the lexical pass (`td.lex` not empty) are judged in the same
/// way; in addition it is recorded which spellings the reader takes.
fn check_text_doc(ctx: &mut Ctx, td: &c11_text::TextDoc, wf: &mut WfBatch) {
    let variant = td.variant;
    let kind = td.kind;
    let lexical = !td.lex.is_empty();
    let describe = |doc2: Option<&[u8]>| {
        let mut d = json!({
            "variant": variant,
            "optional_parts_left_out": td.absent,
            "optional_extras_present": td.extras,
            "spelling": td.spelling,
            "lenient": td.lenient,
            "input_document": clip(&String::from_utf8_lossy(&td.doc), 6000),
            "written_by_the_library": doc2.map(|d| clip(&String::from_utf8_lossy(d), 6000)),
        });
        if lexical {
            d["lexical_forms"] = lex_uses_json(&td.lex);
        }
        d
    };
    let parsed = ctx.no_panic(&format!("parse-text-level:{}", kind.name()), || describe(None), || kind.parse(&td.doc));
    ctx.eval();
    if lexical {
        // which spellings does the reader take?
        let outcome = match &parsed {
            None => "panicked",
            Some(Err(_)) => "rejected",
            Some(Ok(_)) => "accepted",
        };
        ctx.obs(&format!("lexical_documents_{outcome}"), 1);
        if let [u] = td.lex.as_slice() {
            // one re-spelled value: the verdict of the reader is about it
            let slot_kind = u.slot.split(':').next().unwrap_or("?");
            ctx.obs(&format!("lexical:{outcome}:{slot_kind}:{}", u.form), 1);
            if slot_kind != "attr" {
                ctx.obs(&format!("lexical_slot:{}:{}:{outcome}", u.slot, u.family), 1);
            }
        } else {
            ctx.obs(&format!("lexical_documents_with_several_respelled_values_{outcome}"), 1);
        }
    }
    let m = match parsed {
        None => return,
        Some(Err(e)) => {
            ctx.obs(&format!("text_level_rejected:{variant}"), 1);
            if std::env::var_os("VERIF_C11_TRACE").is_some() {
                let forms: Vec<String> = td.lex.iter().map(|u| format!("{}={}", u.slot, u.form)).collect();
                eprintln!("C11 trace: text-level {variant} rejected ({e}) [{}]: {}", forms.join(" "), clip(&String::from_utf8_lossy(&td.doc), 700));
            }
            let key = if lexical { "lexical form rejected by the reader (asserts nothing)" } else { "text-level document rejected (asserts nothing)" };
            if ctx.wants_sample(key) {
                ctx.sample(key, || {
                    let mut d = describe(None);
                    d["input_document"] = json!(clip(&String::from_utf8_lossy(&td.doc), 900));
                    d["error"] = json!(e);
                    d
                });
            }
            return;
        }
        Some(Ok(m)) => m,
    };
    ctx.obs(&format!("text_level_accepted:{variant}"), 1);
    if td.lenient.is_none() {
        if lexical {
            for u in &td.lex {
                ctx.sig(&format!("lexical|{variant}|{}|{}", u.slot, u.form));
            }
        } else {
            ctx.sig(&format!(
                "text-level|{variant}|absent:{}|extras:{}",
                if td.absent.is_empty() { "-".to_string() } else { td.absent.join("+") },
                if td.extras.is_empty() { "-".to_string() } else { td.extras.join("+") }
            ));
        }
    }
    if lexical {
        // what the reader delivers as free text decides whether a writer may
        // copy it out without escaping
        for t in free_texts_in_debug(&format!("{m:?}")) {
            let class = if t.contains('<') || t.contains('&') { "with-lt-or-amp" } else { "without-lt-or-amp" };
            ctx.obs(&format!("lexical_free_text_delivered:{class}"), 1);
        }
    }
    let doc2 = match ctx.no_panic(&format!("write-decoded:{variant}"), || describe(None), || m.write()) {
        None => return,
        Some(Err(e)) => {
            match td.lenient {
                Some(r) => ctx.obs(&format!("lenient:{r}:write-error"), 1),
                None => ctx.violation(&format!("C11:text-roundtrip:{variant}:write-error"), &format!("write_xml of a decoded message into a Vec failed: {e}"), describe(None)),
            }
            return;
        }
        Some(Ok(d)) => d,
    };
    // oracle 1 for what the library wrote
    let mut case = Case::new(variant, m.clone());
    case.lenient = td.lenient;
    case.shape = format!("decoded from a text-level document; left out: {}", td.absent.join("+"));
    case.source = Some(if lexical {
        json!({"input_document": clip(&String::from_utf8_lossy(&td.doc), 4000), "lexical_forms": lex_uses_json(&td.lex)})
    } else {
        json!({"input_document": clip(&String::from_utf8_lossy(&td.doc), 4000)})
    });
    wf.push(ctx, &case, &doc2);
    // oracle 2
    let back = ctx.no_panic(&format!("decode-own-output:{variant}"), || describe(Some(&doc2)), || kind.parse(&doc2));
    ctx.eval();
    let failure: Option<(String, String)> = match back {
        None => return,
        Some(Err(e)) => Some(("decode-error".into(), e)),
        Some(Ok(m2)) => {
            if m2 != m {
                let field = first_differing_field(&format!("{m:?}"), &format!("{m2:?}"));
                Some((format!("not-equal:{field}"), format!("the message parsed from the library's output differs from the one it wrote (first difference at field `{field}`)")))
            } else {
                match m2.write() {
                    Ok(doc3) if doc3 == doc2 => None,
                    Ok(_) => Some(("rewrite-differs".into(), "an equal message is written differently the second time".into())),
                    Err(e) => Some(("rewrite-error".into(), e)),
                }
            }
        }
    };
    match (failure, td.lenient) {
        (None, None) => ctx.obs(if lexical { "lexical_roundtrip_equal" } else { "text_level_roundtrip_equal" }, 1),
        (None, Some(r)) => ctx.obs(&format!("lenient:{r}:roundtrip-equal"), 1),
        (Some((what, _)), Some(r)) => ctx.obs(&format!("lenient:{r}:{}", what.split(':').next().unwrap_or("failure")), 1),
        (Some((what, _)), None) if what == "decode-error" && td.open.is_some() => {
            ctx.obs(&format!("open:{}:decode-error", td.open.unwrap_or("")), 1)
        }
        (Some((what, err)), None) => {
            let mut detail = describe(Some(&doc2));
            detail["error"] = json!(err);
            detail["decoded_message"] = json!(clip(&format!("{m:?}"), 3000));
            // a lexical document: name the value whose spelling is enough to
            // make it fail (none: the plain spelling fails as well)
            let culprit = if lexical { lexical_culprit(td) } else { None };
            if let Some((slot, family, form, small)) = culprit {
                if let Some(small) = small {
                    detail["smaller_case"] = small;
                }
                detail["culprit"] = json!({"where": slot, "family": family, "form": form});
                ctx.violation(
                    &format!("C11:lexical-roundtrip:{variant}:{slot}:{family}:{what}"),
                    &format!("{variant}: the reader accepts {slot} spelled as {form} ({family}), but the message it returns is not parsed back from the library's own output to an equal message ({what}: {err})"),
                    detail,
                );
            } else {
                if lexical {
                    detail["note"] = json!("the same document with every value in the plain spelling fails as well");
                }
                ctx.violation(
                    &format!("C11:text-roundtrip:{variant}:{what}"),
                    &format!("{variant}: a message decoded from a protocol-valid document is not parsed back from the library's own output to an equal message ({what}: {err})"),
                    detail,
                );
            }
        }
    }
    let key = match (lexical, kind) {
        (true, _) => format!("lexical form accepted by the reader: {}", td.lex.iter().map(|u| u.family).collect::<Vec<_>>().join("+")),
        (false, Kind::Prov) => "text-level RFC 6492 document".to_string(),
        (false, Kind::Publ) => "text-level RFC 8181 document".to_string(),
        (false, _) => "text-level RFC 8183 document".to_string(),
    };
    if ctx.wants_sample(&key) {
        ctx.sample(&key, || {
            let mut d = describe(Some(&doc2));
            d["input_document"] = json!(clip(&String::from_utf8_lossy(&td.doc), 700));
            d["written_by_the_library"] = json!(clip(&String::from_utf8_lossy(&doc2), 700));
            d["observed"] = json!("accepted; the library's rewrite parses back to an equal message");
            d
        });
    }
}

fn text_level(ctx: &mut Ctx, crypto: Option<&Crypto>, wf: &mut WfBatch) {
    let n = ctx.stage_budget((40_000, 600_000), 20_000, 160, 0);
    let mut rng = ctx.rng("text-level");
    let mut g = c11_text::TextGen::new(crypto);
    for i in 0..n {
        let td = match crate::core::catch(|| g.next(&mut rng)) {
            Ok(td) => td,
            Err(p) => {
                // only library constructors of field values (URIs, resource blocks) run in there
                let loc = crate::core::panic_location(&p);
                ctx.violation(&format!("C11:panic:construct:{loc}"), &format!("panic while generating field values for a text-level document: {p}"), json!({"index": i}));
                continue;
            }
        };
        ctx.drain_chain_hook(|| json!({"while": "generating field values (text-level)", "variant": td.variant}));
        check_text_doc(ctx, &td, wf);
        ctx.drain_chain_hook(|| json!({"while": "parsing a text-level document", "variant": td.variant}));
    }
}

/// The lexical pass: documents of the same population with attribute values
/// and text nodes re-spelled in the other ways XML allows.
fn lexical_level(ctx: &mut Ctx, crypto: Option<&Crypto>, wf: &mut WfBatch) {
    let n = ctx.stage_budget((48_000, 640_000), 20_000, 96, 0);
    let mut rng = ctx.rng("lexical-forms");
    let mut g = c11_text::TextGen::new(crypto);
    for i in 0..n {
        let td = match crate::core::catch(|| g.next_lexical(&mut rng)) {
            Ok(td) => td,
            Err(p) => {
                let loc = crate::core::panic_location(&p);
                ctx.violation(&format!("C11:panic:construct:{loc}"), &format!("panic while generating field values for a lexical document: {p}"), json!({"index": i}));
                continue;
            }
        };
        ctx.drain_chain_hook(|| json!({"while": "generating field values (lexical)", "variant": td.variant}));
        if td.lex.is_empty() {
            // a message without attributes and text (cannot happen: every root has `type` or a handle)
            ctx.obs("lexical_documents_without_a_slot", 1);
            continue;
        }
        check_text_doc(ctx, &td, wf);
        ctx.drain_chain_hook(|| json!({"while": "parsing a lexical document", "variant": td.variant}));
    }
}

pub fn run(ctx: &mut Ctx) {
    // literal cases: libFuzzer artifact / seed corpus of the fuzz stage
    if let Some(case) = ctx.case.clone() {
        run_case(ctx, &case);
        return;
    }
    let no_ffi = ctx.no_ffi();
    gen::set_small(ctx.is_miri());
    let crypto = if no_ffi {
        None
    } else {
        match crate::core::catch(Crypto::build) {
            Ok(Ok(c)) => Some(c),
            Ok(Err(e)) => {
                ctx.notes.push(format!("C11: could not build certificates with the library ({e}); certificate-bearing variants skipped"));
                None
            }
            Err(p) => {
                ctx.notes.push(format!("C11: panic while building certificates ({p}); certificate-bearing variants skipped"));
                None
            }
        }
    };
    if no_ffi {
        ctx.notes.push("miri stage: XML-only variants (no certificates, no hashing), expat oracle not available under the interpreter".into());
    }
    ctx.drain_chain_hook(|| json!("building the certificate pool"));

    let n_cases = ctx.stage_budget((24_000, 400_000), 20_000, 240, 0);
    let mutants_per_case: u64 = match ctx.stage {
        Stage::Native => match ctx.tier {
            crate::core::Tier::Quick => 24,
            crate::core::Tier::Thorough => 25,
        },
        Stage::Asan => 10,
        Stage::Miri => 3,
        Stage::Valgrind => 2,
    };

    let mut g = Gen {
        rng: ctx.rng("cases"),
        crypto: crypto.as_ref(),
        refused_uri: 0,
        refused_handle: 0,
        res_stats: gen::ResStats::default(),
        refused_other: 0,
    };
    let mut mrng = ctx.rng("mutants");
    let mut wf = WfBatch::new(!ctx.is_miri());
    let mut pool = Reservoir { docs: Vec::new() };

    // one very large message per run (native stage, first shard): a publication
    // delta carrying a 9 MiB object (about 12 MB of XML) and a list reply with
    // 60000 elements — "large lists" and large contents are in the statement
    if ctx.stage == Stage::Native && ctx.shard == 0 {
        let mut brng = ctx.rng("big-message");
        let uri = uri::Rsync::from_str("rsync://example.com/repo/ca/big.roa").expect("uri");
        let mut delta = publ::PublishDelta::empty();
        delta.add_publish(publ::Publish::new(Some("big object".into()), uri, publ::Base64::from_content(&brng.bytes(9 << 20))));
        let big = Case::new("publication.delta", AnyMsg::Publ(publ::Message::delta(delta)));
        ctx.sig("publication.delta|one 9 MiB object");
        let _ = check_case(ctx, &big, &mut wf);
        let hash = rpki::rrdp::Hash::from([7u8; 32]);
        let mut reply = publ::ListReply::empty();
        for k in 0..60_000u32 {
            let u = uri::Rsync::from_str(&format!("rsync://example.com/repo/ca/object-{:06}.roa", k)).expect("uri");
            reply.add_element(publ::ListElement::new(u, hash));
        }
        let big = Case::new("publication.list_reply", AnyMsg::Publ(publ::Message::list_reply(reply)));
        ctx.sig("publication.list_reply|60000 elements");
        let _ = check_case(ctx, &big, &mut wf);
    }

    let trace = std::env::var_os("VERIF_C11_TRACE").is_some();
    for i in 0..n_cases {
        if trace {
            eprintln!("C11 trace: case {i} at {:.1}s, {} evaluations", ctx.elapsed_s(), ctx.evaluations);
        }
        let built = crate::core::catch(|| g.case());
        let case = match built {
            Ok(c) => c,
            Err(p) => {
                // a panic inside a public constructor fed with printable ASCII
                let loc = crate::core::panic_location(&p);
                ctx.violation(
                    &format!("C11:panic:construct:{loc}"),
                    &format!("panic while constructing a message through the public API: {p}"),
                    json!({"case_index": i}),
                );
                continue;
            }
        };
        ctx.drain_chain_hook(|| json!({"while": "generating field values", "variant": case.variant}));
        ctx.obs(&format!("cases:{}", case.variant), 1);
        if i % 16 == 0 {
            ctx.breadcrumb(&format!("C11 shard {}/{} stage {:?}: at case {} ({}); mutants follow each case", ctx.shard, ctx.nshards, ctx.stage, i, case.variant));
        }
        if case.lenient.is_none() {
            ctx.sig(&case.signature());
        }
        let doc = check_case(ctx, &case, &mut wf);
        ctx.drain_chain_hook(|| json!({"while": "parsing own output", "variant": case.variant}));
        let doc = match doc {
            Some(d) => d,
            None => continue,
        };
        let sample_key = match (case.lenient, case.msg.kind()) {
            (Some(_), _) => "value outside the protocols (recorded only)",
            (None, Kind::Prov) => "RFC 6492 message",
            (None, Kind::Publ) => "RFC 8181 message",
            (None, _) => "RFC 8183 message",
        };
        if ctx.wants_sample(sample_key) {
            let back = case.msg.kind().parse(&doc);
            let observed = match &back {
                Ok(m) if *m == case.msg => "parsed back to an equal message".to_string(),
                Ok(_) => "parsed back to a different message".to_string(),
                Err(e) => format!("own output rejected: {e}"),
            };
            ctx.sample(sample_key, || {
                let mut d = case.describe(Some(&doc));
                d["xml"] = json!(clip(&String::from_utf8_lossy(&doc), 600));
                d["observed"] = json!(observed);
                d
            });
        }
        let kind = case.msg.kind();
        pool.offer(&mut mrng, kind, case.variant, &doc);

        // --- oracle 3: mutants of this and of earlier documents
        for k in 0..mutants_per_case {
            let (src_kind, origin, src): (Kind, &'static str, &[u8]) = if k % 4 == 3 && !pool.docs.is_empty() {
                let e = &pool.docs[mrng.usize_below(pool.docs.len())];
                (e.0, e.1, &e.2)
            } else {
                (kind, case.variant, &doc)
            };
            if src.len() > 40_000 && k > 2 {
                continue;
            }
            let (name, mutant) = match mrng.below(23) {
                20..=22 if !pool.docs.is_empty() => {
                    // an element of another message of the same protocol grafted in
                    let same: Vec<usize> = (0..pool.docs.len()).filter(|i| pool.docs[*i].0.name() == src_kind.name()).collect();
                    if same.is_empty() {
                        mutate::tag_mutation(&mut mrng, src)
                    } else {
                        let donor = &pool.docs[*mrng.pick(&same)].2;
                        mutate::graft(&mut mrng, src, donor)
                    }
                }
                20..=22 => mutate::tag_mutation(&mut mrng, src),
                0..=7 => mutate::byte_mutation(&mut mrng, src),
                8..=16 => mutate::tag_mutation(&mut mrng, src),
                17 => {
                    let (_, a) = mutate::tag_mutation(&mut mrng, src);
                    let (_, b) = mutate::tag_mutation(&mut mrng, &a);
                    ("stacked:tag+tag", b)
                }
                18 => {
                    let (_, a) = mutate::tag_mutation(&mut mrng, src);
                    let (_, b) = mutate::byte_mutation(&mut mrng, &a);
                    ("stacked:tag+byte", b)
                }
                _ => mutate::random_document(&mut mrng),
            };
            let origin = if name.starts_with("random") { "(not derived)" } else { origin };
            feed_parser(ctx, src_kind, origin, name, &mutant);
            if mrng.chance(1, 6) {
                // the wrong parser for this document
                let other = *mrng.pick(&KINDS);
                feed_parser(ctx, other, origin, name, &mutant);
            }
            ctx.sig(&format!("mutant|{}|{}", src_kind.name(), name));
        }
    }
    // messages that only the decoders can produce (optional parts absent, extras present)
    text_level(ctx, crypto.as_ref(), &mut wf);
    // the same, with every other spelling XML has for the same character data
    lexical_level(ctx, crypto.as_ref(), &mut wf);
    // values with long plain runs around the characters that need an escape, in every field
    if let Err(p) = crate::core::catch(|| c11_long::run(ctx, crypto.as_ref(), &mut wf)) {
        // only constructors of field values and the library's writers / parsers run in there
        let loc = crate::core::panic_location(&p);
        ctx.violation(&format!("C11:panic:long-values:{loc}"), &format!("panic outside the guarded calls of the long-value pass: {p}"), json!({}));
    }
    wf.flush(ctx);
    // every writer against sinks that fail after k octets / take a few octets per call
    if let Err(p) = crate::core::catch(|| c11_sink::run(ctx, crypto.as_ref())) {
        let loc = crate::core::panic_location(&p);
        ctx.violation(&format!("C11:panic:sinks:{loc}"), &format!("panic outside the guarded calls of the sink pass: {p}"), json!({}));
    }

    ctx.obs("constructor_refused:uri_candidates", g.refused_uri);
    ctx.obs("constructor_refused:handles", g.refused_handle);
    ctx.obs("constructor_refused:resource_text", g.res_stats.refused_text);
    ctx.obs("resource_blocks_built_from_text", g.res_stats.via_from_str);
    ctx.obs("resource_blocks_built_with_builder", g.res_stats.via_builder);
    ctx.obs("ipv6_block_lists_touching_v4_mapped", g.res_stats.v6_touching_v4_mapped);
    ctx.obs("constructor_refused:other", g.refused_other);
    if wf.enabled && wf.checked == 0 {
        ctx.notes.push("C11: the expat oracle checked no document in this shard".into());
    }
}

//------------ libFuzzer target c11_xml / literal cases -----------------------

fn judge_fuzz_input(ctx: &mut Ctx, data: &[u8]) {
    let Some((sel, doc)) = data.split_first() else { return };
    let kind = KINDS[*sel as usize % KINDS.len()];
    feed_parser(ctx, kind, "(libFuzzer input)", "libfuzzer", doc);
}

/// One libFuzzer execution of target `c11_xml`: the first octet selects one
/// of the six parsers, the rest is the document. Oracle 3 as in the native
/// stage (`feed_parser`): no panic in the parser, in writing an accepted value
/// and in parsing that again (a library panic propagates, libFuzzer aborts on
/// it); a record of hook H1 panics with a message that starts with the
/// violation signature, so the crash artifact replays natively through
/// `vcheck C11 --case` under the same name.
pub fn fuzz_one(group: &str, data: &[u8]) {
    let _ = group; // one group: "xml"
    let mut ctx = Ctx::new("C11", crate::core::Tier::Thorough, Stage::Native, 0, 0, 1);
    judge_fuzz_input(&mut ctx, data);
    if ctx.violation_count() > 0 {
        let out = ctx.finish();
        let v = &out["violations"][0];
        panic!("{} -- {}", v["sig"].as_str().unwrap_or("C11:fuzz:unnamed"), v["desc"].as_str().unwrap_or(""));
    }
}

/// Seed corpus of target `c11_xml`: documents the library writes for messages
/// from the module's generator (all variants of the three protocols, small
/// sizes first, certificate-bearing ones included when the pool is there),
/// each under the selector octet of its own parser.
fn write_corpus(ctx: &mut Ctx, dir: &str) {
    let gdir = std::path::PathBuf::from(dir).join("c11_xml");
    let _ = std::fs::create_dir_all(&gdir);
    let crypto = if ctx.no_ffi() {
        None
    } else {
        match crate::core::catch(Crypto::build) {
            Ok(Ok(c)) => Some(c),
            _ => {
                ctx.notes.push("C11: seed corpus without certificate-bearing variants (could not build certificates)".into());
                None
            }
        }
    };
    let mut g = Gen { rng: ctx.rng("corpus"), crypto: crypto.as_ref(), refused_uri: 0, refused_handle: 0, res_stats: gen::ResStats::default(), refused_other: 0 };
    let mut written = 0u64;
    let mut per_variant: std::collections::BTreeMap<&'static str, u32> = std::collections::BTreeMap::new();
    for i in 0..4000u32 {
        if written >= 480 {
            break;
        }
        // small shapes for most of the corpus, the normal generator for the rest
        gen::set_small(i % 4 != 3);
        let Ok(case) = crate::core::catch(|| g.case()) else { continue };
        let n = per_variant.entry(case.variant).or_insert(0);
        if *n >= 32 {
            continue;
        }
        let Ok(Ok(doc)) = crate::core::catch(|| case.msg.write()) else { continue };
        if doc.len() + 1 > 12_000 {
            continue;
        }
        let sel = KINDS.iter().position(|k| *k == case.msg.kind()).unwrap_or(0) as u8;
        let mut bytes = vec![sel];
        bytes.extend_from_slice(&doc);
        if std::fs::write(gdir.join(format!("{:016x}", crate::core::fnv64(&bytes))), &bytes).is_ok() {
            written += 1;
            *n += 1;
        }
    }
    gen::set_small(false);
    ctx.drain_chain_hook(|| json!("writing the fuzz seed corpus"));
    ctx.obs("fuzz_corpus_files_written", written);
    ctx.obs("fuzz_corpus_variants", per_variant.len() as u64);
    ctx.evals(written);
    ctx.sig("corpus-written");
    ctx.sig("corpus");
}

fn run_case(ctx: &mut Ctx, case: &Value) {
    if let Some(dir) = case["write_corpus"].as_str() {
        write_corpus(ctx, dir);
        return;
    }
    if case["fuzz_target"].as_str().is_some() {
        let raw = crate::core::unhex(case["hex"].as_str().unwrap_or(""));
        judge_fuzz_input(ctx, &raw);
        ctx.sig("replay");
        if let Some(sel) = raw.first() {
            ctx.sig(&format!("replay|{}", KINDS[*sel as usize % KINDS.len()].name()));
        }
        return;
    }
    ctx.notes.push("C11: case file of unknown shape".into());
}
