//! Independent DER/BER writer and reader (nothing from rpki-rs or bcder).
//!
//! The writer produces TLVs with definite lengths (minimal by default, with
//! knobs for non-minimal and indefinite forms for BER variants). The reader
//! yields a tree with byte offsets; it is what structure-aware mutation and
//! "which bytes are covered by a signature" classification work on.

pub const T_BOOLEAN: u8 = 0x01;
pub const T_INTEGER: u8 = 0x02;
pub const T_BITSTRING: u8 = 0x03;
pub const T_OCTETSTRING: u8 = 0x04;
pub const T_NULL: u8 = 0x05;
pub const T_OID: u8 = 0x06;
pub const T_UTF8: u8 = 0x0C;
pub const T_PRINTABLE: u8 = 0x13;
pub const T_IA5: u8 = 0x16;
pub const T_UTCTIME: u8 = 0x17;
pub const T_GENTIME: u8 = 0x18;
pub const T_SEQUENCE: u8 = 0x30;
pub const T_SET: u8 = 0x31;

/// Context-specific constructed tag [n].
pub const fn ctx(n: u8) -> u8 {
    0xA0 | n
}

/// Context-specific primitive tag [n].
pub const fn ctx_prim(n: u8) -> u8 {
    0x80 | n
}

/// DER definite length bytes (minimal).
pub fn len_bytes(len: usize) -> Vec<u8> {
    if len < 0x80 {
        vec![len as u8]
    } else {
        let mut tmp = Vec::new();
        let mut l = len;
        while l > 0 {
            tmp.push((l & 0xFF) as u8);
            l >>= 8;
        }
        tmp.reverse();
        let mut out = vec![0x80 | tmp.len() as u8];
        out.extend_from_slice(&tmp);
        out
    }
}

/// Non-minimal length using exactly `n` length octets after the 0x8n byte.
pub fn len_bytes_padded(len: usize, n: usize) -> Vec<u8> {
    let mut out = vec![0x80 | n as u8];
    for i in (0..n).rev() {
        out.push(((len >> (8 * i)) & 0xFF) as u8);
    }
    out
}

pub fn tlv(tag: u8, content: &[u8]) -> Vec<u8> {
    let mut out = Vec::with_capacity(content.len() + 6);
    out.push(tag);
    out.extend_from_slice(&len_bytes(content.len()));
    out.extend_from_slice(content);
    out
}

/// BER indefinite-length constructed value.
pub fn tlv_indefinite(tag: u8, content: &[u8]) -> Vec<u8> {
    let mut out = Vec::with_capacity(content.len() + 4);
    out.push(tag | 0x20);
    out.push(0x80);
    out.extend_from_slice(content);
    out.extend_from_slice(&[0, 0]);
    out
}

pub fn concat(parts: &[&[u8]]) -> Vec<u8> {
    let mut out = Vec::new();
    for p in parts {
        out.extend_from_slice(p);
    }
    out
}

pub fn seq(parts: &[&[u8]]) -> Vec<u8> {
    tlv(T_SEQUENCE, &concat(parts))
}

pub fn seq_of(parts: &[Vec<u8>]) -> Vec<u8> {
    let mut body = Vec::new();
    for p in parts {
        body.extend_from_slice(p);
    }
    tlv(T_SEQUENCE, &body)
}

/// SET OF with DER ordering (sorted by encoding).
pub fn set_of_sorted(parts: &[Vec<u8>]) -> Vec<u8> {
    let mut v: Vec<&Vec<u8>> = parts.iter().collect();
    v.sort();
    let mut body = Vec::new();
    for p in v {
        body.extend_from_slice(p);
    }
    tlv(T_SET, &body)
}

/// SET OF in the given order (BER; not DER unless already sorted).
pub fn set_of_unsorted(parts: &[Vec<u8>]) -> Vec<u8> {
    let mut body = Vec::new();
    for p in parts {
        body.extend_from_slice(p);
    }
    tlv(T_SET, &body)
}

/// Minimal two's complement INTEGER from an unsigned big-endian magnitude.
pub fn uint_be(mag: &[u8]) -> Vec<u8> {
    let mut i = 0;
    while i + 1 < mag.len() && mag[i] == 0 {
        i += 1;
    }
    let mut body = Vec::new();
    if mag.is_empty() {
        body.push(0);
    } else {
        if mag[i] & 0x80 != 0 {
            body.push(0);
        }
        body.extend_from_slice(&mag[i..]);
    }
    tlv(T_INTEGER, &body)
}

pub fn uint(v: u128) -> Vec<u8> {
    uint_be(&v.to_be_bytes())
}

pub fn boolean(v: bool) -> Vec<u8> {
    tlv(T_BOOLEAN, &[if v { 0xFF } else { 0 }])
}

pub fn null() -> Vec<u8> {
    vec![T_NULL, 0]
}

pub fn octets(data: &[u8]) -> Vec<u8> {
    tlv(T_OCTETSTRING, data)
}

pub fn bitstring(unused: u8, data: &[u8]) -> Vec<u8> {
    let mut body = vec![unused];
    body.extend_from_slice(data);
    tlv(T_BITSTRING, &body)
}

pub fn ia5(s: &[u8]) -> Vec<u8> {
    tlv(T_IA5, s)
}

/// OID from arcs.
pub fn oid(arcs: &[u64]) -> Vec<u8> {
    let mut body = Vec::new();
    let first = arcs[0] * 40 + arcs[1];
    push_base128(&mut body, first);
    for a in &arcs[2..] {
        push_base128(&mut body, *a);
    }
    tlv(T_OID, &body)
}

fn push_base128(out: &mut Vec<u8>, mut v: u64) {
    let mut tmp = vec![(v & 0x7F) as u8];
    v >>= 7;
    while v > 0 {
        tmp.push(0x80 | (v & 0x7F) as u8);
        v >>= 7;
    }
    tmp.reverse();
    out.extend_from_slice(&tmp);
}

pub fn utctime(s: &str) -> Vec<u8> {
    tlv(T_UTCTIME, s.as_bytes())
}

pub fn gentime(s: &str) -> Vec<u8> {
    tlv(T_GENTIME, s.as_bytes())
}

// well-known OIDs
pub const OID_SHA256: &[u64] = &[2, 16, 840, 1, 101, 3, 4, 2, 1];
pub const OID_RSA_ENCRYPTION: &[u64] = &[1, 2, 840, 113549, 1, 1, 1];
pub const OID_SHA256_WITH_RSA: &[u64] = &[1, 2, 840, 113549, 1, 1, 11];
pub const OID_SIGNED_DATA: &[u64] = &[1, 2, 840, 113549, 1, 7, 2];
pub const OID_CONTENT_TYPE: &[u64] = &[1, 2, 840, 113549, 1, 9, 3];
pub const OID_MESSAGE_DIGEST: &[u64] = &[1, 2, 840, 113549, 1, 9, 4];
pub const OID_SIGNING_TIME: &[u64] = &[1, 2, 840, 113549, 1, 9, 5];
pub const OID_BINARY_SIGNING_TIME: &[u64] = &[1, 2, 840, 113549, 1, 9, 16, 2, 46];
pub const OID_CT_ROA: &[u64] = &[1, 2, 840, 113549, 1, 9, 16, 1, 24];
pub const OID_CT_MANIFEST: &[u64] = &[1, 2, 840, 113549, 1, 9, 16, 1, 26];
pub const OID_CT_XML: &[u64] = &[1, 2, 840, 113549, 1, 9, 16, 1, 28];
pub const OID_CT_ASPA: &[u64] = &[1, 2, 840, 113549, 1, 9, 16, 1, 49];
pub const OID_CT_GHOSTBUSTERS: &[u64] = &[1, 2, 840, 113549, 1, 9, 16, 1, 35];

//------------ Reader --------------------------------------------------------

#[derive(Clone, Debug)]
pub struct Node {
    pub tag: u8,
    /// offset of the tag byte
    pub start: usize,
    /// offset of the first content byte
    pub content_start: usize,
    /// offset one past the last content byte
    pub content_end: usize,
    /// offset one past the whole TLV (differs from content_end for indefinite length)
    pub end: usize,
    pub indefinite: bool,
    pub children: Vec<Node>,
}

impl Node {
    pub fn is_constructed(&self) -> bool {
        self.tag & 0x20 != 0
    }

    pub fn content<'a>(&self, data: &'a [u8]) -> &'a [u8] {
        &data[self.content_start..self.content_end]
    }

    pub fn whole<'a>(&self, data: &'a [u8]) -> &'a [u8] {
        &data[self.start..self.end]
    }

    pub fn child(&self, idx: usize) -> Option<&Node> {
        self.children.get(idx)
    }

    /// Follows a path of child indexes.
    pub fn path(&self, path: &[usize]) -> Option<&Node> {
        let mut n = self;
        for &i in path {
            n = n.children.get(i)?;
        }
        Some(n)
    }

    /// All nodes in pre-order.
    pub fn walk<'a>(&'a self, out: &mut Vec<&'a Node>) {
        out.push(self);
        for c in &self.children {
            c.walk(out);
        }
    }
}

/// Parses one TLV at `pos` (single-byte tags only; enough for RPKI objects).
/// `depth` guards recursion. Returns None on malformed input.
pub fn parse_at(data: &[u8], pos: usize, depth: usize) -> Option<Node> {
    if depth > 64 || pos + 2 > data.len() {
        return None;
    }
    let tag = data[pos];
    if tag & 0x1F == 0x1F {
        return None;
    }
    let l0 = data[pos + 1];
    let (content_start, len, indefinite) = if l0 < 0x80 {
        (pos + 2, l0 as usize, false)
    } else if l0 == 0x80 {
        (pos + 2, 0, true)
    } else {
        let n = (l0 & 0x7F) as usize;
        if n > 4 || pos + 2 + n > data.len() {
            return None;
        }
        let mut len = 0usize;
        for i in 0..n {
            len = (len << 8) | data[pos + 2 + i] as usize;
        }
        (pos + 2 + n, len, false)
    };
    let constructed = tag & 0x20 != 0;
    if indefinite {
        if !constructed {
            return None;
        }
        let mut children = Vec::new();
        let mut p = content_start;
        loop {
            if p + 2 > data.len() {
                return None;
            }
            if data[p] == 0 && data[p + 1] == 0 {
                return Some(Node {
                    tag,
                    start: pos,
                    content_start,
                    content_end: p,
                    end: p + 2,
                    indefinite: true,
                    children,
                });
            }
            let c = parse_at(data, p, depth + 1)?;
            p = c.end;
            children.push(c);
        }
    }
    let content_end = content_start.checked_add(len)?;
    if content_end > data.len() {
        return None;
    }
    let mut children = Vec::new();
    if constructed {
        let mut p = content_start;
        while p < content_end {
            let c = parse_at(data, p, depth + 1)?;
            if c.end > content_end {
                return None;
            }
            p = c.end;
            children.push(c);
        }
    }
    Some(Node {
        tag,
        start: pos,
        content_start,
        content_end,
        end: content_end,
        indefinite: false,
        children,
    })
}

pub fn parse(data: &[u8]) -> Option<Node> {
    let n = parse_at(data, 0, 0)?;
    if n.end == data.len() {
        Some(n)
    } else {
        None
    }
}

/// Re-encodes `data` with the TLV at `node` replaced by `replacement`, fixing
/// up the (definite) lengths of all ancestors. `root` must be the parse of `data`.
pub fn replace_node(data: &[u8], root: &Node, path: &[usize], replacement: &[u8]) -> Vec<u8> {
    fn rec(data: &[u8], node: &Node, path: &[usize], replacement: &[u8]) -> Vec<u8> {
        if path.is_empty() {
            return replacement.to_vec();
        }
        let mut body = Vec::new();
        for (i, c) in node.children.iter().enumerate() {
            if i == path[0] {
                body.extend_from_slice(&rec(data, c, &path[1..], replacement));
            } else {
                body.extend_from_slice(c.whole(data));
            }
        }
        tlv(node.tag, &body)
    }
    rec(data, root, path, replacement)
}

#[cfg(test)]
mod test {
    use super::*;

    #[test]
    fn roundtrip() {
        let inner = seq(&[&uint(5), &octets(b"abc"), &oid(OID_SHA256)]);
        let outer = seq(&[&inner, &bitstring(0, &[1, 2, 3]), &uint(0x80)]);
        let n = parse(&outer).unwrap();
        assert_eq!(n.children.len(), 3);
        assert_eq!(n.children[0].children.len(), 3);
        assert_eq!(n.children[2].content(&outer), &[0, 0x80]);
        assert_eq!(oid(OID_SHA256), vec![0x06, 0x09, 0x60, 0x86, 0x48, 0x01, 0x65, 0x03, 0x04, 0x02, 0x01]);
        let big = octets(&vec![0u8; 300]);
        assert_eq!(&big[..4], &[0x04, 0x82, 0x01, 0x2C]);
        let rep = replace_node(&outer, &n, &[0, 0], &uint(0x1_0000));
        let n2 = parse(&rep).unwrap();
        assert_eq!(n2.children[0].children[0].content(&rep), &[1, 0, 0]);
    }
}
