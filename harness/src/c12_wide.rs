//! C12, second part (declared inside `c12.rs`, shares its reference model).
//!
//! (a) **Every constructor door, text with characters outside ASCII.** A URI
//! value can be made from octets (`from_slice`, `from_bytes`, `from_string`,
//! `TryFrom<String>`), from a `&str` (`from_str`, `str::parse`) and through
//! `Deserialize` (token format of the harness with borrowed / transient /
//! owned strings in both kinds of format, `serde_json` from text, octets,
//! reader, `Value`, with raw and with `\uXXXX`-escaped strings, serde's own
//! value deserializers). The statement speaks about *an accepted URI*, not
//! about a particular constructor: whatever any door accepts keeps its text,
//! has only permitted characters (table of the harness) and re-parses from its
//! own octets. The texts here are valid URIs in which one position (every
//! position of scheme, authority, module, path, in turn) carries a character
//! outside ASCII: all of U+0080..U+00FF, for every permitted ASCII character
//! the characters of seven other planes with the same low octet, characters
//! whose case mapping or compatibility form is ASCII (Kelvin sign, long s,
//! dotless i, fullwidth forms, one/two dot leader, division slash), invisible
//! ones, astral ones whose UTF-16 units end in permitted octets.
//!
//! (b) **Large early parts.** Authority and module name (rsync) and authority
//! (https) of 255 .. 131073 octets (thorough: 1 MiB), once with the component
//! that long and once with the *offset of its end* at that value, with a short
//! or a long path; members differ in the case of single letters before and
//! after the 256th, 4096th, 32768th, 65536th, 131072nd octet; every member
//! under the single-URI laws, all ordered pairs, parent chains, join; base
//! and one variant through every door.

use super::*;
use serde::de::value::{BorrowedStrDeserializer, Error as ValueError};
use serde::de::{DeserializeOwned, IntoDeserializer};
use std::borrow::Cow;
use std::fmt::Write as _;

//------------ the two URI types behind one interface ---------------------------

pub(super) trait Uri: Sized + Clone + Eq + Hash + FromStr + TryFrom<String> + DeserializeOwned {
    const SCHEME: &'static str;
    fn slice_door(b: &[u8]) -> Option<Self>;
    fn bytes_door(b: Bytes) -> Option<Self>;
    fn string_door(s: String) -> Option<Self>;
    fn octets(&self) -> &[u8];
    /// value laws with respect to `text` and re-parse laws (c12.rs)
    fn laws(&self, text: &[u8]) -> Law;
}

impl Uri for Rsync {
    const SCHEME: &'static str = "rsync";
    fn slice_door(b: &[u8]) -> Option<Self> {
        Rsync::from_slice(b).ok()
    }
    fn bytes_door(b: Bytes) -> Option<Self> {
        Rsync::from_bytes(b).ok()
    }
    fn string_door(s: String) -> Option<Self> {
        Rsync::from_string(s).ok()
    }
    fn octets(&self) -> &[u8] {
        self.as_slice()
    }
    fn laws(&self, text: &[u8]) -> Law {
        rsync_value_laws(self, text).and_then(|_| rsync_reparse_laws(self))
    }
}

impl Uri for Https {
    const SCHEME: &'static str = "https";
    fn slice_door(b: &[u8]) -> Option<Self> {
        Https::from_slice(b).ok()
    }
    fn bytes_door(b: Bytes) -> Option<Self> {
        Https::from_bytes(b).ok()
    }
    fn string_door(s: String) -> Option<Self> {
        Https::from_string(s).ok()
    }
    fn octets(&self) -> &[u8] {
        self.as_slice()
    }
    fn laws(&self, text: &[u8]) -> Law {
        https_value_laws(self, text).and_then(|_| https_reparse_laws(self))
    }
}

//------------ doors -------------------------------------------------------------

#[derive(Clone, Copy, Debug, PartialEq, Eq)]
pub(super) enum DoorKind {
    Octets,
    Str,
    Serde,
}

impl DoorKind {
    fn idx(self) -> usize {
        match self {
            DoorKind::Octets => 0,
            DoorKind::Str => 1,
            DoorKind::Serde => 2,
        }
    }
}

#[derive(Clone, Copy, PartialEq, Eq)]
enum Esc {
    /// only what JSON demands (quote, backslash, controls)
    Raw,
    /// everything outside ASCII as \uXXXX (surrogate pairs beyond the BMP)
    NonAscii,
    /// the first character only: the parser has to assemble the string in its own buffer
    First,
    /// every character
    All,
}

/// A JSON string literal for `s`, written here (not by serde_json).
fn json_lit(s: &str, mode: Esc) -> String {
    let mut out = String::with_capacity(s.len() + 8);
    out.push('"');
    for (i, ch) in s.chars().enumerate() {
        let must = ch == '"' || ch == '\\' || (ch as u32) < 0x20;
        let esc = must
            || match mode {
                Esc::Raw => false,
                Esc::NonAscii => !ch.is_ascii(),
                Esc::First => i == 0,
                Esc::All => true,
            };
        if esc {
            let mut buf = [0u16; 2];
            for u in ch.encode_utf16(&mut buf) {
                let _ = write!(out, "\\u{:04x}", u);
            }
        } else {
            out.push(ch);
        }
    }
    out.push('"');
    out
}

/// Every way the text `s` can become a value of type `U`.
pub(super) fn all_doors<U: Uri>(s: &str) -> Vec<(&'static str, DoorKind, Option<U>)> {
    use crate::serde_tok::{from_tok, De, Strings, Tok};
    use DoorKind::*;
    let mut v: Vec<(&'static str, DoorKind, Option<U>)> = Vec::with_capacity(40);
    v.push(("from_slice", Octets, U::slice_door(s.as_bytes())));
    v.push(("from_bytes", Octets, U::bytes_door(Bytes::copy_from_slice(s.as_bytes()))));
    v.push(("from_bytes-of-string", Octets, U::bytes_door(Bytes::from(s.to_string()))));
    v.push(("from_string", Octets, U::string_door(s.to_string())));
    v.push(("try_from", Octets, U::try_from(s.to_string()).ok()));
    v.push(("try_into", Octets, TryInto::<U>::try_into(s.to_string()).ok()));
    v.push(("from_str", Str, U::from_str(s).ok()));
    v.push(("str-parse", Str, s.parse::<U>().ok()));
    // the token format of the harness
    let tok = Tok::Str(s.to_string());
    for (name, hr, strings) in [
        ("serde-tok-hr-borrowed", true, Strings::Borrowed),
        ("serde-tok-hr-transient", true, Strings::Transient),
        ("serde-tok-hr-owned", true, Strings::Owned),
        ("serde-tok-compact-borrowed", false, Strings::Borrowed),
        ("serde-tok-compact-transient", false, Strings::Transient),
        ("serde-tok-compact-owned", false, Strings::Owned),
    ] {
        v.push((name, Serde, from_tok::<U>(&tok, De { human_readable: hr, strings, structs_as_seq: false }).ok()));
    }
    let btok = Tok::Bytes(s.as_bytes().to_vec());
    for (name, strings) in [
        ("serde-tok-bytes-borrowed", Strings::Borrowed),
        ("serde-tok-bytes-transient", Strings::Transient),
        ("serde-tok-bytes-owned", Strings::Owned),
    ] {
        v.push((name, Serde, from_tok::<U>(&btok, De { human_readable: false, strings, structs_as_seq: false }).ok()));
    }
    // serde's own value deserializers
    v.push(("serde-str-deserializer", Serde, U::deserialize(IntoDeserializer::<ValueError>::into_deserializer(s)).ok()));
    v.push(("serde-string-deserializer", Serde, U::deserialize(IntoDeserializer::<ValueError>::into_deserializer(s.to_string())).ok()));
    v.push(("serde-borrowed-str-deserializer", Serde, U::deserialize(BorrowedStrDeserializer::<ValueError>::new(s)).ok()));
    v.push(("serde-cow-borrowed-deserializer", Serde, U::deserialize(IntoDeserializer::<ValueError>::into_deserializer(Cow::Borrowed(s))).ok()));
    v.push(("serde-cow-owned-deserializer", Serde, U::deserialize(IntoDeserializer::<ValueError>::into_deserializer(Cow::<str>::Owned(s.to_string()))).ok()));
    // serde_json: text, octets, reader, Value; raw and escaped strings
    let raw = json_lit(s, Esc::Raw);
    v.push(("json-from_str-raw", Serde, serde_json::from_str::<U>(&raw).ok()));
    v.push(("json-from_slice-raw", Serde, serde_json::from_slice::<U>(raw.as_bytes()).ok()));
    v.push(("json-from_reader-raw", Serde, serde_json::from_reader::<_, U>(raw.as_bytes()).ok()));
    let first = json_lit(s, Esc::First);
    v.push(("json-from_str-first-escaped", Serde, serde_json::from_str::<U>(&first).ok()));
    v.push(("json-from_slice-first-escaped", Serde, serde_json::from_slice::<U>(first.as_bytes()).ok()));
    if !s.is_ascii() {
        let esc = json_lit(s, Esc::NonAscii);
        v.push(("json-from_str-escaped", Serde, serde_json::from_str::<U>(&esc).ok()));
        v.push(("json-from_slice-escaped", Serde, serde_json::from_slice::<U>(esc.as_bytes()).ok()));
        v.push(("json-from_reader-escaped", Serde, serde_json::from_reader::<_, U>(esc.as_bytes()).ok()));
    }
    if s.len() <= 20_000 {
        let all = json_lit(s, Esc::All);
        v.push(("json-from_str-all-escaped", Serde, serde_json::from_str::<U>(&all).ok()));
        v.push(("json-from_reader-all-escaped", Serde, serde_json::from_reader::<_, U>(all.as_bytes()).ok()));
    }
    let val = Value::String(s.to_string());
    v.push(("json-ref-value", Serde, U::deserialize(&val).ok()));
    v.push(("json-from_value", Serde, serde_json::from_value::<U>(val).ok()));
    let arr = format!("[{raw}]");
    v.push(("json-in-array", Serde, serde_json::from_str::<Vec<U>>(&arr).ok().and_then(|mut a| if a.len() == 1 { a.pop() } else { None })));
    let obj = format!("{{\"u\":{first}}}");
    v.push((
        "json-in-object",
        Serde,
        serde_json::from_str::<std::collections::BTreeMap<String, U>>(&obj).ok().and_then(|mut m| m.remove("u")),
    ));
    v
}

/// What the doors did with one text.
#[derive(Default, Clone, Copy)]
pub(super) struct DoorTally {
    pub calls: u64,
    /// accepted / rejected per kind of door (octets, str, serde)
    pub accepted: [u64; 3],
    pub rejected: [u64; 3],
}

impl DoorTally {
    fn any_accepted(&self) -> bool {
        self.accepted.iter().any(|n| *n > 0)
    }
    fn disagree(&self) -> bool {
        // the serde doors that are fed octets (token `Bytes`) are not counted: a format may refuse them
        self.any_accepted() && (self.rejected[0] > 0 || self.rejected[1] > 0)
    }
}

/// The laws of the statement for whatever any door makes of `s`. The
/// expectation never comes from a door: the text is `s`, the permitted
/// characters and the structure are the harness' own, equality with the
/// octet door's value is the statement's "equal URIs" (same text).
pub(super) fn door_laws<U: Uri>(s: &str, f: &mut Findings, accepted_by: &mut Vec<&'static str>) -> DoorTally {
    let text = s.as_bytes();
    let doors = all_doors::<U>(s);
    let mut t = DoorTally::default();
    let reference: Option<U> = doors[0].2.clone();
    for (name, kind, val) in doors.iter() {
        t.calls += 1;
        let v = match val {
            Some(v) => v,
            None => {
                if !name.starts_with("serde-tok-bytes") {
                    t.rejected[kind.idx()] += 1;
                }
                continue;
            }
        };
        t.accepted[kind.idx()] += 1;
        accepted_by.push(name);
        let scheme = U::SCHEME;
        // look at the octets first: as_str() of a value whose octets are not UTF-8 must not be touched
        if v.octets() != text {
            f.push(
                format!("C12:{scheme}-parse-{name}:text-changed"),
                format!("{scheme} URI accepted by {name}: its octets are not the text it was made from"),
                json!({"input": show(text), "value": show(v.octets())}),
            );
            continue;
        }
        if let Err((l, m)) = v.laws(text) {
            f.push(format!("C12:{scheme}-parse-{name}:{l}"), format!("{scheme} URI accepted by {name}: {m}"), json!({"input": show(text)}));
            continue;
        }
        if let Some(u) = &reference {
            if v != u || u != v || hash_of(v) != hash_of(u) {
                f.push(
                    format!("C12:{scheme}-parse-{name}:differs-from-from_slice"),
                    "two constructors make unequal values (or values with different hashes) of the same text".into(),
                    json!({"input": show(text)}),
                );
            }
        }
    }
    t
}

//------------ (a) characters outside ASCII ---------------------------------------

/// Valid URIs that receive the foreign character. Three rsync and three https
/// texts: ordinary, upper-case scheme with a port and an empty path, minimal.
const BASES: [&str; 6] = [
    "rsync://rpki.example.net/repo/ta/root.cer",
    "RSYNC://Host:873/m/",
    "rsync://h/m/x",
    "https://rrdp.example.net/notify/n.xml",
    "HTTPS://Host:443",
    "https://h/p/",
];

/// Characters picked by hand: Latin-1 (controls of the C1 block, no-break
/// space, soft hyphen, letters), letters of other scripts that look like ASCII
/// letters, characters whose lower / upper case or compatibility form is an
/// ASCII character, dots and slashes of other blocks, invisible and
/// directional characters, the ends of the planes, astral characters.
const NAMED: [u32; 62] = [
    0x80, 0x85, 0xa0, 0xad, 0xc4, 0xdf, 0xe4, 0xff, 0x100, 0x130, 0x131, 0x17f, 0x1c5, 0x2bc, 0x301, 0x338, 0x37e, 0x3bf, 0x430,
    0x436, 0x43e, 0x441, 0x5d0, 0x7ff, 0x800, 0x1e9e, 0x2010, 0x2011, 0x200b, 0x200d, 0x2024, 0x2025, 0x2026, 0x2028, 0x202e, 0x2044,
    0x2060, 0x20ac, 0x2126, 0x212a, 0x212b, 0x2215, 0x2212, 0x3002, 0x4e2d, 0xd7ff, 0xe000, 0xfe52, 0xfe55, 0xfeff, 0xff0e, 0xff0f,
    0xff1a, 0xff21, 0xff41, 0xfffd, 0xffff, 0x10000, 0x1d41a, 0x1f431, 0x1f600, 0x10ffff,
];

/// Planes (high part of the code point) under which every permitted ASCII
/// octet is offered as the *low octet* of a character.
const PLANES: [u32; 7] = [0x0100, 0x0400, 0x2100, 0x4e00, 0xff00, 0x1_f400, 0x10_f000];

#[derive(Clone, Copy, PartialEq, Eq, Debug)]
enum Op {
    Replace,
    Insert,
}

#[derive(Clone, Copy, Debug)]
struct Exotic {
    base: usize,
    /// character index into the base (== octet index, the bases are ASCII)
    pos: usize,
    op: Op,
    ch: char,
    class: &'static str,
}

fn part_of(base: &[u8], pos: usize) -> &'static str {
    if pos >= base.len() {
        return "end";
    }
    if pos < 5 {
        return "scheme";
    }
    if pos < 8 {
        return "scheme-delimiter";
    }
    let aend = authority_end(base);
    if pos < aend {
        return "authority";
    }
    if base[..5].eq_ignore_ascii_case(b"https") {
        return "path";
    }
    match model_rsync(base) {
        Ok(p) if pos == aend || pos == p.module_end => "slash",
        Ok(p) if pos < p.module_end => "module",
        _ => "path",
    }
}

fn exotic_cases() -> Vec<Exotic> {
    let mut v = Vec::new();
    for (bi, base) in BASES.iter().enumerate() {
        for pos in 0..=base.len() {
            for op in [Op::Replace, Op::Insert] {
                if op == Op::Replace && pos == base.len() {
                    continue;
                }
                for &cp in NAMED.iter() {
                    if let Some(ch) = char::from_u32(cp) {
                        let class = if cp < 0x100 { "latin-1" } else if cp < 0x10000 { "named-bmp" } else { "named-astral" };
                        v.push(Exotic { base: bi, pos, op, ch, class });
                    }
                }
            }
        }
    }
    // all of Latin-1 at every position of the two ordinary bases
    for bi in [0usize, 3] {
        for pos in 0..BASES[bi].len() {
            for cp in 0x80u32..=0xff {
                v.push(Exotic { base: bi, pos, op: Op::Replace, ch: char::from_u32(cp).unwrap(), class: "latin-1" });
            }
        }
    }
    // every permitted octet as the low octet of a character of seven other planes: in place of its
    // ASCII twin wherever the base has it, and at three more positions that depend on the character
    for p in 0x21u8..0x7f {
        if forbidden(p) {
            continue;
        }
        for &plane in PLANES.iter() {
            let Some(ch) = char::from_u32(plane | p as u32) else { continue };
            for bi in [0usize, 3] {
                let base = BASES[bi].as_bytes();
                let mut at: Vec<usize> = (0..base.len()).filter(|&i| base[i] == p).collect();
                let h = crate::core::fnv64(&(plane | p as u32).to_le_bytes()) as usize;
                at.push(h % 5);
                at.push(8 + (h / 7) % (base.len() - 8));
                at.push(8 + (h / 1009) % (base.len() - 8));
                at.dedup();
                for pos in at {
                    v.push(Exotic { base: bi, pos, op: Op::Replace, ch, class: "low-octet-twin" });
                }
            }
        }
    }
    v
}

fn exotic_text(e: &Exotic) -> String {
    let base = BASES[e.base];
    let mut s = String::with_capacity(base.len() + 4);
    s.push_str(&base[..e.pos]);
    s.push(e.ch);
    match e.op {
        Op::Replace => s.push_str(&base[e.pos + 1..]),
        Op::Insert => s.push_str(&base[e.pos..]),
    }
    s
}

/// A random character outside ASCII, by UTF-8 length.
fn rand_foreign_char(rng: &mut Rng) -> char {
    loop {
        let cp = match rng.below(4) {
            0 => rng.range(0x80, 0x7ff),
            1 => rng.range(0x800, 0xffff),
            2 => rng.range(0x1_0000, 0x10_ffff),
            // low octet forced to a permitted character
            _ => {
                let p = loop {
                    let p = rng.range(0x21, 0x7e) as u8;
                    if !forbidden(p) {
                        break p;
                    }
                };
                (rng.range(1, 0x10ff) << 8) | p as u64
            }
        } as u32;
        if let Some(ch) = char::from_u32(cp) {
            return ch;
        }
    }
}

struct ExoticStats {
    texts: u64,
    calls: u64,
    accepted_somewhere: u64,
    rejected_everywhere: u64,
    accepted: [u64; 3],
    rejected: [u64; 3],
}

/// One text with characters outside ASCII through every door of both types.
fn exotic_one(ctx: &mut Ctx, c: &mut Counters, st: &mut ExoticStats, s: &str, class_sig: &str) {
    let res = ctx.no_panic("parse-non-ascii", || json!({"input": show(s.as_bytes())}), || {
        let mut f = Findings::default();
        let mut by: Vec<&'static str> = Vec::new();
        let a = door_laws::<Rsync>(s, &mut f, &mut by);
        let b = door_laws::<Https>(s, &mut f, &mut by);
        (f, a, b, by)
    });
    let Some((f, a, b, by)) = res else { return };
    st.texts += 1;
    st.calls += a.calls + b.calls;
    c.evals += a.calls + b.calls;
    for k in 0..3 {
        st.accepted[k] += a.accepted[k] + b.accepted[k];
        st.rejected[k] += a.rejected[k] + b.rejected[k];
    }
    let any = a.any_accepted() || b.any_accepted();
    if any {
        st.accepted_somewhere += 1;
        if a.disagree() || b.disagree() {
            ctx.obs("non_ascii_texts_on_which_doors_disagree", 1);
        }
        if ctx.wants_sample("text outside ASCII accepted by a door") {
            ctx.sample("text outside ASCII accepted by a door", || json!({"input": s, "hex": hex(s.as_bytes()), "accepted_by": by}));
        }
    } else {
        st.rejected_everywhere += 1;
    }
    ctx.sig(&format!("non-ascii {class_sig} outcome={}", if any { "accepted-by-some-door" } else { "rejected-by-every-door" }));
    f.flush(ctx);
}

pub(super) fn non_ascii_doors(ctx: &mut Ctx, c: &mut Counters) {
    let mut st = ExoticStats { texts: 0, calls: 0, accepted_somewhere: 0, rejected_everywhere: 0, accepted: [0; 3], rejected: [0; 3] };
    let mut rng = ctx.rng("non-ascii-doors");

    // controls: the unchanged bases through every door (shows which doors accept anything at all)
    if ctx.shard == 0 || ctx.is_miri() {
        let mut never: std::collections::BTreeMap<&'static str, bool> = std::collections::BTreeMap::new();
        for (bi, base) in BASES.iter().enumerate() {
            if ctx.is_miri() && bi != (ctx.shard as usize + ctx.seed as usize) % BASES.len() {
                continue;
            }
            let res = ctx.no_panic("parse-door-control", || json!({"input": base}), || {
                let mut f = Findings::default();
                let mut by = Vec::new();
                let t = if bi < 3 { door_laws::<Rsync>(base, &mut f, &mut by) } else { door_laws::<Https>(base, &mut f, &mut by) };
                let all: Vec<&'static str> = if bi < 3 { all_doors::<Rsync>(base).iter().map(|d| d.0).collect() } else { all_doors::<Https>(base).iter().map(|d| d.0).collect() };
                (f, by, t, all)
            });
            if let Some((f, by, t, all)) = res {
                c.evals += t.calls;
                for name in all {
                    let e = never.entry(name).or_insert(true);
                    if by.contains(&name) {
                        *e = false;
                    }
                }
                ctx.obs("plain_uri_door_acceptances", by.len() as u64);
                f.flush(ctx);
            }
        }
        let silent: Vec<&str> = never.iter().filter(|(_, n)| **n).map(|(k, _)| *k).collect();
        if !silent.is_empty() {
            ctx.obs_max("doors_that_accept_no_plain_uri", silent.len() as u64);
            if ctx.shard == 0 {
                ctx.notes.push(format!(
                    "doors that did not accept any of the plain URIs (nothing can be observed through them; a format that hands the visitor octets instead of a string is one): {}",
                    silent.join(", ")
                ));
            }
        }
    }

    if ctx.is_miri() {
        // a handful of cases per shard, drawn from the same space (the list itself is too long to build here)
        let n = if ctx.tier == Tier::Thorough { 10 } else { 3 };
        for k in 0..n {
            let base = rng.usize_below(BASES.len());
            let pos = rng.usize_below(BASES[base].len());
            let e = if k % 2 == 0 {
                let cp = *rng.pick(&NAMED);
                let class = if cp < 0x100 { "latin-1" } else if cp < 0x10000 { "named-bmp" } else { "named-astral" };
                Exotic { base, pos, op: if rng.bool() { Op::Replace } else { Op::Insert }, ch: char::from_u32(cp).unwrap_or('\u{436}'), class }
            } else {
                let p = BASES[base].as_bytes()[pos];
                let p = if forbidden(p) { b'a' } else { p };
                Exotic { base, pos, op: Op::Replace, ch: char::from_u32(*rng.pick(&PLANES) | p as u32).unwrap_or('\u{436}'), class: "low-octet-twin" }
            };
            let s = exotic_text(&e);
            let class = format!("{} part={} op={:?} class={} utf8-len={}", &BASES[e.base][..5].to_ascii_lowercase(), part_of(BASES[e.base].as_bytes(), e.pos), e.op, e.class, e.ch.len_utf8());
            exotic_one(ctx, c, &mut st, &s, &class);
        }
    } else {
        let cases = exotic_cases();
        ctx.obs_max("non_ascii_systematic_cases", cases.len() as u64);
        if ctx.shard == 0 {
            // one literal case for the reader (the evidence keeps the samples of the first shard)
            for (bi, ch) in [(0usize, '\u{212a}'), (3, '\u{ff0f}')] {
                let s = exotic_text(&Exotic { base: bi, pos: if bi == 0 { 8 } else { 24 }, op: Op::Replace, ch, class: "named-bmp" });
                let (r, h) = (all_doors::<Rsync>(&s), all_doors::<Https>(&s));
                ctx.sample("text outside ASCII through every door", || json!({
                    "input": s, "hex": hex(s.as_bytes()), "doors_per_type": r.len(),
                    "rsync_accepted_by": r.iter().filter(|d| d.2.is_some()).map(|d| d.0).collect::<Vec<_>>(),
                    "https_accepted_by": h.iter().filter(|d| d.2.is_some()).map(|d| d.0).collect::<Vec<_>>(),
                }));
            }
        }
        let stride: u64 = match ctx.stage {
            Stage::Native => 1,
            _ => 3,
        };
        for (idx, e) in cases.iter().enumerate() {
            let idx = idx as u64;
            if !ctx.mine(idx) || (idx / ctx.nshards.max(1)) % stride != 0 {
                continue;
            }
            let s = exotic_text(e);
            let class = format!("{} part={} op={:?} class={} utf8-len={}", &BASES[e.base][..5].to_ascii_lowercase(), part_of(BASES[e.base].as_bytes(), e.pos), e.op, e.class, e.ch.len_utf8());
            exotic_one(ctx, c, &mut st, &s, &class);
        }
        // random: members of the random URI families with one to three characters replaced / inserted
        let n = ctx.stage_budget((4_000, 400_000), 1_000, 0, 0);
        let mut pool: Vec<Vec<u8>> = Vec::new();
        for _ in 0..n {
            if pool.is_empty() {
                pool = if rng.bool() { rsync_family(&mut rng) } else { https_family(&mut rng) };
                pool.retain(|t| t.is_ascii());
                continue;
            }
            let t = pool.pop().unwrap();
            let mut chars: Vec<char> = t.iter().map(|b| *b as char).collect();
            let k = rng.range(1, 3);
            for _ in 0..k {
                let ch = rand_foreign_char(&mut rng);
                let pos = rng.usize_below(chars.len() + 1);
                if pos < chars.len() && rng.chance(2, 3) {
                    chars[pos] = ch;
                } else {
                    chars.insert(pos, ch);
                }
            }
            let s: String = chars.into_iter().collect();
            let class = format!("{} random-family-member foreign-chars={k}", if t.len() >= 5 && t[..5].eq_ignore_ascii_case(b"rsync") { "rsync" } else { "https" });
            exotic_one(ctx, c, &mut st, &s, &class);
        }
    }
    ctx.obs("non_ascii_texts", st.texts);
    ctx.obs("non_ascii_door_calls", st.calls);
    ctx.obs("non_ascii_texts_accepted_by_some_door", st.accepted_somewhere);
    ctx.obs("non_ascii_texts_rejected_by_every_door", st.rejected_everywhere);
    for (k, name) in ["octet", "str", "serde"].iter().enumerate() {
        ctx.obs(&format!("non_ascii_{name}_doors_accepted"), st.accepted[k]);
        ctx.obs(&format!("non_ascii_{name}_doors_rejected"), st.rejected[k]);
    }
}

//------------ (b) large early parts ------------------------------------------------

#[derive(Clone, Copy, Debug, PartialEq, Eq)]
enum Early {
    Authority,
    Module,
    /// authority and module name both of the given length
    Both,
}

#[derive(Clone, Copy, Debug)]
struct WideSpec {
    rsync: bool,
    comp: Early,
    len: usize,
    /// the offset of the end of the component is `len` (else: the component is `len` octets long)
    absolute: bool,
}

/// Offsets around which a narrow integer, a fixed buffer or a bounded scan would change behaviour.
const THRESHOLDS: [usize; 7] = [65536, 32768, 131072, 4096, 256, 16384, 1 << 20];

fn wide_lengths(ctx: &Ctx) -> Vec<usize> {
    match (ctx.stage, ctx.tier) {
        (Stage::Miri, _) => vec![255, 256],
        (Stage::Valgrind, _) => vec![255, 256, 4096, 65536],
        (Stage::Asan, _) => vec![255, 256, 4095, 4096, 32768, 65534, 65535, 65536, 65537, 70000],
        (_, Tier::Quick) => vec![
            255, 256, 257, 4095, 4096, 4097, 16384, 32767, 32768, 32769, 65534, 65535, 65536, 65537, 65545, 70000, 131071, 131072, 131073,
        ],
        (_, Tier::Thorough) => {
            let mut v = vec![70000, 100_000, 196_608, 1 << 20, (1 << 20) + 1];
            for k in 8..=17 {
                for d in [-2i64, -1, 0, 1, 2, 9, 10] {
                    v.push(((1i64 << k) + d) as usize);
                }
            }
            v.sort_unstable();
            v.dedup();
            v
        }
    }
}

struct WideFamily {
    texts: Vec<Vec<u8>>,
    /// ranges of the long component(s)
    comps: Vec<(usize, usize)>,
    flips: Vec<usize>,
    path_len: usize,
}

fn wide_family(rng: &mut Rng, spec: WideSpec, max_flips: usize, full: bool) -> Option<WideFamily> {
    let short_auth = rand_token(rng, b"abcxyzABCXYZ0129", 1, 6);
    let short_module = rand_token(rng, b"abcxyzABCXYZ0129", 1, 5);
    let scheme: &[u8] = if spec.rsync { b"rsync://" } else { b"https://" };
    let auth_len = match spec.comp {
        Early::Authority | Early::Both => {
            if spec.absolute { spec.len.checked_sub(8)? } else { spec.len }
        }
        Early::Module => short_auth.len(),
    };
    if auth_len == 0 {
        return None;
    }
    let module_start = 8 + auth_len + 1;
    let module_len = match spec.comp {
        Early::Authority => short_module.len(),
        Early::Module => {
            if spec.absolute { spec.len.checked_sub(module_start)? } else { spec.len }
        }
        Early::Both => spec.len,
    };
    if spec.rsync && module_len == 0 {
        return None;
    }
    let authority = match spec.comp {
        Early::Module => short_auth,
        _ => {
            let mut t = long_token(rng, auth_len, b".-");
            if auth_len > 6 && rng.chance(1, 4) {
                let n = t.len();
                t[n - 4] = b':';
                for c in t[n - 3..].iter_mut() {
                    *c = b'0' + rng.below(10) as u8;
                }
                if !t[n - 5].is_ascii_alphanumeric() {
                    t[n - 5] = b'a';
                }
            }
            t
        }
    };
    let module = match spec.comp {
        Early::Authority => short_module,
        _ => long_token(rng, module_len, b"-_."),
    };
    // the path: short, a few hundred octets, or longer than 65536 octets itself
    let path: Vec<u8> = match rng.below(if spec.len >= 60_000 { 5 } else { 4 }) {
        0 | 1 => b"p/q.cer".to_vec(),
        2 => long_token(rng, 300, b"/._-"),
        3 => long_token(rng, 5_000, b"/._-"),
        _ => long_token(rng, 70_000, b"/._-"),
    };
    let mut base = scheme.to_vec();
    base.extend_from_slice(&authority);
    let mut comps = Vec::new();
    if spec.comp != Early::Module {
        comps.push((8, 8 + auth_len));
    }
    if spec.rsync {
        base.push(b'/');
        let ms = base.len();
        base.extend_from_slice(&module);
        if spec.comp != Early::Authority {
            comps.push((ms, ms + module_len));
        }
        base.push(b'/');
        base.extend_from_slice(&path);
    } else if rng.chance(5, 6) {
        base.push(b'/');
        base.extend_from_slice(&path);
    }
    let path_start = if spec.rsync { 8 + auth_len + 1 + module_len + 1 } else { 8 + auth_len };
    let path_len = base.len().saturating_sub(path_start);

    // single-letter case flips inside the long component(s): both ends, then both sides of every threshold
    // counted from the start of the text, from the start of the component and from its end
    let mut want: Vec<(usize, usize, usize)> = Vec::new(); // (position, comp start, comp end)
    for &(s, e) in comps.iter() {
        want.push((s, s, e));
        want.push((e - 1, s, e));
    }
    for &t in THRESHOLDS.iter() {
        for &(s, e) in comps.iter() {
            for p in [t.wrapping_sub(2), t - 1, t, t + 1, s + t - 1, s + t] {
                want.push((p, s, e));
            }
            if let Some(p) = e.checked_sub(t) {
                want.push((p, s, e));
            }
        }
    }
    for &(s, e) in comps.iter() {
        want.push((s + (e - s) / 2, s, e));
        want.push((s + 1, s, e));
    }
    let mut flips: Vec<usize> = Vec::new();
    for (p, s, e) in want {
        if p < s || p >= e {
            continue;
        }
        let q = (p..e).find(|&i| base[i].is_ascii_alphabetic()).or_else(|| (s..p).rev().find(|&i| base[i].is_ascii_alphabetic()));
        if let Some(q) = q {
            if !flips.contains(&q) {
                flips.push(q);
            }
        }
        if flips.len() >= max_flips {
            break;
        }
    }
    let mut fam: Vec<Vec<u8>> = vec![base.clone()];
    for &p in &flips {
        let mut t = base.clone();
        t[p] ^= 0x20;
        fam.push(t);
    }
    if !full {
        return Some(WideFamily { texts: fam, comps, flips, path_len });
    }
    // the whole long component in one case, scheme case
    for &(s, e) in comps.iter() {
        let mut t = base.clone();
        t[s..e].make_ascii_uppercase();
        fam.push(t);
        let mut t = base.clone();
        t[s..e].make_ascii_lowercase();
        fam.push(t);
    }
    let mut t = base.clone();
    t[..5].make_ascii_uppercase();
    if let Some(&p) = flips.last() {
        t[p] ^= 0x20;
    }
    fam.push(t);
    // one letter of every *other* part in the other case (authority: equal; module, path: different)
    let mut others: Vec<(usize, usize)> = Vec::new();
    if spec.comp == Early::Module {
        others.push((8, 8 + auth_len));
    }
    if spec.rsync && spec.comp == Early::Authority {
        others.push((module_start, module_start + module_len));
    }
    if path_len > 0 {
        others.push((path_start, base.len()));
        others.push((base.len().saturating_sub(6).max(path_start), base.len()));
    }
    for (s, e) in others {
        if let Some(q) = (s..e).find(|&i| base[i].is_ascii_alphabetic()) {
            let mut t = base.clone();
            t[q] ^= 0x20;
            fam.push(t);
        }
    }
    // neighbours in the path algebra: trailing slash, a child, the text-level parent
    if base.last() != Some(&b'/') {
        let mut t = base.clone();
        t.push(b'/');
        fam.push(t.clone());
        t.extend_from_slice(b"x");
        fam.push(t);
    }
    if path_len > 0 {
        if let Some(cut) = strip1(&base).iter().rposition(|&c| c == b'/') {
            let floor = if spec.rsync { path_start } else { path_start + 1 };
            if cut + 1 >= floor && cut + 1 < base.len() {
                fam.push(base[..cut + 1].to_vec());
            }
        }
        // the module itself / the authority with a slash
        fam.push(base[..path_start.min(base.len())].to_vec());
    }
    // one octet longer / shorter in the long component: the later offsets move across the threshold
    for &(_, e) in comps.iter().take(1) {
        let mut t = base.clone();
        t.insert(e, b'z');
        fam.push(t);
        if e >= 2 && base[e - 1].is_ascii_alphanumeric() && base[e - 2].is_ascii_alphanumeric() {
            let mut t = base.clone();
            t.remove(e - 1);
            fam.push(t);
        }
    }
    fam.dedup();
    Some(WideFamily { texts: fam, comps, flips, path_len })
}

/// Parses the members (single-URI laws of c12.rs, no doors) and returns the accepted ones.
fn wide_parse<U: Uri>(
    ctx: &mut Ctx, c: &mut Counters, texts: &[Vec<u8>], single: fn(&U, &[u8], &mut Findings) -> u64, what: &str,
) -> Vec<(Vec<u8>, U)> {
    let mut items = Vec::new();
    for t in texts {
        let res = ctx.no_panic(what, || json!({"input": show(t)}), || {
            let mut f = Findings::default();
            let u = U::slice_door(t);
            let n = 1 + u.as_ref().map(|u| single(u, t, &mut f)).unwrap_or(0);
            (u, f, n)
        });
        match res {
            Some((Some(u), f, n)) => {
                c.evals += n;
                f.flush(ctx);
                items.push((t.clone(), u));
            }
            Some((None, _, n)) => {
                c.evals += n;
                // the statement does not oblige acceptance of long parts
                ctx.obs("wide_family_member_rejected", 1);
            }
            None => {}
        }
    }
    items
}

pub(super) fn wide_families(ctx: &mut Ctx, c: &mut Counters) {
    let mut rng = ctx.rng("wide-families");
    let lengths = wide_lengths(ctx);
    let miri = ctx.is_miri();
    let (max_flips, full, door_members) = match (ctx.stage, ctx.tier) {
        (Stage::Miri, _) => (2, false, 0usize),
        (Stage::Asan, _) | (Stage::Valgrind, _) => (6, true, 1),
        (_, Tier::Quick) => (10, true, 2),
        (_, Tier::Thorough) => (48, true, 4),
    };
    let mut specs: Vec<WideSpec> = Vec::new();
    for &len in lengths.iter() {
        for absolute in [true, false] {
            for (rsync, comp) in [(true, Early::Authority), (true, Early::Module), (false, Early::Authority)] {
                specs.push(WideSpec { rsync, comp, len, absolute });
            }
        }
        if matches!(len, 4096 | 65536 | 70000) {
            specs.push(WideSpec { rsync: true, comp: Early::Both, len, absolute: false });
        }
    }
    let (mut families, mut members, mut longest, mut longest_early, mut door_calls) = (0u64, 0u64, 0u64, 0u64, 0u64);
    for (idx, spec) in specs.iter().enumerate() {
        if miri {
            // one small family per shard
            if idx as u64 != (ctx.shard / 2 * 5 + ctx.seed) % specs.len() as u64 {
                continue;
            }
        } else if !ctx.mine(idx as u64 + ctx.seed) {
            continue;
        }
        if spec.len > 300_000 && spec.comp == Early::Both {
            continue;
        }
        // the largest ones with fewer members
        let (mf, fl) = if spec.len > 300_000 { (6, true) } else { (max_flips, full) };
        let Some(fam) = wide_family(&mut rng, *spec, mf, fl) else { continue };
        let scheme = if spec.rsync { "rsync" } else { "https" };
        let long_arg = long_token(&mut rng, 600, b"");
        let mut args: Vec<Vec<u8>> = if miri { vec![b"x".to_vec()] } else { vec![Vec::new(), b"x/y".to_vec(), long_arg] };
        if !miri && (ctx.tier == Tier::Thorough || idx % 4 == 0) {
            let mut seg_arg = long_token(&mut rng, 66_000, b"/");
            seg_arg.push(b'/');
            args.push(seg_arg);
        }
        ctx.breadcrumb(&format!("wide family {spec:?}"));
        let r = if spec.rsync {
            let items = wide_parse::<Rsync>(ctx, c, &fam.texts, rsync_single, "parse-wide-family");
            rsync_domain_laws(ctx, c, items, &args, "wide-family")
        } else {
            let items = wide_parse::<Https>(ctx, c, &fam.texts, https_single, "parse-wide-family");
            https_domain_laws(ctx, c, items, &args, "wide-family")
        };
        // the base and its first variants through every door
        for t in fam.texts.iter().take(door_members) {
            let s = std::str::from_utf8(t).unwrap_or("");
            let res = ctx.no_panic("parse-wide-family-doors", || json!({"input": show(t)}), || {
                let mut f = Findings::default();
                let mut by = Vec::new();
                let tally = if spec.rsync { door_laws::<Rsync>(s, &mut f, &mut by) } else { door_laws::<Https>(s, &mut f, &mut by) };
                (f, tally)
            });
            if let Some((f, tally)) = res {
                c.evals += tally.calls;
                door_calls += tally.calls;
                if tally.disagree() {
                    // not demanded by the statement
                    ctx.obs("wide_texts_on_which_doors_disagree", 1);
                }
                f.flush(ctx);
            }
        }
        if let Some((related, size)) = r {
            families += 1;
            members += size as u64;
            longest = longest.max(fam.texts.iter().map(|t| t.len()).max().unwrap_or(0) as u64);
            longest_early = longest_early.max(fam.comps.iter().map(|(s, e)| e - s).max().unwrap_or(0) as u64);
            let above = fam.flips.iter().filter(|p| **p >= 65536).count();
            ctx.sig(&format!(
                "wide-family {scheme} long={:?} {}={} path={} flips-below-65536={} flips-at-or-above-65536={} related={}",
                spec.comp,
                if spec.absolute { "end-of-component-at-offset" } else { "component-length" },
                spec.len,
                match fam.path_len { 0 => "none", 1..=20 => "short", 21..=9999 => "hundreds-to-thousands", _ => "above-65536" },
                fam.flips.len() - above,
                above,
                if related as usize > size { "more-than-members" } else { "members-only" },
            ));
            if spec.len >= 65536 && ctx.wants_sample("wide family (early part beyond 65535 octets)") {
                ctx.sample("wide family (early part beyond 65535 octets)", || json!({
                    "scheme": scheme, "long": format!("{:?}", spec.comp), "component_ranges": fam.comps, "path_octets": fam.path_len,
                    "single_letter_flips_at": fam.flips, "members": size, "related_or_equal_pairs": related, "base": show(&fam.texts[0]),
                }));
            }
        }
    }
    ctx.obs("wide_families", families);
    ctx.obs("wide_family_members", members);
    ctx.obs("wide_family_door_calls", door_calls);
    ctx.obs_max("wide_family_longest_uri", longest);
    ctx.obs_max("wide_family_longest_authority_or_module", longest_early);
}
