//! A serde data format of the harness' own: values are serialised into a
//! token tree and deserialised from one. It exists because `serde_json`
//! exercises only one of the ways a `Serialize` / `Deserialize` pair can be
//! driven: a human-readable format that lends `&str` out of its input. Other
//! formats a user of the library may pick (bincode, postcard, CBOR, message
//! pack, `serde_json::Value`, `from_reader`) differ in exactly the points
//! this format makes configurable:
//!
//! * `human_readable` — implementations may choose a compact form when the
//!   format says it is not human readable;
//! * how strings reach the visitor — borrowed from the input, transient
//!   (`visit_str`) or owned (`visit_string`);
//! * whether structs are presented as maps or as sequences.
//!
//! The token tree can also be edited before it is read back, which lets a
//! monitor hand the `Deserialize` side values no `Serialize` side produced.

use serde::de::{self, DeserializeSeed, EnumAccess, IntoDeserializer, MapAccess, SeqAccess, VariantAccess, Visitor};
use serde::ser::{self, Serialize};
use std::fmt;

#[derive(Clone, Debug, PartialEq)]
pub enum Tok {
    Bool(bool),
    /// value, width in bits (8, 16, 32, 64)
    Int(i64, u8),
    Uint(u64, u8),
    I128(i128),
    U128(u128),
    F64(f64),
    Char(char),
    Str(String),
    Bytes(Vec<u8>),
    None,
    Some(Box<Tok>),
    Unit,
    UnitStruct(&'static str),
    UnitVariant(&'static str, u32, &'static str),
    Newtype(&'static str, Box<Tok>),
    NewtypeVariant(&'static str, u32, &'static str, Box<Tok>),
    Seq(Vec<Tok>),
    Tuple(Vec<Tok>),
    TupleStruct(&'static str, Vec<Tok>),
    TupleVariant(&'static str, u32, &'static str, Vec<Tok>),
    Map(Vec<(Tok, Tok)>),
    Struct(&'static str, Vec<(&'static str, Tok)>),
    StructVariant(&'static str, u32, &'static str, Vec<(&'static str, Tok)>),
}

#[derive(Debug)]
pub struct Error(pub String);

impl fmt::Display for Error {
    fn fmt(&self, f: &mut fmt::Formatter) -> fmt::Result {
        f.write_str(&self.0)
    }
}

impl std::error::Error for Error {}

impl ser::Error for Error {
    fn custom<T: fmt::Display>(msg: T) -> Self {
        Error(msg.to_string())
    }
}

impl de::Error for Error {
    fn custom<T: fmt::Display>(msg: T) -> Self {
        Error(msg.to_string())
    }
}

//------------ serialising ------------------------------------------------------

#[derive(Clone, Copy)]
pub struct Ser {
    pub human_readable: bool,
}

pub fn to_tok<T: Serialize + ?Sized>(v: &T, human_readable: bool) -> Result<Tok, Error> {
    v.serialize(Ser { human_readable })
}

pub struct SeqSer {
    cfg: Ser,
    kind: u8,
    name: &'static str,
    idx: u32,
    variant: &'static str,
    items: Vec<Tok>,
}

pub struct MapSer {
    cfg: Ser,
    items: Vec<(Tok, Tok)>,
    key: Option<Tok>,
}

pub struct StructSer {
    cfg: Ser,
    name: &'static str,
    idx: u32,
    variant: Option<&'static str>,
    items: Vec<(&'static str, Tok)>,
}

impl ser::Serializer for Ser {
    type Ok = Tok;
    type Error = Error;
    type SerializeSeq = SeqSer;
    type SerializeTuple = SeqSer;
    type SerializeTupleStruct = SeqSer;
    type SerializeTupleVariant = SeqSer;
    type SerializeMap = MapSer;
    type SerializeStruct = StructSer;
    type SerializeStructVariant = StructSer;

    fn is_human_readable(&self) -> bool {
        self.human_readable
    }
    fn serialize_bool(self, v: bool) -> Result<Tok, Error> {
        Ok(Tok::Bool(v))
    }
    fn serialize_i8(self, v: i8) -> Result<Tok, Error> {
        Ok(Tok::Int(v as i64, 8))
    }
    fn serialize_i16(self, v: i16) -> Result<Tok, Error> {
        Ok(Tok::Int(v as i64, 16))
    }
    fn serialize_i32(self, v: i32) -> Result<Tok, Error> {
        Ok(Tok::Int(v as i64, 32))
    }
    fn serialize_i64(self, v: i64) -> Result<Tok, Error> {
        Ok(Tok::Int(v, 64))
    }
    fn serialize_i128(self, v: i128) -> Result<Tok, Error> {
        Ok(Tok::I128(v))
    }
    fn serialize_u8(self, v: u8) -> Result<Tok, Error> {
        Ok(Tok::Uint(v as u64, 8))
    }
    fn serialize_u16(self, v: u16) -> Result<Tok, Error> {
        Ok(Tok::Uint(v as u64, 16))
    }
    fn serialize_u32(self, v: u32) -> Result<Tok, Error> {
        Ok(Tok::Uint(v as u64, 32))
    }
    fn serialize_u64(self, v: u64) -> Result<Tok, Error> {
        Ok(Tok::Uint(v, 64))
    }
    fn serialize_u128(self, v: u128) -> Result<Tok, Error> {
        Ok(Tok::U128(v))
    }
    fn serialize_f32(self, v: f32) -> Result<Tok, Error> {
        Ok(Tok::F64(v as f64))
    }
    fn serialize_f64(self, v: f64) -> Result<Tok, Error> {
        Ok(Tok::F64(v))
    }
    fn serialize_char(self, v: char) -> Result<Tok, Error> {
        Ok(Tok::Char(v))
    }
    fn serialize_str(self, v: &str) -> Result<Tok, Error> {
        Ok(Tok::Str(v.to_string()))
    }
    fn serialize_bytes(self, v: &[u8]) -> Result<Tok, Error> {
        Ok(Tok::Bytes(v.to_vec()))
    }
    fn serialize_none(self) -> Result<Tok, Error> {
        Ok(Tok::None)
    }
    fn serialize_some<T: Serialize + ?Sized>(self, v: &T) -> Result<Tok, Error> {
        Ok(Tok::Some(Box::new(v.serialize(self)?)))
    }
    fn serialize_unit(self) -> Result<Tok, Error> {
        Ok(Tok::Unit)
    }
    fn serialize_unit_struct(self, name: &'static str) -> Result<Tok, Error> {
        Ok(Tok::UnitStruct(name))
    }
    fn serialize_unit_variant(self, name: &'static str, idx: u32, variant: &'static str) -> Result<Tok, Error> {
        Ok(Tok::UnitVariant(name, idx, variant))
    }
    fn serialize_newtype_struct<T: Serialize + ?Sized>(self, name: &'static str, v: &T) -> Result<Tok, Error> {
        Ok(Tok::Newtype(name, Box::new(v.serialize(self)?)))
    }
    fn serialize_newtype_variant<T: Serialize + ?Sized>(
        self,
        name: &'static str,
        idx: u32,
        variant: &'static str,
        v: &T,
    ) -> Result<Tok, Error> {
        Ok(Tok::NewtypeVariant(name, idx, variant, Box::new(v.serialize(self)?)))
    }
    fn serialize_seq(self, len: Option<usize>) -> Result<SeqSer, Error> {
        Ok(SeqSer { cfg: self, kind: 0, name: "", idx: 0, variant: "", items: Vec::with_capacity(len.unwrap_or(0)) })
    }
    fn serialize_tuple(self, len: usize) -> Result<SeqSer, Error> {
        Ok(SeqSer { cfg: self, kind: 1, name: "", idx: 0, variant: "", items: Vec::with_capacity(len) })
    }
    fn serialize_tuple_struct(self, name: &'static str, len: usize) -> Result<SeqSer, Error> {
        Ok(SeqSer { cfg: self, kind: 2, name, idx: 0, variant: "", items: Vec::with_capacity(len) })
    }
    fn serialize_tuple_variant(self, name: &'static str, idx: u32, variant: &'static str, len: usize) -> Result<SeqSer, Error> {
        Ok(SeqSer { cfg: self, kind: 3, name, idx, variant, items: Vec::with_capacity(len) })
    }
    fn serialize_map(self, len: Option<usize>) -> Result<MapSer, Error> {
        Ok(MapSer { cfg: self, items: Vec::with_capacity(len.unwrap_or(0)), key: None })
    }
    fn serialize_struct(self, name: &'static str, len: usize) -> Result<StructSer, Error> {
        Ok(StructSer { cfg: self, name, idx: 0, variant: None, items: Vec::with_capacity(len) })
    }
    fn serialize_struct_variant(self, name: &'static str, idx: u32, variant: &'static str, len: usize) -> Result<StructSer, Error> {
        Ok(StructSer { cfg: self, name, idx, variant: Some(variant), items: Vec::with_capacity(len) })
    }
}

impl SeqSer {
    fn push<T: Serialize + ?Sized>(&mut self, v: &T) -> Result<(), Error> {
        self.items.push(v.serialize(self.cfg)?);
        Ok(())
    }
    fn done(self) -> Result<Tok, Error> {
        Ok(match self.kind {
            0 => Tok::Seq(self.items),
            1 => Tok::Tuple(self.items),
            2 => Tok::TupleStruct(self.name, self.items),
            _ => Tok::TupleVariant(self.name, self.idx, self.variant, self.items),
        })
    }
}

impl ser::SerializeSeq for SeqSer {
    type Ok = Tok;
    type Error = Error;
    fn serialize_element<T: Serialize + ?Sized>(&mut self, v: &T) -> Result<(), Error> {
        self.push(v)
    }
    fn end(self) -> Result<Tok, Error> {
        self.done()
    }
}

impl ser::SerializeTuple for SeqSer {
    type Ok = Tok;
    type Error = Error;
    fn serialize_element<T: Serialize + ?Sized>(&mut self, v: &T) -> Result<(), Error> {
        self.push(v)
    }
    fn end(self) -> Result<Tok, Error> {
        self.done()
    }
}

impl ser::SerializeTupleStruct for SeqSer {
    type Ok = Tok;
    type Error = Error;
    fn serialize_field<T: Serialize + ?Sized>(&mut self, v: &T) -> Result<(), Error> {
        self.push(v)
    }
    fn end(self) -> Result<Tok, Error> {
        self.done()
    }
}

impl ser::SerializeTupleVariant for SeqSer {
    type Ok = Tok;
    type Error = Error;
    fn serialize_field<T: Serialize + ?Sized>(&mut self, v: &T) -> Result<(), Error> {
        self.push(v)
    }
    fn end(self) -> Result<Tok, Error> {
        self.done()
    }
}

impl ser::SerializeMap for MapSer {
    type Ok = Tok;
    type Error = Error;
    fn serialize_key<T: Serialize + ?Sized>(&mut self, k: &T) -> Result<(), Error> {
        self.key = Some(k.serialize(self.cfg)?);
        Ok(())
    }
    fn serialize_value<T: Serialize + ?Sized>(&mut self, v: &T) -> Result<(), Error> {
        let k = self.key.take().ok_or_else(|| Error("map value without key".into()))?;
        self.items.push((k, v.serialize(self.cfg)?));
        Ok(())
    }
    fn end(self) -> Result<Tok, Error> {
        Ok(Tok::Map(self.items))
    }
}

impl ser::SerializeStruct for StructSer {
    type Ok = Tok;
    type Error = Error;
    fn serialize_field<T: Serialize + ?Sized>(&mut self, key: &'static str, v: &T) -> Result<(), Error> {
        self.items.push((key, v.serialize(self.cfg)?));
        Ok(())
    }
    fn end(self) -> Result<Tok, Error> {
        Ok(match self.variant {
            None => Tok::Struct(self.name, self.items),
            Some(v) => Tok::StructVariant(self.name, self.idx, v, self.items),
        })
    }
}

impl ser::SerializeStructVariant for StructSer {
    type Ok = Tok;
    type Error = Error;
    fn serialize_field<T: Serialize + ?Sized>(&mut self, key: &'static str, v: &T) -> Result<(), Error> {
        self.items.push((key, v.serialize(self.cfg)?));
        Ok(())
    }
    fn end(self) -> Result<Tok, Error> {
        ser::SerializeStruct::end(self)
    }
}

//------------ deserialising ----------------------------------------------------

#[derive(Clone, Copy, Debug, PartialEq, Eq)]
pub enum Strings {
    /// `visit_borrowed_str`: the input outlives the value (serde_json::from_str).
    Borrowed,
    /// `visit_str`: the string lives for the call only (from_reader, escapes).
    Transient,
    /// `visit_string`: the format hands over an owned string (Value).
    Owned,
}

#[derive(Clone, Copy, Debug)]
pub struct De {
    pub human_readable: bool,
    pub strings: Strings,
    /// Present structs as sequences of their fields (compact binary formats).
    pub structs_as_seq: bool,
}

impl De {
    pub fn describe(&self) -> String {
        format!(
            "{}/{:?}/{}",
            if self.human_readable { "human-readable" } else { "compact" },
            self.strings,
            if self.structs_as_seq { "structs-as-seq" } else { "structs-as-map" }
        )
    }

    /// The transports a monitor should try for a value serialised with
    /// `human_readable`.
    pub fn all(human_readable: bool) -> Vec<De> {
        let mut v = Vec::new();
        for strings in [Strings::Borrowed, Strings::Transient, Strings::Owned] {
            for structs_as_seq in [false, true] {
                v.push(De { human_readable, strings, structs_as_seq });
            }
        }
        v
    }
}

pub fn from_tok<'de, T: de::Deserialize<'de>>(tok: &'de Tok, cfg: De) -> Result<T, Error> {
    T::deserialize(TokDe { tok, cfg })
}

#[derive(Clone, Copy)]
pub struct TokDe<'de> {
    tok: &'de Tok,
    cfg: De,
}

impl<'de> TokDe<'de> {
    fn sub(&self, tok: &'de Tok) -> Self {
        TokDe { tok, cfg: self.cfg }
    }

    fn visit_str<V: Visitor<'de>>(&self, s: &'de str, v: V) -> Result<V::Value, Error> {
        match self.cfg.strings {
            Strings::Borrowed => v.visit_borrowed_str(s),
            Strings::Transient => {
                let copy = s.to_string();
                v.visit_str(&copy)
            }
            Strings::Owned => v.visit_string(s.to_string()),
        }
    }

    fn visit_bytes<V: Visitor<'de>>(&self, b: &'de [u8], v: V) -> Result<V::Value, Error> {
        match self.cfg.strings {
            Strings::Borrowed => v.visit_borrowed_bytes(b),
            Strings::Transient => {
                let copy = b.to_vec();
                v.visit_bytes(&copy)
            }
            Strings::Owned => v.visit_byte_buf(b.to_vec()),
        }
    }
}

struct SeqDe<'de> {
    items: std::slice::Iter<'de, Tok>,
    cfg: De,
}

impl<'de> SeqAccess<'de> for SeqDe<'de> {
    type Error = Error;
    fn next_element_seed<T: DeserializeSeed<'de>>(&mut self, seed: T) -> Result<Option<T::Value>, Error> {
        match self.items.next() {
            Some(tok) => seed.deserialize(TokDe { tok, cfg: self.cfg }).map(Some),
            None => Ok(None),
        }
    }
    fn size_hint(&self) -> Option<usize> {
        Some(self.items.len())
    }
}

struct FieldsSeq<'de> {
    items: std::slice::Iter<'de, (&'static str, Tok)>,
    cfg: De,
}

impl<'de> SeqAccess<'de> for FieldsSeq<'de> {
    type Error = Error;
    fn next_element_seed<T: DeserializeSeed<'de>>(&mut self, seed: T) -> Result<Option<T::Value>, Error> {
        match self.items.next() {
            Some((_, tok)) => seed.deserialize(TokDe { tok, cfg: self.cfg }).map(Some),
            None => Ok(None),
        }
    }
}

struct FieldsMap<'de> {
    items: std::slice::Iter<'de, (&'static str, Tok)>,
    value: Option<&'de Tok>,
    cfg: De,
}

impl<'de> MapAccess<'de> for FieldsMap<'de> {
    type Error = Error;
    fn next_key_seed<K: DeserializeSeed<'de>>(&mut self, seed: K) -> Result<Option<K::Value>, Error> {
        match self.items.next() {
            Some((k, v)) => {
                self.value = Some(v);
                let d: de::value::BorrowedStrDeserializer<'de, Error> = de::value::BorrowedStrDeserializer::new(k);
                seed.deserialize(d).map(Some)
            }
            None => Ok(None),
        }
    }
    fn next_value_seed<V: DeserializeSeed<'de>>(&mut self, seed: V) -> Result<V::Value, Error> {
        let tok = self.value.take().ok_or_else(|| Error("value without key".into()))?;
        seed.deserialize(TokDe { tok, cfg: self.cfg })
    }
}

struct PairsMap<'de> {
    items: std::slice::Iter<'de, (Tok, Tok)>,
    value: Option<&'de Tok>,
    cfg: De,
}

impl<'de> MapAccess<'de> for PairsMap<'de> {
    type Error = Error;
    fn next_key_seed<K: DeserializeSeed<'de>>(&mut self, seed: K) -> Result<Option<K::Value>, Error> {
        match self.items.next() {
            Some((k, v)) => {
                self.value = Some(v);
                seed.deserialize(TokDe { tok: k, cfg: self.cfg }).map(Some)
            }
            None => Ok(None),
        }
    }
    fn next_value_seed<V: DeserializeSeed<'de>>(&mut self, seed: V) -> Result<V::Value, Error> {
        let tok = self.value.take().ok_or_else(|| Error("value without key".into()))?;
        seed.deserialize(TokDe { tok, cfg: self.cfg })
    }
}

struct EnumDe<'de> {
    idx: u32,
    variant: &'static str,
    content: Option<&'de Tok>,
    fields: Option<&'de [(&'static str, Tok)]>,
    items: Option<&'de [Tok]>,
    cfg: De,
}

impl<'de> EnumAccess<'de> for EnumDe<'de> {
    type Error = Error;
    type Variant = Self;
    fn variant_seed<V: DeserializeSeed<'de>>(self, seed: V) -> Result<(V::Value, Self), Error> {
        let v = if self.cfg.human_readable {
            let d: de::value::BorrowedStrDeserializer<'de, Error> = de::value::BorrowedStrDeserializer::new(self.variant);
            seed.deserialize(d)?
        } else {
            let d: de::value::U32Deserializer<Error> = self.idx.into_deserializer();
            seed.deserialize(d)?
        };
        Ok((v, self))
    }
}

impl<'de> VariantAccess<'de> for EnumDe<'de> {
    type Error = Error;
    fn unit_variant(self) -> Result<(), Error> {
        Ok(())
    }
    fn newtype_variant_seed<T: DeserializeSeed<'de>>(self, seed: T) -> Result<T::Value, Error> {
        match self.content {
            Some(tok) => seed.deserialize(TokDe { tok, cfg: self.cfg }),
            None => Err(Error("not a newtype variant".into())),
        }
    }
    fn tuple_variant<V: Visitor<'de>>(self, _len: usize, v: V) -> Result<V::Value, Error> {
        match self.items {
            Some(items) => v.visit_seq(SeqDe { items: items.iter(), cfg: self.cfg }),
            None => Err(Error("not a tuple variant".into())),
        }
    }
    fn struct_variant<V: Visitor<'de>>(self, _fields: &'static [&'static str], v: V) -> Result<V::Value, Error> {
        match self.fields {
            Some(f) if self.cfg.structs_as_seq => v.visit_seq(FieldsSeq { items: f.iter(), cfg: self.cfg }),
            Some(f) => v.visit_map(FieldsMap { items: f.iter(), value: None, cfg: self.cfg }),
            None => Err(Error("not a struct variant".into())),
        }
    }
}

impl<'de> de::Deserializer<'de> for TokDe<'de> {
    type Error = Error;

    fn is_human_readable(&self) -> bool {
        self.cfg.human_readable
    }

    fn deserialize_any<V: Visitor<'de>>(self, v: V) -> Result<V::Value, Error> {
        match self.tok {
            Tok::Bool(b) => v.visit_bool(*b),
            Tok::Int(i, 8) => v.visit_i8(*i as i8),
            Tok::Int(i, 16) => v.visit_i16(*i as i16),
            Tok::Int(i, 32) => v.visit_i32(*i as i32),
            Tok::Int(i, _) => v.visit_i64(*i),
            Tok::Uint(i, 8) => v.visit_u8(*i as u8),
            Tok::Uint(i, 16) => v.visit_u16(*i as u16),
            Tok::Uint(i, 32) => v.visit_u32(*i as u32),
            Tok::Uint(i, _) => v.visit_u64(*i),
            Tok::I128(i) => v.visit_i128(*i),
            Tok::U128(i) => v.visit_u128(*i),
            Tok::F64(f) => v.visit_f64(*f),
            Tok::Char(c) => v.visit_char(*c),
            Tok::Str(s) => self.visit_str(s, v),
            Tok::Bytes(b) => self.visit_bytes(b, v),
            Tok::None => v.visit_none(),
            Tok::Some(t) => v.visit_some(self.sub(t)),
            Tok::Unit | Tok::UnitStruct(_) => v.visit_unit(),
            Tok::Newtype(_, t) => v.visit_newtype_struct(self.sub(t)),
            Tok::Seq(items) | Tok::Tuple(items) | Tok::TupleStruct(_, items) => v.visit_seq(SeqDe { items: items.iter(), cfg: self.cfg }),
            Tok::Map(items) => v.visit_map(PairsMap { items: items.iter(), value: None, cfg: self.cfg }),
            Tok::Struct(_, f) if self.cfg.structs_as_seq => v.visit_seq(FieldsSeq { items: f.iter(), cfg: self.cfg }),
            Tok::Struct(_, f) => v.visit_map(FieldsMap { items: f.iter(), value: None, cfg: self.cfg }),
            Tok::UnitVariant(_, idx, variant) => {
                v.visit_enum(EnumDe { idx: *idx, variant, content: None, fields: None, items: None, cfg: self.cfg })
            }
            Tok::NewtypeVariant(_, idx, variant, t) => {
                v.visit_enum(EnumDe { idx: *idx, variant, content: Some(t), fields: None, items: None, cfg: self.cfg })
            }
            Tok::TupleVariant(_, idx, variant, items) => {
                v.visit_enum(EnumDe { idx: *idx, variant, content: None, fields: None, items: Some(items), cfg: self.cfg })
            }
            Tok::StructVariant(_, idx, variant, f) => {
                v.visit_enum(EnumDe { idx: *idx, variant, content: None, fields: Some(f), items: None, cfg: self.cfg })
            }
        }
    }

    fn deserialize_option<V: Visitor<'de>>(self, v: V) -> Result<V::Value, Error> {
        match self.tok {
            Tok::None | Tok::Unit => v.visit_none(),
            Tok::Some(t) => v.visit_some(self.sub(t)),
            _ => v.visit_some(self),
        }
    }

    fn deserialize_newtype_struct<V: Visitor<'de>>(self, _name: &'static str, v: V) -> Result<V::Value, Error> {
        match self.tok {
            Tok::Newtype(_, t) => v.visit_newtype_struct(self.sub(t)),
            _ => v.visit_newtype_struct(self),
        }
    }

    fn deserialize_enum<V: Visitor<'de>>(self, _name: &'static str, _variants: &'static [&'static str], v: V) -> Result<V::Value, Error> {
        match self.tok {
            // a human-readable format carries a unit variant as its name
            Tok::Str(s) => v.visit_enum(de::value::BorrowedStrDeserializer::<'de, Error>::new(s)),
            _ => self.deserialize_any(v),
        }
    }

    serde::forward_to_deserialize_any! {
        bool i8 i16 i32 i64 i128 u8 u16 u32 u64 u128 f32 f64 char str string
        bytes byte_buf unit unit_struct seq tuple tuple_struct map struct identifier ignored_any
    }
}

//------------ editing -----------------------------------------------------------

impl Tok {
    /// Number of leaves that carry a number or a string.
    pub fn leaves(&self) -> usize {
        let mut n = 0;
        self.walk(&mut |_| n += 1);
        n
    }

    fn walk(&self, f: &mut dyn FnMut(&Tok)) {
        match self {
            Tok::Some(t) | Tok::Newtype(_, t) | Tok::NewtypeVariant(_, _, _, t) => t.walk(f),
            Tok::Seq(v) | Tok::Tuple(v) | Tok::TupleStruct(_, v) | Tok::TupleVariant(_, _, _, v) => v.iter().for_each(|t| t.walk(f)),
            Tok::Map(v) => v.iter().for_each(|(k, t)| {
                k.walk(f);
                t.walk(f)
            }),
            Tok::Struct(_, v) | Tok::StructVariant(_, _, _, v) => v.iter().for_each(|(_, t)| t.walk(f)),
            leaf => f(leaf),
        }
    }

    /// Applies `f` to the `n`-th leaf (in `walk` order).
    pub fn edit_leaf(&mut self, n: usize, f: &mut dyn FnMut(&mut Tok)) {
        let mut i = 0;
        self.walk_mut(&mut |t| {
            if i == n {
                f(t);
            }
            i += 1;
        });
    }

    fn walk_mut(&mut self, f: &mut dyn FnMut(&mut Tok)) {
        match self {
            Tok::Some(t) | Tok::Newtype(_, t) | Tok::NewtypeVariant(_, _, _, t) => t.walk_mut(f),
            Tok::Seq(v) | Tok::Tuple(v) | Tok::TupleStruct(_, v) | Tok::TupleVariant(_, _, _, v) => v.iter_mut().for_each(|t| t.walk_mut(f)),
            Tok::Map(v) => v.iter_mut().for_each(|(k, t)| {
                k.walk_mut(f);
                t.walk_mut(f)
            }),
            Tok::Struct(_, v) | Tok::StructVariant(_, _, _, v) => v.iter_mut().for_each(|(_, t)| t.walk_mut(f)),
            leaf => f(leaf),
        }
    }
}

/// Replaces a numeric leaf by a boundary value of its width, a string leaf by
/// a damaged string; `pick` selects which. Returns false when the leaf is of
/// another kind.
pub fn damage_leaf(t: &mut Tok, pick: u64) -> bool {
    match t {
        Tok::Uint(v, w) => {
            let max = if *w == 64 { u64::MAX } else { (1u64 << *w) - 1 };
            let c = [0, 1, max, max - 1, max / 2, max / 2 + 1, v.wrapping_add(1) & max, v.wrapping_sub(1) & max, *v ^ 1, *v ^ (1 << (*w - 1)), *v | 0x40, *v & !0x40];
            *v = c[(pick % c.len() as u64) as usize];
            true
        }
        Tok::Int(v, _) => {
            let c = [0, 1, -1, i64::MAX, i64::MIN, v.wrapping_add(1), v.wrapping_neg()];
            *v = c[(pick % c.len() as u64) as usize];
            true
        }
        Tok::U128(v) => {
            let c = [
                0,
                1,
                u128::MAX,
                u128::MAX - 1,
                1u128 << 127,
                *v | 1,
                *v | 0xffff_ffff,
                *v | 0xffff_ffff_ffff_ffff_ffff_ffff,
                *v ^ (1u128 << (pick % 128)),
                v.wrapping_add(1),
                !*v,
            ];
            *v = c[(pick % c.len() as u64) as usize];
            true
        }
        Tok::I128(v) => {
            *v = [0, -1, i128::MAX, i128::MIN][(pick % 4) as usize];
            true
        }
        Tok::Str(s) => {
            match pick % 6 {
                0 => s.clear(),
                1 => s.push(' '),
                2 => s.insert(0, ' '),
                3 => s.push('/'),
                4 => *s = s.to_uppercase(),
                _ => {
                    s.pop();
                }
            }
            true
        }
        Tok::Bytes(b) => {
            match pick % 4 {
                0 => b.clear(),
                1 => b.push(0),
                2 => {
                    b.pop();
                }
                _ => {
                    if let Some(x) = b.first_mut() {
                        *x ^= 0x80
                    }
                }
            }
            true
        }
        Tok::Bool(b) => {
            *b = !*b;
            true
        }
        _ => false,
    }
}
