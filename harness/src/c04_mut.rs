//! C04 — structure-aware mutation: an editable TLV tree (own parser, nothing
//! from bcder), serialisation with controllable length forms, and the mutator
//! catalogue from DESIGN §4 C04.
//!
//! The tree descends into OCTET STRINGs and BIT STRINGs whose content is
//! itself DER (eContent, extension values, SubjectPublicKey), so mutations
//! reach the inner decoders while the outer lengths stay consistent.

use crate::core::Rng;

#[derive(Clone, Debug)]
pub enum LenForm {
    /// minimal definite length
    Min,
    /// definite length in exactly n length octets (non-minimal when n is larger than needed)
    Pad(u8),
    /// indefinite length (0x80 … 00 00)
    Indef,
    /// literal length octets, whatever the content is
    Raw(Vec<u8>),
}

#[derive(Clone, Debug)]
pub enum Body {
    Leaf(Vec<u8>),
    Cons(Vec<T>),
    /// primitive string whose content is `prefix` followed by nested TLVs
    Wrap(Vec<u8>, Vec<T>),
}

#[derive(Clone, Debug)]
pub struct T {
    pub tag: u8,
    pub len: LenForm,
    pub body: Body,
}

fn push_len(out: &mut Vec<u8>, form: &LenForm, n: usize) {
    match form {
        LenForm::Min => out.extend_from_slice(&crate::der::len_bytes(n)),
        LenForm::Pad(k) => {
            let need = if n < 0x80 { 1 } else { ((usize::BITS - n.leading_zeros()) as usize).div_ceil(8) };
            let k = (*k as usize).max(need).min(8);
            out.extend_from_slice(&crate::der::len_bytes_padded(n, k));
        }
        LenForm::Indef => out.push(0x80),
        LenForm::Raw(b) => out.extend_from_slice(b),
    }
}

impl T {
    pub fn leaf(tag: u8, content: &[u8]) -> T {
        T { tag, len: LenForm::Min, body: Body::Leaf(content.to_vec()) }
    }

    pub fn cons(tag: u8, children: Vec<T>) -> T {
        T { tag, len: LenForm::Min, body: Body::Cons(children) }
    }

    pub fn children(&self) -> Option<&Vec<T>> {
        match &self.body {
            Body::Cons(c) | Body::Wrap(_, c) => Some(c),
            Body::Leaf(_) => None,
        }
    }

    pub fn children_mut(&mut self) -> Option<&mut Vec<T>> {
        match &mut self.body {
            Body::Cons(c) | Body::Wrap(_, c) => Some(c),
            Body::Leaf(_) => None,
        }
    }

    pub fn ser(&self, out: &mut Vec<u8>) {
        let mut body = Vec::new();
        match &self.body {
            Body::Leaf(b) => body.extend_from_slice(b),
            Body::Cons(c) => ser_all(c, &mut body),
            Body::Wrap(p, c) => {
                body.extend_from_slice(p);
                ser_all(c, &mut body);
            }
        }
        out.push(self.tag);
        push_len(out, &self.len, body.len());
        out.extend_from_slice(&body);
        if matches!(self.len, LenForm::Indef) {
            out.extend_from_slice(&[0, 0]);
        }
    }

    pub fn count(&self) -> usize {
        1 + self.children().map(|c| c.iter().map(|x| x.count()).sum()).unwrap_or(0)
    }
}

pub fn ser_all(f: &[T], out: &mut Vec<u8>) {
    for t in f {
        t.ser(out);
    }
}

pub fn to_bytes(f: &[T]) -> Vec<u8> {
    let mut out = Vec::new();
    ser_all(f, &mut out);
    out
}

pub fn count_all(f: &[T]) -> usize {
    f.iter().map(|t| t.count()).sum()
}

//------------ Parser --------------------------------------------------------

fn parse_one(data: &[u8], pos: usize, depth: usize) -> Option<(T, usize)> {
    if depth > 48 || pos + 2 > data.len() {
        return None;
    }
    let tag = data[pos];
    if tag & 0x1F == 0x1F || tag == 0 {
        return None;
    }
    let l0 = data[pos + 1];
    let constructed = tag & 0x20 != 0;
    if l0 == 0x80 {
        if !constructed {
            return None;
        }
        let mut p = pos + 2;
        let mut kids = Vec::new();
        loop {
            if p + 2 > data.len() {
                return None;
            }
            if data[p] == 0 && data[p + 1] == 0 {
                return Some((T { tag, len: LenForm::Indef, body: Body::Cons(kids) }, p + 2));
            }
            let (k, e) = parse_one(data, p, depth + 1)?;
            kids.push(k);
            p = e;
        }
    }
    let (cs, len, form) = if l0 < 0x80 {
        (pos + 2, l0 as usize, LenForm::Min)
    } else {
        let n = (l0 & 0x7F) as usize;
        if n > 4 || pos + 2 + n > data.len() {
            return None;
        }
        let mut len = 0usize;
        for i in 0..n {
            len = (len << 8) | data[pos + 2 + i] as usize;
        }
        let minimal = crate::der::len_bytes(len).len() == n + 1;
        (pos + 2 + n, len, if minimal { LenForm::Min } else { LenForm::Pad(n as u8) })
    };
    let ce = cs.checked_add(len)?;
    if ce > data.len() {
        return None;
    }
    let content = &data[cs..ce];
    let body = if constructed {
        Body::Cons(parse_seq(content, depth + 1)?)
    } else if tag == 0x04 && content.len() >= 2 && matches!(content[0], 0x30 | 0x31 | 0x02 | 0x03 | 0x04 | 0x06) {
        match parse_seq(content, depth + 1) {
            Some(k) if !k.is_empty() => Body::Wrap(Vec::new(), k),
            _ => Body::Leaf(content.to_vec()),
        }
    } else if tag == 0x03 && content.len() >= 3 && content[0] == 0 && content[1] == 0x30 {
        match parse_seq(&content[1..], depth + 1) {
            Some(k) if !k.is_empty() => Body::Wrap(vec![0], k),
            _ => Body::Leaf(content.to_vec()),
        }
    } else {
        Body::Leaf(content.to_vec())
    };
    Some((T { tag, len: form, body }, ce))
}

fn parse_seq(data: &[u8], depth: usize) -> Option<Vec<T>> {
    let mut out = Vec::new();
    let mut p = 0;
    while p < data.len() {
        let (t, e) = parse_one(data, p, depth)?;
        out.push(t);
        p = e;
    }
    Some(out)
}

/// Parses a complete byte string into a forest that re-serialises to the
/// identical bytes, or None.
pub fn parse(data: &[u8]) -> Option<Vec<T>> {
    let f = parse_seq(data, 0)?;
    if f.is_empty() || to_bytes(&f) != data {
        return None;
    }
    Some(f)
}

//------------ Node access ---------------------------------------------------

fn nth_mut<'a>(f: &'a mut [T], idx: &mut usize) -> Option<&'a mut T> {
    for t in f.iter_mut() {
        if *idx == 0 {
            return Some(t);
        }
        *idx -= 1;
        let hit = match &mut t.body {
            Body::Cons(c) | Body::Wrap(_, c) => nth_mut(c, idx),
            Body::Leaf(_) => None,
        };
        if hit.is_some() {
            return hit;
        }
    }
    None
}

fn nth<'a>(f: &'a [T], idx: &mut usize) -> Option<&'a T> {
    for t in f.iter() {
        if *idx == 0 {
            return Some(t);
        }
        *idx -= 1;
        if let Some(c) = t.children() {
            let hit = nth(c, idx);
            if hit.is_some() {
                return hit;
            }
        }
    }
    None
}

pub fn node(f: &[T], mut idx: usize) -> Option<&T> {
    nth(f, &mut idx)
}

pub fn node_mut(f: &mut [T], mut idx: usize) -> Option<&mut T> {
    nth_mut(f, &mut idx)
}

/// Pre-order indexes of nodes satisfying `pred`.
pub fn find_all(f: &[T], pred: &dyn Fn(&T) -> bool) -> Vec<usize> {
    fn rec(f: &[T], pred: &dyn Fn(&T) -> bool, idx: &mut usize, out: &mut Vec<usize>) {
        for t in f {
            if pred(t) {
                out.push(*idx);
            }
            *idx += 1;
            if let Some(c) = t.children() {
                rec(c, pred, idx, out);
            }
        }
    }
    let mut out = Vec::new();
    let mut idx = 0;
    rec(f, pred, &mut idx, &mut out);
    out
}

//------------ Mutators ------------------------------------------------------

pub const TREE_MUTATORS: &[&str] = &[
    "tag", "len+1", "len-1", "len0", "len-huge", "len-indef", "len-pad", "byte", "splice", "dup", "del", "swap",
    "int", "time", "oid", "bitstr", "ber-subtree", "empty", "grow", "retag-string", "addr",
];
pub const RAW_MUTATORS: &[&str] = &["raw-flip", "raw-insert", "raw-delete", "raw-copy", "raw-set"];

pub const INT_VALUES: &[&[u8]] = &[
    &[0x00],
    &[0x01],
    &[0x7F],
    &[0x00, 0x80],
    &[0x00, 0xFF],
    &[0x01, 0x00],
    &[0x7F, 0xFF, 0xFF, 0xFF],
    &[0x00, 0x80, 0x00, 0x00, 0x00],
    &[0x00, 0xFF, 0xFF, 0xFF, 0xFF],
    &[0x01, 0x00, 0x00, 0x00, 0x00],
    &[0x01, 0x00, 0x00, 0x00, 0x00, 0x00, 0x00, 0x00, 0x00],
    &[0x00, 0xFF, 0xFF, 0xFF, 0xFF, 0xFF, 0xFF, 0xFF, 0xFF],
    &[0xFF],
    &[0x80],
    &[0x80, 0x00, 0x00, 0x00],
    &[0xFF, 0x7F],
    &[0x00, 0x00],
    &[0x00, 0x01],
    &[0xFF, 0xFF],
    &[],
    &[0x7F, 0xFF, 0xFF, 0xFF, 0xFF, 0xFF, 0xFF, 0xFF, 0xFF, 0xFF, 0xFF, 0xFF, 0xFF, 0xFF, 0xFF, 0xFF, 0xFF, 0xFF, 0xFF, 0xFF],
    &[0x00, 0x80, 0, 0, 0, 0, 0, 0, 0, 0, 0, 0, 0, 0, 0, 0, 0, 0, 0, 0, 0],
    &[0x01, 0, 0, 0, 0, 0, 0, 0, 0, 0, 0, 0, 0, 0, 0, 0, 0, 0, 0, 0, 0],
    &[0x00, 0x3F, 0xFC],
    &[0x00, 0x3F, 0xFD],
    &[0x10],
    &[0x20],
    &[0x21],
    &[0x00, 0x80, 0x81],
];

pub const TIME_VALUES: &[(&[u8], u8)] = &[
    (b"000101000000Z", 0x17),
    (b"491231235959Z", 0x17),
    (b"500101000000Z", 0x17),
    (b"991231235960Z", 0x17),
    (b"240229000000Z", 0x17),
    (b"230229000000Z", 0x17),
    (b"20+101000000Z", 0x17),
    (b"2001010000Z", 0x17),
    (b"200101000000", 0x17),
    (b"200101000000+0000", 0x17),
    (b"\xff\xfe0101000000Z", 0x17),
    (b"", 0x17),
    (b"Z", 0x17),
    (b"00000101000000Z", 0x18),
    (b"99991231235959Z", 0x18),
    (b"99991231235960Z", 0x18),
    (b"20240229120000Z", 0x18),
    (b"20231301000000Z", 0x18),
    (b"20230132000000Z", 0x18),
    (b"20230101240000Z", 0x18),
    (b"20230101000000.5Z", 0x18),
    (b"+0230101000000Z", 0x18),
    (b"2023 101000000Z", 0x18),
    (b"20230101000000", 0x18),
    (b"\xe2\x82\xac230101000000Z", 0x18),
    (b"19700101000000Z", 0x18),
    (b"00010101000000Z", 0x18),
    (b"20380119031408Z", 0x18),
    (b"21060207062816Z", 0x18),
];

/// Context the mutators draw material from.
pub struct Pools<'a> {
    /// other forests (for splicing)
    pub donors: &'a [Vec<T>],
    /// OID contents seen anywhere in the corpus
    pub oids: &'a [Vec<u8>],
}

fn is_int(t: &T) -> bool {
    t.tag == 0x02 && matches!(t.body, Body::Leaf(_))
}
fn is_time(t: &T) -> bool {
    (t.tag == 0x17 || t.tag == 0x18) && matches!(t.body, Body::Leaf(_))
}
fn is_oid(t: &T) -> bool {
    t.tag == 0x06 && matches!(t.body, Body::Leaf(_))
}
fn is_bits(t: &T) -> bool {
    t.tag == 0x03
}
fn is_string(t: &T) -> bool {
    // universal string types and implicitly tagged (context class, primitive) values
    (matches!(t.tag, 0x04 | 0x0C | 0x13 | 0x16 | 0x03) || t.tag & 0xE0 == 0x80) && matches!(t.body, Body::Leaf(_))
}
fn has_kids(t: &T) -> bool {
    t.children().map(|c| !c.is_empty()).unwrap_or(false)
}

fn body_len(t: &T) -> usize {
    let mut v = Vec::new();
    match &t.body {
        Body::Leaf(b) => return b.len(),
        Body::Cons(c) => ser_all(c, &mut v),
        Body::Wrap(p, c) => {
            v.extend_from_slice(p);
            ser_all(c, &mut v);
        }
    }
    v.len()
}

fn ber_forms(t: &mut T, rng: &mut Rng, style: u8) {
    let cons = t.tag & 0x20 != 0;
    t.len = match style {
        0 => LenForm::Pad(rng.range(1, 4) as u8),
        1 => {
            if cons {
                LenForm::Indef
            } else {
                LenForm::Min
            }
        }
        _ => match rng.below(3) {
            0 if cons => LenForm::Indef,
            1 => LenForm::Pad(rng.range(1, 4) as u8),
            _ => LenForm::Min,
        },
    };
    if let Some(c) = t.children_mut() {
        for k in c {
            ber_forms(k, rng, style);
        }
    }
}

/// Turns a primitive string leaf into a constructed (BER) string: 1-4
/// segments (universal tag of the string type; OCTET STRING segments under an
/// implicitly tagged value), optionally nested one level, optionally with a
/// repeated or a dropped segment so that the assembled length differs from
/// the primitive original.
fn constructed_string(t: &mut T, rng: &mut Rng) {
    if let Body::Leaf(b) = &t.body {
        let inner_tag = if t.tag & 0xC0 == 0x80 { 0x04 } else { t.tag & !0x20 };
        let mut kids = Vec::new();
        let parts = 1 + rng.usize_below(4);
        let mut start = 0usize;
        for i in 0..parts {
            let end = if i + 1 == parts || b.is_empty() { b.len() } else { start + rng.usize_below(b.len() - start + 1) };
            kids.push(T::leaf(inner_tag, &b[start..end]));
            start = end;
        }
        match rng.below(6) {
            0 => {
                let k = kids[rng.usize_below(kids.len())].clone();
                kids.push(k);
            }
            1 if kids.len() > 1 => {
                let i = rng.usize_below(kids.len());
                kids.remove(i);
            }
            _ => {}
        }
        if rng.chance(1, 3) {
            let k = kids.pop().unwrap();
            kids.push(T { tag: inner_tag | 0x20, len: if rng.bool() { LenForm::Indef } else { LenForm::Min }, body: Body::Cons(vec![k]) });
        }
        t.tag |= 0x20;
        t.body = Body::Cons(kids);
        if rng.bool() {
            t.len = LenForm::Indef;
        }
    }
}

/// Applies one named tree mutation in place. Returns false when the tree has
/// no node the mutation applies to (caller picks another).
pub fn mutate_tree(f: &mut Vec<T>, name: &str, rng: &mut Rng, pools: &Pools) -> bool {
    let total = count_all(f);
    if total == 0 {
        return false;
    }
    let pick_where = |f: &Vec<T>, rng: &mut Rng, pred: &dyn Fn(&T) -> bool| -> Option<usize> {
        let v = find_all(f, pred);
        if v.is_empty() {
            None
        } else {
            Some(v[rng.usize_below(v.len())])
        }
    };
    match name {
        "tag" => {
            let i = rng.usize_below(total);
            let t = node_mut(f, i).unwrap();
            t.tag = match rng.below(6) {
                0 => t.tag ^ 0x20,
                1 => t.tag ^ (1 << rng.below(5)),
                2 => *rng.pick(&[0x30u8, 0x31, 0x02, 0x03, 0x04, 0x05, 0x06, 0x0C, 0x13, 0x16, 0x17, 0x18, 0x01]),
                3 => 0xA0 | rng.below(4) as u8,
                4 => 0x80 | rng.below(4) as u8,
                _ => rng.next_u32() as u8,
            };
            true
        }
        "len+1" | "len-1" | "len0" | "len-huge" => {
            let i = rng.usize_below(total);
            let t = node_mut(f, i).unwrap();
            let n = body_len(t);
            t.len = LenForm::Raw(match name {
                "len+1" => crate::der::len_bytes(n + rng.range(1, 3) as usize),
                "len-1" => crate::der::len_bytes(n.saturating_sub(rng.range(1, 3) as usize)),
                "len0" => vec![0],
                _ => match rng.below(5) {
                    0 => vec![0x84, 0xFF, 0xFF, 0xFF, 0xFF],
                    1 => vec![0x88, 0xFF, 0xFF, 0xFF, 0xFF, 0xFF, 0xFF, 0xFF, 0xFF],
                    2 => vec![0x84, 0x7F, 0xFF, 0xFF, 0xFF],
                    3 => vec![0x89, 1, 0, 0, 0, 0, 0, 0, 0, 0],
                    _ => vec![0xFF],
                },
            });
            true
        }
        "len-indef" => {
            let i = rng.usize_below(total);
            let t = node_mut(f, i).unwrap();
            t.len = LenForm::Indef;
            true
        }
        "len-pad" => {
            let i = rng.usize_below(total);
            let t = node_mut(f, i).unwrap();
            t.len = LenForm::Pad(rng.range(1, 5) as u8);
            true
        }
        "byte" => {
            let Some(i) = pick_where(f, rng, &|t| matches!(&t.body, Body::Leaf(b) if !b.is_empty())) else {
                return false;
            };
            let t = node_mut(f, i).unwrap();
            if let Body::Leaf(b) = &mut t.body {
                let k = 1 + rng.usize_below(3);
                for _ in 0..k {
                    let p = rng.usize_below(b.len());
                    b[p] = match rng.below(4) {
                        0 => b[p] ^ (1 << rng.below(8)),
                        1 => 0,
                        2 => 0xFF,
                        _ => rng.next_u32() as u8,
                    };
                }
            }
            true
        }
        "splice" => {
            if pools.donors.is_empty() {
                return false;
            }
            let d = &pools.donors[rng.usize_below(pools.donors.len())];
            let dn = count_all(d);
            if dn == 0 {
                return false;
            }
            let donor = node(d, rng.usize_below(dn)).unwrap().clone();
            let i = rng.usize_below(total);
            *node_mut(f, i).unwrap() = donor;
            true
        }
        "dup" | "del" | "swap" => {
            let Some(i) = pick_where(f, rng, &has_kids) else {
                if name == "dup" {
                    let c = f[0].clone();
                    f.push(c);
                    return true;
                }
                return false;
            };
            let kids = node_mut(f, i).unwrap().children_mut().unwrap();
            let k = rng.usize_below(kids.len());
            match name {
                "dup" => {
                    let c = kids[k].clone();
                    let times = if rng.chance(1, 8) { rng.range(2, 40) } else { 1 };
                    for _ in 0..times {
                        kids.insert(k, c.clone());
                    }
                }
                "del" => {
                    kids.remove(k);
                }
                _ => {
                    if kids.len() < 2 {
                        return false;
                    }
                    let j = rng.usize_below(kids.len());
                    kids.swap(k, j);
                }
            }
            true
        }
        "int" => {
            let Some(i) = pick_where(f, rng, &is_int) else { return false };
            let t = node_mut(f, i).unwrap();
            t.body = Body::Leaf(INT_VALUES[rng.usize_below(INT_VALUES.len())].to_vec());
            true
        }
        "time" => {
            let Some(i) = pick_where(f, rng, &is_time) else { return false };
            let t = node_mut(f, i).unwrap();
            let (v, tag) = TIME_VALUES[rng.usize_below(TIME_VALUES.len())];
            t.body = Body::Leaf(v.to_vec());
            if rng.chance(2, 3) {
                t.tag = tag;
            }
            true
        }
        "oid" => {
            let Some(i) = pick_where(f, rng, &is_oid) else { return false };
            let t = node_mut(f, i).unwrap();
            t.body = Body::Leaf(match rng.below(8) {
                0 => vec![],
                1 => vec![0x80],
                2 => vec![0x2A, 0x86, 0x48, 0x86, 0xF7, 0x0D, 0x01, 0x09, 0x10, 0x01, 0x80 | rng.next_u32() as u8],
                3 => vec![0xFF; 12],
                _ if !pools.oids.is_empty() => pools.oids[rng.usize_below(pools.oids.len())].clone(),
                _ => vec![0x55, 0x1D, 0x13],
            });
            true
        }
        "bitstr" => {
            let Some(i) = pick_where(f, rng, &is_bits) else { return false };
            let t = node_mut(f, i).unwrap();
            match &mut t.body {
                Body::Leaf(b) => {
                    if b.is_empty() {
                        b.push(rng.below(9) as u8);
                    } else {
                        match rng.below(5) {
                            0 => b[0] = rng.range(1, 7) as u8,
                            1 => b[0] = rng.range(8, 255) as u8,
                            2 => {
                                b[0] = rng.range(1, 7) as u8;
                                let l = b.len();
                                b[l - 1] |= 1;
                            }
                            3 => b.truncate(1),
                            _ => {
                                // over-long address: 17..=20 octets
                                let n = rng.range(17, 20) as usize;
                                b.truncate(1);
                                b.extend((0..n).map(|_| rng.next_u32() as u8));
                            }
                        }
                    }
                }
                Body::Wrap(p, _) => {
                    if p.is_empty() {
                        p.push(0);
                    }
                    p[0] = rng.range(1, 9) as u8;
                }
                Body::Cons(_) => return false,
            }
            true
        }
        "addr" => {
            // an address-sized BIT STRING (prefix, or one end of a range) set to a
            // value at the edge of the address space, still valid DER: empty
            // (a range end at the first / last address of the family), all
            // ones, all zeros, a single leading one, full family length
            let Some(i) = pick_where(f, rng, &|t| t.tag == 0x03 && matches!(&t.body, Body::Leaf(b) if b.len() <= 17)) else {
                return false;
            };
            let t = node_mut(f, i).unwrap();
            let n = *rng.pick(&[0usize, 0, 1, 2, 3, 4, 4, 5, 8, 15, 16, 16]);
            let fill = *rng.pick(&[0x00u8, 0xFF, 0xFF, 0x80, 0x01, 0x7F, 0xFE]);
            let mut b = vec![0u8];
            b.extend(std::iter::repeat(fill).take(n));
            if n > 0 && rng.chance(1, 3) {
                let unused = rng.range(1, 7) as u8;
                b[0] = unused;
                let l = b.len();
                b[l - 1] &= !((1u8 << unused) - 1);
            }
            t.body = Body::Leaf(b);
            true
        }
        "ber-subtree" => {
            let i = if rng.chance(1, 3) { 0 } else { rng.usize_below(total) };
            let style = rng.below(3) as u8;
            let t = node_mut(f, i).unwrap();
            ber_forms(t, rng, style);
            true
        }
        "empty" => {
            let i = rng.usize_below(total);
            let t = node_mut(f, i).unwrap();
            t.body = if t.tag & 0x20 != 0 { Body::Cons(Vec::new()) } else { Body::Leaf(Vec::new()) };
            true
        }
        "grow" => {
            let Some(i) = pick_where(f, rng, &|t| matches!(t.body, Body::Leaf(_))) else { return false };
            let t = node_mut(f, i).unwrap();
            if let Body::Leaf(b) = &mut t.body {
                let n = *rng.pick(&[1usize, 2, 16, 17, 21, 127, 128, 255, 256, 1000, 1001, 65536]);
                let fill = rng.next_u32() as u8;
                b.extend(std::iter::repeat(fill).take(n));
            }
            true
        }
        "retag-string" => {
            let Some(i) = pick_where(f, rng, &is_string) else { return false };
            let t = node_mut(f, i).unwrap();
            constructed_string(t, rng);
            true
        }
        _ => false,
    }
}

pub fn mutate_raw(data: &mut Vec<u8>, name: &str, rng: &mut Rng) {
    if data.is_empty() {
        data.push(rng.next_u32() as u8);
        return;
    }
    match name {
        "raw-flip" => {
            let k = 1 + rng.usize_below(4);
            for _ in 0..k {
                let p = rng.usize_below(data.len());
                data[p] ^= 1 << rng.below(8);
            }
        }
        "raw-set" => {
            let p = rng.usize_below(data.len());
            data[p] = *rng.pick(&[0u8, 0xFF, 0x80, 0x7F, 0x30, 0x81, 0x82, 0x84]);
        }
        "raw-insert" => {
            let p = rng.usize_below(data.len() + 1);
            let n = 1 + rng.usize_below(8);
            let bytes = rng.bytes(n);
            data.splice(p..p, bytes);
        }
        "raw-delete" => {
            let p = rng.usize_below(data.len());
            let n = (1 + rng.usize_below(8)).min(data.len() - p);
            data.drain(p..p + n);
        }
        _ => {
            let a = rng.usize_below(data.len());
            let n = (1 + rng.usize_below(64)).min(data.len() - a);
            let block = data[a..a + n].to_vec();
            let p = rng.usize_below(data.len() + 1);
            if rng.bool() {
                data.splice(p..p, block);
            } else {
                let m = n.min(data.len() - p.min(data.len()));
                let p = p.min(data.len() - m);
                data[p..p + m].copy_from_slice(&block[..m]);
            }
        }
    }
}

/// All offsets that are TLV boundaries (tag, first content byte, end) of the
/// forest's serialisation — the truncation points of the "every boundary" class.
pub fn boundaries(f: &[T]) -> Vec<usize> {
    fn rec(t: &T, base: usize, out: &mut Vec<usize>) -> usize {
        let mut whole = Vec::new();
        t.ser(&mut whole);
        let total = whole.len();
        let blen = body_len(t);
        let trailer = if matches!(t.len, LenForm::Indef) { 2 } else { 0 };
        let header = total - blen - trailer;
        out.push(base);
        out.push(base + 1);
        out.push(base + header);
        let mut p = base + header;
        match &t.body {
            Body::Leaf(_) => {}
            Body::Cons(c) => {
                for k in c {
                    p += rec(k, p, out);
                }
            }
            Body::Wrap(pre, c) => {
                p += pre.len();
                for k in c {
                    p += rec(k, p, out);
                }
            }
        }
        out.push(base + total);
        total
    }
    let mut out = Vec::new();
    let mut p = 0;
    for t in f {
        p += rec(t, p, &mut out);
    }
    out.sort_unstable();
    out.dedup();
    out
}

/// `depth` levels of a constructed value around `core`.
pub fn nest(tag: u8, depth: usize, indefinite: bool, core: &[u8]) -> Vec<u8> {
    if indefinite {
        let mut out = Vec::with_capacity(depth * 4 + core.len());
        for _ in 0..depth {
            out.push(tag | 0x20);
            out.push(0x80);
        }
        out.extend_from_slice(core);
        for _ in 0..depth {
            out.extend_from_slice(&[0, 0]);
        }
        out
    } else {
        // build inside-out without quadratic copying: compute lengths first
        let mut lens = Vec::with_capacity(depth);
        let mut cur = core.len();
        for _ in 0..depth {
            lens.push(cur);
            cur += 1 + crate::der::len_bytes(cur).len();
        }
        let mut out = Vec::with_capacity(cur);
        for l in lens.iter().rev() {
            out.push(tag | 0x20);
            out.extend_from_slice(&crate::der::len_bytes(*l));
        }
        out.extend_from_slice(core);
        out
    }
}

//------------ Re-signing ----------------------------------------------------
//
// After a mutation inside a signed region the signatures can be recomputed
// with the pool keys, so that hostile content gets past the signature checks
// of validate*/process and reaches the code behind them. Only the structure
// (which TLV is signed by which key) is assumed here; nothing is taken from
// the library.

pub fn at<'a>(f: &'a [T], path: &[usize]) -> Option<&'a T> {
    let (first, rest) = path.split_first()?;
    let mut n = f.get(*first)?;
    for i in rest {
        n = n.children()?.get(*i)?;
    }
    Some(n)
}

pub fn at_mut<'a>(f: &'a mut [T], path: &[usize]) -> Option<&'a mut T> {
    let (first, rest) = path.split_first()?;
    let mut n = f.get_mut(*first)?;
    for i in rest {
        n = n.children_mut()?.get_mut(*i)?;
    }
    Some(n)
}

fn content_octets(t: &T) -> Vec<u8> {
    let mut v = Vec::new();
    match &t.body {
        Body::Leaf(b) => v.extend_from_slice(b),
        Body::Cons(c) => ser_all(c, &mut v),
        Body::Wrap(p, c) => {
            v.extend_from_slice(p);
            ser_all(c, &mut v);
        }
    }
    v
}

/// `SEQUENCE { tbs, algorithm, BIT STRING signature }` at `path`: signs the
/// serialised tbs with `sign` and stores the signature.
pub fn resign_x509(f: &mut [T], path: &[usize], sign: &dyn Fn(&[u8]) -> Vec<u8>) -> bool {
    let Some(n) = at(f, path) else { return false };
    let Some(kids) = n.children() else { return false };
    if kids.len() != 3 || kids[2].tag != 0x03 {
        return false;
    }
    let mut tbs = Vec::new();
    kids[0].ser(&mut tbs);
    let mut sig = vec![0u8];
    sig.extend_from_slice(&sign(&tbs));
    let n = at_mut(f, path).unwrap();
    let k = n.children_mut().unwrap();
    k[2].body = Body::Leaf(sig);
    k[2].len = LenForm::Min;
    true
}

pub const OID_MESSAGE_DIGEST: &[u8] = &[0x2A, 0x86, 0x48, 0x86, 0xF7, 0x0D, 0x01, 0x09, 0x04];

/// Paths inside a CMS SignedData object as produced by the seeds.
pub struct CmsLayout {
    pub econtent: Vec<usize>,
    pub cert: Vec<usize>,
    pub crl: Option<Vec<usize>>,
    pub signer_info: Vec<usize>,
}

pub fn cms_layout(f: &[T]) -> Option<CmsLayout> {
    let sd = at(f, &[0, 1, 0])?;
    let kids = sd.children()?;
    if kids.len() < 5 || kids[3].tag != 0xA0 {
        return None;
    }
    let has_crl = kids[4].tag == 0xA1;
    let si_set = if has_crl { 5 } else { 4 };
    if kids.get(si_set)?.tag != 0x31 {
        return None;
    }
    Some(CmsLayout {
        econtent: vec![0, 1, 0, 2, 1, 0],
        cert: vec![0, 1, 0, 3, 0],
        crl: if has_crl { Some(vec![0, 1, 0, 4, 0]) } else { None },
        signer_info: vec![0, 1, 0, si_set, 0],
    })
}

/// Recomputes, inside out: messageDigest attribute, signature over the signed
/// attributes (EE key), EE certificate signature and CRL signature (issuer key).
pub fn resign_cms(
    f: &mut [T],
    sha256: &dyn Fn(&[u8]) -> Vec<u8>,
    sign_ee: &dyn Fn(&[u8]) -> Vec<u8>,
    sign_issuer: &dyn Fn(&[u8]) -> Vec<u8>,
) -> bool {
    let Some(lay) = cms_layout(f) else { return false };
    // 1. digest of the eContent octets (constructed strings: concatenation of the primitive parts)
    let Some(ec) = at(f, &lay.econtent) else { return false };
    fn flat(t: &T, out: &mut Vec<u8>) {
        if t.tag & 0x20 != 0 {
            if let Some(c) = t.children() {
                for k in c {
                    flat(k, out);
                }
            }
        } else {
            out.extend_from_slice(&content_octets(t));
        }
    }
    let mut content = Vec::new();
    flat(ec, &mut content);
    let digest = sha256(&content);
    // 2. message digest attribute
    let mut attrs_path = lay.signer_info.clone();
    attrs_path.push(3);
    let Some(attrs) = at_mut(f, &attrs_path) else { return false };
    if attrs.tag != 0xA0 {
        return false;
    }
    let mut set = false;
    if let Some(list) = attrs.children_mut() {
        for a in list.iter_mut() {
            let Some(ak) = a.children_mut() else { continue };
            if ak.len() == 2 && matches!(&ak[0].body, Body::Leaf(b) if b == OID_MESSAGE_DIGEST) {
                if let Some(vals) = ak[1].children_mut() {
                    if let Some(v) = vals.get_mut(0) {
                        v.body = Body::Leaf(digest.clone());
                        set = true;
                    }
                }
            }
        }
    }
    let _ = set;
    // 3. signature over SET OF attributes
    let attrs = at(f, &attrs_path).unwrap();
    let body = content_octets(attrs);
    let mut msg = vec![0x31];
    msg.extend_from_slice(&crate::der::len_bytes(body.len()));
    msg.extend_from_slice(&body);
    let sig = sign_ee(&msg);
    let mut sig_path = lay.signer_info.clone();
    sig_path.push(5);
    match at_mut(f, &sig_path) {
        Some(n) if n.tag == 0x04 => n.body = Body::Leaf(sig),
        _ => return false,
    }
    // 4. EE certificate and CRL
    let ok = resign_x509(f, &lay.cert, sign_issuer);
    if let Some(crl) = &lay.crl {
        resign_x509(f, crl, sign_issuer);
    }
    ok
}
