//! C07 bridge to the code under test: builds library PDUs from the model
//! values, writes them with the library, and runs every library read entry
//! point over an `AsyncRead`, normalising the outcome.

use crate::c07_io::{drive_now, Pdu};
use bytes::Bytes;
use rpki::crypto::keys::KeyIdentifier;
use rpki::resources::addr::{MaxLenPrefix, Prefix};
use rpki::resources::asn::Asn;
use rpki::rtr::payload as item;
use rpki::rtr::pdu;
use rpki::rtr::state::{Serial, State};
use std::io;
use std::net::{Ipv4Addr, Ipv6Addr};
use tokio::io::AsyncRead;

//------------ Kind / Entry ---------------------------------------------------

#[derive(Clone, Copy, Debug, PartialEq, Eq, Hash)]
pub enum Kind {
    SerialNotify,
    SerialQuery,
    ResetQuery,
    CacheResponse,
    V4,
    V6,
    EodV0,
    EodV1,
    /// `EndOfData::read_payload` (chooses by the header's version)
    Eod,
    CacheReset,
    RouterKey,
    /// `Error::skip_payload`
    Error,
    Aspa,
}

impl Kind {
    pub fn name(self) -> &'static str {
        match self {
            Kind::SerialNotify => "SerialNotify",
            Kind::SerialQuery => "SerialQuery",
            Kind::ResetQuery => "ResetQuery",
            Kind::CacheResponse => "CacheResponse",
            Kind::V4 => "Ipv4Prefix",
            Kind::V6 => "Ipv6Prefix",
            Kind::EodV0 => "EndOfDataV0",
            Kind::EodV1 => "EndOfDataV1",
            Kind::Eod => "EndOfData",
            Kind::CacheReset => "CacheReset",
            Kind::RouterKey => "RouterKey",
            Kind::Error => "Error",
            Kind::Aspa => "Aspa",
        }
    }

    pub fn type_code(self) -> u8 {
        match self {
            Kind::SerialNotify => 0,
            Kind::SerialQuery => 1,
            Kind::ResetQuery => 2,
            Kind::CacheResponse => 3,
            Kind::V4 => 4,
            Kind::V6 => 6,
            Kind::EodV0 | Kind::EodV1 | Kind::Eod => 7,
            Kind::CacheReset => 8,
            Kind::RouterKey => 9,
            Kind::Error => 10,
            Kind::Aspa => 11,
        }
    }

    /// The kind with a typed `read` for a model value.
    pub fn of(m: &Pdu) -> Kind {
        match m {
            Pdu::SerialNotify { .. } => Kind::SerialNotify,
            Pdu::SerialQuery { .. } => Kind::SerialQuery,
            Pdu::ResetQuery { .. } => Kind::ResetQuery,
            Pdu::CacheResponse { .. } => Kind::CacheResponse,
            Pdu::V4 { .. } => Kind::V4,
            Pdu::V6 { .. } => Kind::V6,
            Pdu::EndOfData { v: 0, .. } => Kind::EodV0,
            Pdu::EndOfData { .. } => Kind::EodV1,
            Pdu::CacheReset { .. } => Kind::CacheReset,
            Pdu::RouterKey { .. } => Kind::RouterKey,
            Pdu::Error { .. } => Kind::Error,
            Pdu::Aspa { .. } => Kind::Aspa,
        }
    }

    /// Has `try_read` (the fixed-layout types).
    pub fn has_try_read(self) -> bool {
        !matches!(self, Kind::RouterKey | Kind::Aspa | Kind::Error | Kind::Eod)
    }

    /// Has a typed `read`.
    pub fn has_read(self) -> bool {
        !matches!(self, Kind::Error | Kind::Eod)
    }
}

/// A library function (or the documented two-step use of two of them) that
/// reads one PDU from a stream.
#[derive(Clone, Copy, Debug, PartialEq, Eq, Hash)]
pub enum Entry {
    /// `X::read`
    Typed(Kind),
    /// `X::try_read`
    Try(Kind),
    /// `Payload::read`
    PayloadRead,
    /// `Header::read` followed by `X::read_payload(header, ..)` /
    /// `EndOfData::read_payload` / `Error::skip_payload`
    HeaderPayload(Kind),
    /// `Header::read` followed by `SerialQueryPayload::read` (what the server does)
    SqPayload,
    /// `Header::read`, then the `read_payload` of the type the header names
    /// (what client and server do); unknown types are not handed to the library
    Dispatch,
    /// `Header::read` alone
    HeaderOnly,
}

impl Entry {
    pub fn label(self) -> String {
        match self {
            Entry::Typed(k) => format!("{}::read", k.name()),
            Entry::Try(k) => format!("{}::try_read", k.name()),
            Entry::PayloadRead => "Payload::read".into(),
            Entry::HeaderPayload(Kind::Error) => "Header::read+Error::skip_payload".into(),
            Entry::HeaderPayload(k) => format!("Header::read+{}::read_payload", k.name()),
            Entry::SqPayload => "Header::read+SerialQueryPayload::read".into(),
            Entry::Dispatch => "Header::read+dispatch-on-type".into(),
            Entry::HeaderOnly => "Header::read".into(),
        }
    }
}

//------------ Lib ------------------------------------------------------------

/// A value of the library, normalised so that the same PDU read through
/// different entry points compares equal.
#[derive(Clone, Debug, PartialEq, Eq)]
pub enum Lib {
    SerialNotify(pdu::SerialNotify),
    SerialQuery(pdu::SerialQuery),
    ResetQuery(pdu::ResetQuery),
    CacheResponse(pdu::CacheResponse),
    CacheReset(pdu::CacheReset),
    Payload(pdu::Payload),
    Eod(pdu::EndOfData),
    Error(pdu::Error),
    /// header + serial query payload
    Sq(pdu::Header, pdu::SerialQueryPayload),
    Header(pdu::Header),
}

fn asns(v: &[u32]) -> pdu::ProviderAsns {
    pdu::ProviderAsns::try_from_iter(v.iter().map(|a| Asn::from_u32(*a))).expect("model keeps provider count within MAX_COUNT")
}

/// Builds the library value for a model value with the library's public
/// constructors. Payload items marked `via_item` go through
/// `payload::Payload` + `pdu::Payload::new`, the others through the raw
/// PDU constructors. Returns the item too where there is one.
pub fn build(m: &Pdu) -> (Lib, Option<item::Payload>) {
    match m {
        Pdu::SerialNotify { v, session, serial } => {
            (Lib::SerialNotify(pdu::SerialNotify::new(*v, State::from_parts(*session, Serial(*serial)))), None)
        }
        Pdu::SerialQuery { v, session, serial } => {
            (Lib::SerialQuery(pdu::SerialQuery::new(*v, State::from_parts(*session, Serial(*serial)))), None)
        }
        Pdu::ResetQuery { v } => (Lib::ResetQuery(pdu::ResetQuery::new(*v)), None),
        Pdu::CacheResponse { v, session } => {
            (Lib::CacheResponse(pdu::CacheResponse::new(*v, State::from_parts(*session, Serial(0)))), None)
        }
        Pdu::CacheReset { v } => (Lib::CacheReset(pdu::CacheReset::new(*v)), None),
        Pdu::V4 { v, flags, plen, mlen, addr, asn, via_item, explicit_max } => {
            if *via_item {
                let prefix = Prefix::new_v4(Ipv4Addr::from(*addr), *plen).expect("model: valid v4 prefix");
                let mp = MaxLenPrefix::new(prefix, if *explicit_max { Some(*mlen) } else { None }).expect("model: valid max len");
                let it = item::Payload::origin(mp, Asn::from_u32(*asn));
                (Lib::Payload(pdu::Payload::new(*v, *flags, it.as_ref())), Some(it))
            } else {
                (
                    Lib::Payload(pdu::Payload::V4(pdu::Ipv4Prefix::new(*v, *flags, *plen, *mlen, Ipv4Addr::from(*addr), Asn::from_u32(*asn)))),
                    None,
                )
            }
        }
        Pdu::V6 { v, flags, plen, mlen, addr, asn, via_item, explicit_max } => {
            if *via_item {
                let prefix = Prefix::new_v6(Ipv6Addr::from(*addr), *plen).expect("model: valid v6 prefix");
                let mp = MaxLenPrefix::new(prefix, if *explicit_max { Some(*mlen) } else { None }).expect("model: valid max len");
                let it = item::Payload::origin(mp, Asn::from_u32(*asn));
                (Lib::Payload(pdu::Payload::new(*v, *flags, it.as_ref())), Some(it))
            } else {
                (
                    Lib::Payload(pdu::Payload::V6(pdu::Ipv6Prefix::new(*v, *flags, *plen, *mlen, Ipv6Addr::from(*addr), Asn::from_u32(*asn)))),
                    None,
                )
            }
        }
        Pdu::EndOfData { v, session, serial, refresh, retry, expire } => (
            Lib::Eod(pdu::EndOfData::new(
                *v,
                State::from_parts(*session, Serial(*serial)),
                item::Timing { refresh: *refresh, retry: *retry, expire: *expire },
            )),
            None,
        ),
        Pdu::RouterKey { v, flags, ski, asn, info, via_item } => {
            let ki = pdu::RouterKeyInfo::new(Bytes::from(info.clone())).expect("model: key info fits");
            if *via_item {
                let it = item::Payload::router_key(KeyIdentifier::from(*ski), Asn::from_u32(*asn), ki);
                (Lib::Payload(pdu::Payload::new(*v, *flags, it.as_ref())), Some(it))
            } else {
                (Lib::Payload(pdu::Payload::RouterKey(pdu::RouterKey::new(*v, *flags, *ski, Asn::from_u32(*asn), ki))), None)
            }
        }
        Pdu::Error { v, code, pdu: inner, text } => (Lib::Error(pdu::Error::new(*v, *code, inner, text)), None),
        Pdu::Aspa { v, flags, customer, providers, via_item } => {
            if *via_item {
                let it = item::Payload::aspa(Asn::from_u32(*customer), asns(providers));
                (Lib::Payload(pdu::Payload::new(*v, *flags, it.as_ref())), Some(it))
            } else {
                (Lib::Payload(pdu::Payload::Aspa(pdu::Aspa::new(*v, *flags, Asn::from_u32(*customer), asns(providers)))), None)
            }
        }
    }
}

/// Writes the value with the library's own `write` into a `Vec`.
pub fn write(l: &Lib) -> Option<Vec<u8>> {
    let mut out: Vec<u8> = Vec::new();
    let res = match l {
        Lib::SerialNotify(x) => drive_now(x.write(&mut out)),
        Lib::SerialQuery(x) => drive_now(x.write(&mut out)),
        Lib::ResetQuery(x) => drive_now(x.write(&mut out)),
        Lib::CacheResponse(x) => drive_now(x.write(&mut out)),
        Lib::CacheReset(x) => drive_now(x.write(&mut out)),
        Lib::Payload(x) => drive_now(x.write(&mut out)),
        Lib::Eod(x) => drive_now(x.write(&mut out)),
        Lib::Error(x) => drive_now(x.write(&mut out)),
        Lib::Sq(h, p) => {
            let a = drive_now(h.write(&mut out));
            match a {
                Some(Ok(())) => drive_now(p.write(&mut out)),
                other => other,
            }
        }
        Lib::Header(h) => drive_now(h.write(&mut out)),
    };
    match res {
        Some(Ok(())) => Some(out),
        _ => None,
    }
}

/// `as_ref()` length where the type offers the octets of the whole PDU.
pub fn as_ref_len(l: &Lib) -> Option<usize> {
    match l {
        Lib::SerialNotify(x) => Some(x.as_ref().len()),
        Lib::SerialQuery(x) => Some(x.as_ref().len()),
        Lib::ResetQuery(x) => Some(x.as_ref().len()),
        Lib::CacheResponse(x) => Some(x.as_ref().len()),
        Lib::CacheReset(x) => Some(x.as_ref().len()),
        Lib::Payload(pdu::Payload::V4(x)) => Some(x.as_ref().len()),
        Lib::Payload(pdu::Payload::V6(x)) => Some(x.as_ref().len()),
        Lib::Payload(_) => None,
        Lib::Eod(x) => Some(x.as_ref().len()),
        Lib::Error(x) => Some(x.as_ref().len()),
        Lib::Sq(..) | Lib::Header(_) => None,
    }
}

/// The `size()` the type reports, if it has one.
pub fn size_of(l: &Lib) -> Option<u32> {
    match l {
        Lib::SerialNotify(_) => Some(pdu::SerialNotify::size()),
        Lib::SerialQuery(_) => Some(pdu::SerialQuery::size()),
        Lib::ResetQuery(_) => Some(pdu::ResetQuery::size()),
        Lib::CacheResponse(_) => Some(pdu::CacheResponse::size()),
        Lib::CacheReset(_) => Some(pdu::CacheReset::size()),
        Lib::Payload(pdu::Payload::V4(_)) => Some(pdu::Ipv4Prefix::size()),
        Lib::Payload(pdu::Payload::V6(_)) => Some(pdu::Ipv6Prefix::size()),
        Lib::Payload(pdu::Payload::RouterKey(k)) => Some(k.size()),
        Lib::Payload(pdu::Payload::Aspa(a)) => Some(a.size()),
        Lib::Payload(_) => None,
        Lib::Eod(pdu::EndOfData::V0(_)) => Some(pdu::EndOfDataV0::size()),
        Lib::Eod(pdu::EndOfData::V1(_)) => Some(pdu::EndOfDataV1::size()),
        Lib::Error(_) | Lib::Sq(..) | Lib::Header(_) => None,
    }
}

//------------ reading --------------------------------------------------------

/// Normalised outcome of one entry point on one stream position.
#[derive(Clone, Debug)]
pub enum Got {
    /// a PDU was returned
    Pdu(Lib),
    /// `try_read` handed back the header of an Error PDU
    ErrorHeader(pdu::Header),
    /// `skip_payload` returned Ok
    Skipped,
    /// `Payload::read` returned `Ok(Ok(None))`
    Unsupported,
    /// an `io::Error`
    Err(io::ErrorKind, String),
    /// Dispatch: the header names a type this harness has no reader for
    NotHandled(u8),
}

impl Got {
    fn err(e: io::Error) -> Got {
        Got::Err(e.kind(), e.to_string())
    }

    pub fn is_err(&self) -> bool {
        matches!(self, Got::Err(..))
    }

    pub fn describe(&self) -> String {
        match self {
            Got::Pdu(l) => format!("Ok({:?})", l).chars().take(300).collect(),
            Got::ErrorHeader(h) => format!("Ok(Err({:?}))", h),
            Got::Skipped => "Ok(()) from skip_payload".into(),
            Got::Unsupported => "Ok(Ok(None))".into(),
            Got::Err(k, m) => format!("Err({:?}: {})", k, m),
            Got::NotHandled(t) => format!("type {} not handed to the library", t),
        }
    }
}

macro_rules! fixed_read {
    ($t:ty, $wrap:expr, $rd:expr) => {
        match <$t>::read($rd).await {
            Ok(v) => Got::Pdu($wrap(v)),
            Err(e) => Got::err(e),
        }
    };
}

macro_rules! fixed_try {
    ($t:ty, $wrap:expr, $rd:expr) => {
        match <$t>::try_read($rd).await {
            Ok(Ok(v)) => Got::Pdu($wrap(v)),
            Ok(Err(h)) => Got::ErrorHeader(h),
            Err(e) => Got::err(e),
        }
    };
}

macro_rules! fixed_payload {
    ($t:ty, $wrap:expr, $h:expr, $rd:expr) => {
        match <$t>::read_payload($h, $rd).await {
            Ok(v) => Got::Pdu($wrap(v)),
            Err(e) => Got::err(e),
        }
    };
}

fn w_v4(x: pdu::Ipv4Prefix) -> Lib {
    Lib::Payload(pdu::Payload::V4(x))
}
fn w_v6(x: pdu::Ipv6Prefix) -> Lib {
    Lib::Payload(pdu::Payload::V6(x))
}
fn w_rk(x: pdu::RouterKey) -> Lib {
    Lib::Payload(pdu::Payload::RouterKey(x))
}
fn w_aspa(x: pdu::Aspa) -> Lib {
    Lib::Payload(pdu::Payload::Aspa(x))
}
fn w_e0(x: pdu::EndOfDataV0) -> Lib {
    Lib::Eod(pdu::EndOfData::V0(x))
}
fn w_e1(x: pdu::EndOfDataV1) -> Lib {
    Lib::Eod(pdu::EndOfData::V1(x))
}

async fn payload_of<R: AsyncRead + Unpin>(k: Kind, h: pdu::Header, rd: &mut R) -> Got {
    match k {
        Kind::SerialNotify => fixed_payload!(pdu::SerialNotify, Lib::SerialNotify, h, rd),
        Kind::SerialQuery => fixed_payload!(pdu::SerialQuery, Lib::SerialQuery, h, rd),
        Kind::ResetQuery => fixed_payload!(pdu::ResetQuery, Lib::ResetQuery, h, rd),
        Kind::CacheResponse => fixed_payload!(pdu::CacheResponse, Lib::CacheResponse, h, rd),
        Kind::CacheReset => fixed_payload!(pdu::CacheReset, Lib::CacheReset, h, rd),
        Kind::V4 => fixed_payload!(pdu::Ipv4Prefix, w_v4, h, rd),
        Kind::V6 => fixed_payload!(pdu::Ipv6Prefix, w_v6, h, rd),
        Kind::EodV0 => fixed_payload!(pdu::EndOfDataV0, w_e0, h, rd),
        Kind::EodV1 => fixed_payload!(pdu::EndOfDataV1, w_e1, h, rd),
        Kind::Eod => fixed_payload!(pdu::EndOfData, Lib::Eod, h, rd),
        Kind::RouterKey => fixed_payload!(pdu::RouterKey, w_rk, h, rd),
        Kind::Aspa => fixed_payload!(pdu::Aspa, w_aspa, h, rd),
        Kind::Error => match pdu::Error::skip_payload(h, rd).await {
            Ok(()) => Got::Skipped,
            Err(e) => Got::err(e),
        },
    }
}

/// The kind whose `read_payload` client and server call for a type code.
pub fn dispatch_kind(t: u8) -> Option<Kind> {
    Some(match t {
        0 => Kind::SerialNotify,
        1 => Kind::SerialQuery,
        2 => Kind::ResetQuery,
        3 => Kind::CacheResponse,
        4 => Kind::V4,
        6 => Kind::V6,
        7 => Kind::Eod,
        8 => Kind::CacheReset,
        9 => Kind::RouterKey,
        10 => Kind::Error,
        11 => Kind::Aspa,
        _ => return None,
    })
}

/// Runs one entry point once.
pub async fn run_entry<R: AsyncRead + Unpin>(e: Entry, rd: &mut R) -> Got {
    match e {
        Entry::Typed(k) => match k {
            Kind::SerialNotify => fixed_read!(pdu::SerialNotify, Lib::SerialNotify, rd),
            Kind::SerialQuery => fixed_read!(pdu::SerialQuery, Lib::SerialQuery, rd),
            Kind::ResetQuery => fixed_read!(pdu::ResetQuery, Lib::ResetQuery, rd),
            Kind::CacheResponse => fixed_read!(pdu::CacheResponse, Lib::CacheResponse, rd),
            Kind::CacheReset => fixed_read!(pdu::CacheReset, Lib::CacheReset, rd),
            Kind::V4 => fixed_read!(pdu::Ipv4Prefix, w_v4, rd),
            Kind::V6 => fixed_read!(pdu::Ipv6Prefix, w_v6, rd),
            Kind::EodV0 => fixed_read!(pdu::EndOfDataV0, w_e0, rd),
            Kind::EodV1 => fixed_read!(pdu::EndOfDataV1, w_e1, rd),
            Kind::RouterKey => fixed_read!(pdu::RouterKey, w_rk, rd),
            Kind::Aspa => fixed_read!(pdu::Aspa, w_aspa, rd),
            Kind::Eod | Kind::Error => Got::NotHandled(k.type_code()),
        },
        Entry::Try(k) => match k {
            Kind::SerialNotify => fixed_try!(pdu::SerialNotify, Lib::SerialNotify, rd),
            Kind::SerialQuery => fixed_try!(pdu::SerialQuery, Lib::SerialQuery, rd),
            Kind::ResetQuery => fixed_try!(pdu::ResetQuery, Lib::ResetQuery, rd),
            Kind::CacheResponse => fixed_try!(pdu::CacheResponse, Lib::CacheResponse, rd),
            Kind::CacheReset => fixed_try!(pdu::CacheReset, Lib::CacheReset, rd),
            Kind::V4 => fixed_try!(pdu::Ipv4Prefix, w_v4, rd),
            Kind::V6 => fixed_try!(pdu::Ipv6Prefix, w_v6, rd),
            Kind::EodV0 => fixed_try!(pdu::EndOfDataV0, w_e0, rd),
            Kind::EodV1 => fixed_try!(pdu::EndOfDataV1, w_e1, rd),
            _ => Got::NotHandled(k.type_code()),
        },
        Entry::PayloadRead => match pdu::Payload::read(rd).await {
            Ok(Ok(Some(p))) => Got::Pdu(Lib::Payload(p)),
            Ok(Ok(None)) => Got::Unsupported,
            Ok(Err(eod)) => Got::Pdu(Lib::Eod(eod)),
            Err(e) => Got::err(e),
        },
        Entry::HeaderPayload(k) => {
            let h = match pdu::Header::read(rd).await {
                Ok(h) => h,
                Err(e) => return Got::err(e),
            };
            payload_of(k, h, rd).await
        }
        Entry::SqPayload => {
            let h = match pdu::Header::read(rd).await {
                Ok(h) => h,
                Err(e) => return Got::err(e),
            };
            match pdu::SerialQueryPayload::read(rd).await {
                Ok(p) => Got::Pdu(Lib::Sq(h, p)),
                Err(e) => Got::err(e),
            }
        }
        Entry::Dispatch => {
            let h = match pdu::Header::read(rd).await {
                Ok(h) => h,
                Err(e) => return Got::err(e),
            };
            match dispatch_kind(h.pdu()) {
                Some(k) => payload_of(k, h, rd).await,
                None => Got::NotHandled(h.pdu()),
            }
        }
        Entry::HeaderOnly => match pdu::Header::read(rd).await {
            Ok(h) => Got::Pdu(Lib::Header(h)),
            Err(e) => Got::err(e),
        },
    }
}


//------------ short writes ---------------------------------------------------

/// An `AsyncWrite` that accepts at most `max` octets per call and answers
/// `Pending` before every second call — what a nearly full socket does.
pub struct ShortWriter {
    pub out: Vec<u8>,
    pub max: usize,
    pend: bool,
}

impl ShortWriter {
    pub fn new(max: usize) -> Self {
        ShortWriter { out: Vec::new(), max, pend: false }
    }
}

impl tokio::io::AsyncWrite for ShortWriter {
    fn poll_write(mut self: std::pin::Pin<&mut Self>, cx: &mut std::task::Context<'_>, buf: &[u8]) -> std::task::Poll<std::io::Result<usize>> {
        self.pend = !self.pend;
        if self.pend {
            cx.waker().wake_by_ref();
            return std::task::Poll::Pending;
        }
        let n = buf.len().min(self.max);
        self.out.extend_from_slice(&buf[..n]);
        std::task::Poll::Ready(Ok(n))
    }
    fn poll_flush(self: std::pin::Pin<&mut Self>, _: &mut std::task::Context<'_>) -> std::task::Poll<std::io::Result<()>> {
        std::task::Poll::Ready(Ok(()))
    }
    fn poll_shutdown(self: std::pin::Pin<&mut Self>, _: &mut std::task::Context<'_>) -> std::task::Poll<std::io::Result<()>> {
        std::task::Poll::Ready(Ok(()))
    }
}

/// Writes the value with the library's own `write` into a sink that takes at
/// most `max` octets per call. `None`: the write failed or did not finish.
pub fn write_short(l: &Lib, max: usize) -> Option<Vec<u8>> {
    use crate::c07_io::drive;
    let mut out = ShortWriter::new(max);
    let budget = 400_000;
    let res = match l {
        Lib::SerialNotify(x) => drive(x.write(&mut out), budget).0,
        Lib::SerialQuery(x) => drive(x.write(&mut out), budget).0,
        Lib::ResetQuery(x) => drive(x.write(&mut out), budget).0,
        Lib::CacheResponse(x) => drive(x.write(&mut out), budget).0,
        Lib::CacheReset(x) => drive(x.write(&mut out), budget).0,
        Lib::Payload(x) => drive(x.write(&mut out), budget).0,
        Lib::Eod(x) => drive(x.write(&mut out), budget).0,
        Lib::Error(x) => drive(x.write(&mut out), budget).0,
        Lib::Sq(h, p) => {
            let a = drive(h.write(&mut out), budget).0;
            match a {
                Some(Ok(())) => drive(p.write(&mut out), budget).0,
                other => other,
            }
        }
        Lib::Header(h) => drive(h.write(&mut out), budget).0,
    };
    match res {
        Some(Ok(())) => Some(out.out),
        _ => None,
    }
}
