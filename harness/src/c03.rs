//! C03 — resource sets behave as exact, canonical sets.
//!
//! Oracle: `crate::model::IntervalSet` for the denotation, an independent
//! canonical-form predicate for the representation, applied to every set the
//! public API hands back. Hook H1 additionally checks every chain created
//! inside the library during the workload.

use crate::c03_gen::{canonical_defect, sequence, small_sequence, small_sequence_count, Flavour, Seq};
use crate::core::{Ctx, Rng, Stage, Tier};
use crate::der;
use crate::model::IntervalSet;
use bcder::decode::IntoSource;
use bcder::encode::Values;
use bcder::Mode;
use rpki::repository::cert::Overclaim;
use rpki::repository::resources::{AsBlock, AsBlocks, AsBlocksBuilder, AsResources, Asn};
use serde_json::{json, Value};
use std::str::FromStr;

#[path = "c03_ber.rs"]
mod c03_ber;

pub type Obs = Vec<(u128, u128, bool)>;

pub fn blocks_json(b: &[(u128, u128)]) -> Value {
    Value::Array(b.iter().map(|(a, c)| json!([a.to_string(), c.to_string()])).collect())
}

pub fn obs_json(b: &Obs) -> Value {
    Value::Array(b.iter().map(|(a, c, r)| json!([a.to_string(), c.to_string(), if *r { "range" } else { "single/prefix" }])).collect())
}

/// Checks an observed set against canonical form and the model.
/// Returns true if fine.
pub fn check_set(ctx: &mut Ctx, fl: Flavour, op: &str, obs: &Obs, model: &IntervalSet, detail: impl FnOnce() -> Value) -> bool {
    ctx.eval();
    if let Some(defect) = canonical_defect(obs, fl != Flavour::As) {
        ctx.violation(
            &format!("C03:{}:{}:non-canonical:{}", fl.name(), op, defect),
            &format!("{} returned a set that is not in canonical form ({})", op, defect),
            json!({"observed": obs_json(obs), "expected_set": blocks_json(&model.iv), "case": detail()}),
        );
        return false;
    }
    let den = IntervalSet::from_ranges(&obs.iter().map(|(a, b, _)| (*a, *b)).collect::<Vec<_>>());
    if &den != model {
        ctx.violation(
            &format!("C03:{}:{}:wrong-set", fl.name(), op),
            &format!("{} returned a set that differs from the mathematical result", op),
            json!({"observed": obs_json(obs), "expected_set": blocks_json(&model.iv), "case": detail()}),
        );
        return false;
    }
    true
}

pub fn check_bool(ctx: &mut Ctx, fl: Flavour, op: &str, got: bool, want: bool, detail: impl FnOnce() -> Value) {
    ctx.eval();
    if got != want {
        ctx.violation(
            &format!("C03:{}:{}:wrong-answer", fl.name(), op),
            &format!("{} answered {} but the mathematical answer is {}", op, got, want),
            detail(),
        );
    }
}

//------------ AS ------------------------------------------------------------

fn asn(v: u128) -> Asn {
    Asn::from_u32(v as u32)
}

fn as_block(lo: u128, hi: u128, rng: &mut Rng) -> AsBlock {
    if lo == hi && rng.bool() {
        AsBlock::Id(asn(lo))
    } else {
        AsBlock::from((asn(lo), asn(hi)))
    }
}

pub fn observe_as(set: &AsBlocks) -> Obs {
    set.iter()
        .map(|b| (b.min().into_u32() as u128, b.max().into_u32() as u128, matches!(b, AsBlock::Range(_))))
        .collect()
}

/// One text item per block in the library's own syntax, written by the harness.
pub(crate) fn as_text_items(blocks: &[(u128, u128)], rng: &mut Rng) -> Vec<String> {
    let mut parts = Vec::new();
    for (lo, hi) in blocks {
        let pfx = *rng.pick(&["AS", "as", "", "As"]);
        if lo == hi && rng.bool() {
            parts.push(format!("{}{}", pfx, lo));
        } else {
            parts.push(format!("{}{}-{}{}", pfx, lo, pfx, hi));
        }
    }
    parts
}

/// SEQUENCE OF ASIdOrRange written by the independent encoder.
pub fn as_der(blocks: &[(u128, u128)], single_as_range: bool) -> Vec<u8> {
    let mut items = Vec::new();
    for (lo, hi) in blocks {
        if lo == hi && !single_as_range {
            items.push(der::uint(*lo));
        } else {
            items.push(der::seq(&[&der::uint(*lo), &der::uint(*hi)]));
        }
    }
    der::seq_of(&items)
}

/// Reads a SEQUENCE OF ASIdOrRange back with the independent reader.
fn as_der_read(data: &[u8]) -> Option<Vec<(u128, u128)>> {
    let root = der::parse(data)?;
    let mut out = Vec::new();
    let int = |n: &der::Node| -> Option<u128> {
        let c = n.content(data);
        if n.tag != der::T_INTEGER || c.is_empty() || c.len() > 5 {
            return None;
        }
        let mut v: u128 = 0;
        for b in c {
            v = (v << 8) | *b as u128;
        }
        Some(v)
    };
    for c in &root.children {
        if c.tag == der::T_INTEGER {
            let v = int(c)?;
            out.push((v, v));
        } else if c.tag == der::T_SEQUENCE && c.children.len() == 2 {
            out.push((int(&c.children[0])?, int(&c.children[1])?));
        } else {
            return None;
        }
    }
    Some(out)
}

pub(crate) fn is_canonical_input(fl: Flavour, blocks: &[(u128, u128)]) -> bool {
    let v: Obs = blocks.iter().map(|(a, b)| { let (x, y) = fl.embed(*a, *b); (x, y, false) }).collect();
    canonical_defect(&v, false).is_none()
}

//------------ every public entry point that yields AS blocks ----------------
//
// Written from the `pub fn` / trait-impl surface of
// src/repository/resources/{asres,set,choice}.rs; see c03_ip.rs for the
// address half.

pub const AS_DER_ENTRIES: &[&str] = &[
    "AsBlocks::take_from",
    "AsResources::take_from",
    "AsBlock::take_opt_from+collect",
    "item:AsBlock::take_opt_from+collect",
];

pub const AS_TEXT_ENTRIES: &[&str] = &[
    "AsBlocks::from_str",
    "AsResources::from_str",
    "AsBlocks::deserialize",
    "AsResources::deserialize",
    "ResourceSet::from_strs",
    "ResourceSet::deserialize",
    "item:AsBlock::from_str+collect",
];

fn collect_as(v: Vec<AsBlock>, how: u64) -> AsBlocks {
    match how % 3 {
        0 => AsBlocks::from_iter(v),
        1 => {
            let mut b = AsBlocksBuilder::new();
            for x in v {
                b.push(x);
            }
            b.finalize()
        }
        _ => {
            let mut b = AsBlocksBuilder::new();
            let cut = v.len() / 2;
            b.extend(v[..cut].iter().copied());
            b.extend(v[cut..].iter().copied());
            b.finalize()
        }
    }
}

/// Runs DER entry `which` over `data` (a SEQUENCE OF ASIdOrRange).
pub fn as_der_entry(which: usize, data: &[u8], how: u64) -> Result<AsBlocks, String> {
    let es = |e: bcder::decode::DecodeError<std::convert::Infallible>| e.to_string();
    match which {
        0 => Mode::Der.decode(data.into_source(), AsBlocks::take_from).map_err(es),
        1 => {
            // ASIdentifiers ::= SEQUENCE { asnum [0] EXPLICIT SEQUENCE OF }
            let full = der::seq(&[&der::tlv(der::ctx(0), data)]);
            Mode::Der
                .decode(full.as_slice().into_source(), AsResources::take_from)
                .map_err(es)
                .and_then(|r| r.to_blocks().map_err(|_| "inherit".to_string()))
        }
        2 => {
            let v: Vec<AsBlock> = Mode::Der
                .decode(data.into_source(), |cons| {
                    cons.take_sequence(|cons| {
                        let mut v = Vec::new();
                        while let Some(b) = AsBlock::take_opt_from(cons)? {
                            v.push(b);
                        }
                        Ok(v)
                    })
                })
                .map_err(es)?;
            Ok(collect_as(v, how))
        }
        _ => {
            let root = der::parse(data).ok_or("harness: unreadable")?;
            let mut v = Vec::new();
            for c in &root.children {
                let item = c.whole(data);
                // the skipping twin must take the same decision as the taking one
                let skipped = Mode::Der.decode(item.into_source(), AsBlock::skip_opt_in).map(|o| o.is_some());
                let taken = Mode::Der.decode(item.into_source(), AsBlock::take_opt_from);
                if let (Ok(true), Err(_)) | (Err(_), Ok(Some(_))) = (&skipped, &taken) {
                    // recorded by the caller as an observation: C03 does not state it
                    SKIP_TAKE_DISAGREE.with(|c| c.set(c.get() + 1));
                }
                v.push(taken.map_err(es)?.ok_or("no block")?);
            }
            Ok(collect_as(v, how))
        }
    }
}

thread_local! {
    static SKIP_TAKE_DISAGREE: std::cell::Cell<u64> = const { std::cell::Cell::new(0) };
}

fn replace_string_leaf(v: &mut Value, text: &str) -> bool {
    match v {
        Value::String(s) => {
            *s = text.to_string();
            true
        }
        Value::Array(a) => a.iter_mut().any(|x| replace_string_leaf(x, text)),
        Value::Object(o) => o.values_mut().any(|x| replace_string_leaf(x, text)),
        _ => false,
    }
}

/// Runs text entry `which` over the items.
pub fn as_text_entry(which: usize, items: &[String], sep: &str, how: u64) -> Result<AsBlocks, String> {
    use rpki::repository::resources::ResourceSet;
    let joined = items.join(sep);
    match which {
        0 => AsBlocks::from_str(&joined).map_err(|e| e.to_string()),
        1 => AsResources::from_str(&joined).map_err(|e| e.to_string()).and_then(|r| r.to_blocks().map_err(|_| "inherit".to_string())),
        2 => serde_json::from_value::<AsBlocks>(Value::String(joined)).map_err(|e| e.to_string()),
        3 => {
            // the serde shape of the wrapper is learnt from a serialised value; its text leaf is then replaced
            let mut v = serde_json::to_value(AsResources::blocks(AsBlocks::from_iter([AsBlock::Id(Asn::from_u32(7))]))).map_err(|e| format!("harness: {}", e))?;
            if !replace_string_leaf(&mut v, &joined) {
                return Err("harness: no text leaf in the serde form of AsResources".into());
            }
            serde_json::from_value::<AsResources>(v).map_err(|e| e.to_string()).and_then(|r| r.to_blocks().map_err(|_| "inherit".to_string()))
        }
        4 => ResourceSet::from_strs(&joined, "", "").map(|r| r.asn().clone()).map_err(|e| e.to_string()),
        5 => serde_json::from_value::<ResourceSet>(json!({"asn": joined, "ipv4": "", "ipv6": ""})).map(|r| r.asn().clone()).map_err(|e| e.to_string()),
        _ => {
            let v: Result<Vec<AsBlock>, _> = items.iter().map(|s| AsBlock::from_str(s)).collect();
            v.map(|v| collect_as(v, how)).map_err(|e| e.to_string())
        }
    }
}

/// See `c03_ip::judge_entry`.
#[allow(clippy::too_many_arguments)]
pub(crate) fn judge_as_entry(ctx: &mut Ctx, entry: &str, r: Result<AsBlocks, String>, model: &IntervalSet, reversed: bool, must_accept: bool, detail: &dyn Fn() -> Value) -> Option<AsBlocks> {
    let fl = Flavour::As;
    let n = SKIP_TAKE_DISAGREE.with(|c| c.replace(0));
    if n > 0 {
        ctx.obs("as_skip_and_take_disagree(observation)", n);
    }
    match r {
        Ok(s) => {
            ctx.obs(&format!("accepted via {}", entry), 1);
            let obs = observe_as(&s);
            if reversed {
                ctx.eval();
                ctx.obs("as_reversed_accepted", 1);
                if let Some(d) = canonical_defect(&obs, false) {
                    ctx.violation(
                        &format!("C03:as:{}:reversed-range:non-canonical:{}", entry, d),
                        "input with an AS range whose lower bound is above its upper bound was accepted and the resulting collection is not canonical",
                        json!({"observed": obs_json(&obs), "case": detail()}),
                    );
                    return None;
                }
                // counting must not panic where the count is representable
                let m = IntervalSet::from_ranges(&obs.iter().map(|(a, b, _)| (*a, *b)).collect::<Vec<_>>());
                if m.count().map(|n| n <= u32::MAX as u128).unwrap_or(false) {
                    ctx.no_panic("as:asn_count-after-reversed-input", detail, || s.asn_count());
                }
                Some(s)
            } else if check_set(ctx, fl, entry, &obs, model, detail) {
                Some(s)
            } else {
                None
            }
        }
        Err(e) => {
            ctx.eval();
            ctx.obs(&format!("rejected by {}", entry), 1);
            if must_accept && !e.starts_with("harness:") {
                ctx.violation(&format!("C03:as:{}:rejects-canonical", entry), "a canonical RFC 3779 AS block encoding was rejected", json!({"error": e, "case": detail()}));
            } else if reversed {
                ctx.obs("as_reversed_rejected", 1);
            } else {
                ctx.obs("as_entry_noncanonical_or_text_rejected", 1);
            }
            None
        }
    }
}

/// One hostile list (see `c03_ip::hostile_list`) through every AS entry point.
fn as_entry_sweep(ctx: &mut Ctx, rng: &mut Rng) {
    let fl = Flavour::As;
    let reversed = rng.bool();
    let seq = sequence(fl, rng, 4);
    let mut blocks = seq.blocks.clone();
    let max = fl.max();
    for _ in 0..rng.below(3) {
        let x = fl.endpoint(rng);
        let b = match rng.below(6) {
            0 => (x.min(max - 1).max(1), max),
            1 => (0, x.min(max - 1)),
            2 => (0, max),
            3 => (max, max),
            4 => (0, 0),
            _ => (x, x),
        };
        let pos = rng.usize_below(blocks.len() + 1);
        blocks.insert(pos, b);
    }
    if reversed {
        let (a, b) = loop {
            let a = fl.endpoint(rng);
            let b = fl.endpoint(rng);
            if a != b {
                break (a.max(b), a.min(b));
            }
        };
        let pos = rng.usize_below(blocks.len() + 1);
        blocks.insert(pos, (a, b));
    }
    let model = fl.model(&blocks);
    let items = as_text_items(&blocks, rng);
    let sep = *rng.pick(&[", ", ",", " , "]);
    for (i, entry) in AS_TEXT_ENTRIES.iter().enumerate() {
        let how = rng.below(6);
        let d = || json!({"flavour": "as", "entry": entry, "items": items, "collector": how % 3});
        ctx.sig(&format!("as entry {} reversed={}", entry, reversed));
        if let Some(r) = ctx.no_panic(&format!("as:{}", entry), d, || as_text_entry(i, &items, sep, how)) {
            judge_as_entry(ctx, entry, r, &model, reversed, false, &d);
        }
    }
    let single_as_range = rng.chance(1, 4);
    let data = as_der(&blocks, single_as_range);
    let canonical = !reversed && !single_as_range && !blocks.is_empty() && is_canonical_input(fl, &blocks);
    for (i, entry) in AS_DER_ENTRIES.iter().enumerate() {
        let how = rng.below(6);
        let d = || json!({"flavour": "as", "entry": entry, "der": crate::core::hex(&data), "blocks": blocks_json(&blocks), "collector": how % 3});
        ctx.sig(&format!("as entry {} reversed={} canonical={}", entry, reversed, canonical));
        if let Some(r) = ctx.no_panic(&format!("as:{}", entry), d, || as_der_entry(i, &data, how)) {
            judge_as_entry(ctx, entry, r, &model, reversed, canonical, &d);
        }
    }
    if ctx.wants_sample("as-entry-sweep") {
        ctx.sample("as-entry-sweep", || json!({"blocks": blocks_json(&blocks), "text_items": items, "der": crate::core::hex(&data), "entries": AS_TEXT_ENTRIES.len() + AS_DER_ENTRIES.len()}));
    }
    ctx.drain_chain_hook(|| json!({"flavour": "as", "entry-sweep": blocks_json(&blocks)}));
}

pub(crate) struct AsCase {
    pub set: AsBlocks,
    pub model: IntervalSet,
    pub blocks: Vec<(u128, u128)>,
}

pub(crate) fn as_construct(ctx: &mut Ctx, rng: &mut Rng, seq: &Seq) -> Option<AsCase> {
    let fl = Flavour::As;
    let model = fl.model(&seq.blocks);
    let how = rng.below(7);
    let blocks = seq.blocks.clone();
    let detail = |how: &str| json!({"constructor": how, "blocks": blocks_json(&blocks)});
    let set = match how {
        0 | 1 => {
            let items: Vec<AsBlock> = blocks.iter().map(|(a, b)| as_block(*a, *b, rng)).collect();
            let s = ctx.no_panic("as:from_iter", || detail("from_iter"), || AsBlocks::from_iter(items))?;
            ctx.sig(&format!("as from_iter {}", seq.shape));
            if !check_set(ctx, fl, "from_iter", &observe_as(&s), &model, || detail("from_iter")) { return None; }
            s
        }
        2 => {
            let mut b = AsBlocksBuilder::new();
            if rng.bool() {
                let items: Vec<AsBlock> = blocks.iter().map(|(lo, hi)| as_block(*lo, *hi, rng)).collect();
                let cut = items.len() / 2;
                b.extend(items[..cut].iter().copied());
                b.extend(items[cut..].iter().copied());
            } else {
                for (lo, hi) in &blocks {
                    b.push(as_block(*lo, *hi, rng));
                }
            }
            let s = ctx.no_panic("as:builder", || detail("builder"), || b.finalize())?;
            ctx.sig(&format!("as builder {}", seq.shape));
            if !check_set(ctx, fl, "builder", &observe_as(&s), &model, || detail("builder")) { return None; }
            s
        }
        3 | 4 => {
            let items = as_text_items(&blocks, rng);
            let sep = *rng.pick(&[", ", ",", " , "]);
            let which = rng.usize_below(AS_TEXT_ENTRIES.len());
            let coll = rng.below(6);
            let entry = AS_TEXT_ENTRIES[which];
            let d = || json!({"flavour": "as", "entry": entry, "items": items, "collector": coll % 3});
            let r = ctx.no_panic(&format!("as:{}", entry), d, || as_text_entry(which, &items, sep, coll))?;
            ctx.sig(&format!("as {} {}", entry, seq.shape));
            judge_as_entry(ctx, entry, r, &model, false, false, &d)?
        }
        _ => {
            let single_as_range = rng.chance(1, 4);
            let data = as_der(&blocks, single_as_range);
            let canonical = is_canonical_input(fl, &blocks) && !single_as_range && !blocks.is_empty();
            let which = rng.usize_below(AS_DER_ENTRIES.len());
            let coll = rng.below(6);
            let entry = AS_DER_ENTRIES[which];
            let d = || json!({"flavour": "as", "entry": entry, "der": crate::core::hex(&data), "blocks": blocks_json(&blocks), "collector": coll % 3});
            let r = ctx.no_panic(&format!("as:{}", entry), d, || as_der_entry(which, &data, coll))?;
            ctx.sig(&format!("as {} {}", entry, seq.shape));
            judge_as_entry(ctx, entry, r, &model, false, canonical, &d)?
        }
    };
    ctx.drain_chain_hook(|| json!({"flavour": "as", "blocks": blocks_json(&blocks)}));
    Some(AsCase { set, model, blocks })
}

/// AS resources built with `AsResourcesBuilder`, spreading the blocks over
/// several `blocks()` calls on the same builder (the result must be the union).
fn as_builder_multi_call(ctx: &mut Ctx, rng: &mut Rng) {
    let seq = sequence(Flavour::As, rng, 6);
    as_builder_multi_call_seq(ctx, rng, &seq);
}

pub(crate) fn as_builder_multi_call_seq(ctx: &mut Ctx, rng: &mut Rng, seq: &Seq) {
    use rpki::repository::resources::AsResourcesBuilder;
    let fl = Flavour::As;
    let model = fl.model(&seq.blocks);
    let calls = 1 + rng.usize_below(3);
    let mut builder = AsResourcesBuilder::new();
    let chunk = (seq.blocks.len() / calls).max(1);
    let mut used = 0;
    for c in 0..calls {
        let part: Vec<(u128, u128)> = if c + 1 == calls { seq.blocks[used.min(seq.blocks.len())..].to_vec() } else { seq.blocks.iter().skip(used).take(chunk).copied().collect() };
        used += part.len();
        let items: Vec<AsBlock> = part.iter().map(|(a, b)| as_block(*a, *b, rng)).collect();
        builder.blocks(|b| {
            for it in items {
                b.push(it)
            }
        });
    }
    let d = || json!({"flavour": "as", "blocks": blocks_json(&seq.blocks), "calls": calls});
    if let Some(res) = ctx.no_panic("as:resources-builder", d, || builder.finalize()) {
        ctx.sig(&format!("as resources-builder calls={} {}", calls, seq.shape));
        let blocks = res.to_blocks().unwrap_or_default();
        check_set(ctx, fl, "resources-builder", &observe_as(&blocks), &model, d);
    }
    ctx.drain_chain_hook(d);
}

fn relation(a: &IntervalSet, b: &IntervalSet) -> &'static str {
    if a.is_empty() && b.is_empty() {
        "both-empty"
    } else if a.is_empty() || b.is_empty() {
        "one-empty"
    } else if a == b {
        "equal"
    } else if b.is_subset_of(a) {
        "b-in-a"
    } else if a.is_subset_of(b) {
        "a-in-b"
    } else if a.intersection(b).is_empty() {
        // adjacent?
        if a.union(b).iv.len() < a.iv.len() + b.iv.len() {
            "disjoint-adjacent"
        } else {
            "disjoint"
        }
    } else {
        "overlap"
    }
}

fn size_class(a: &IntervalSet) -> &'static str {
    match a.iv.len() {
        0 => "empty",
        1 => "single",
        _ => "multi",
    }
}

fn sample_points(a: &IntervalSet, b: &IntervalSet, max: u128) -> Vec<u128> {
    let mut pts = vec![0, 1, max, max - 1];
    for (lo, hi) in a.iv.iter().chain(b.iv.iter()).take(8) {
        for p in [*lo, *hi, lo.wrapping_sub(1), hi.wrapping_add(1), lo / 2 + hi / 2] {
            if p <= max {
                pts.push(p);
            }
        }
    }
    pts.sort();
    pts.dedup();
    pts
}

pub(crate) fn as_unary(ctx: &mut Ctx, c: &AsCase) {
    let fl = Flavour::As;
    let blocks = &c.blocks;
    let d = || json!({"blocks": blocks_json(blocks)});
    // text round trip
    if let Some(text) = ctx.no_panic("as:display", d, || c.set.to_string()) {
        ctx.eval();
        match AsBlocks::from_str(&text) {
            Ok(back) => {
                if back != c.set || observe_as(&back) != observe_as(&c.set) {
                    ctx.violation("C03:as:text-roundtrip:differs", "Display output parses back to a different set", json!({"text": text, "blocks": blocks_json(blocks)}));
                }
            }
            Err(e) => ctx.violation("C03:as:text-roundtrip:rejected", "Display output of a set is rejected by FromStr", json!({"text": text, "error": e.to_string()})),
        }
    }
    // serde round trip
    if let Some(Ok(js)) = ctx.no_panic("as:serde-ser", d, || serde_json::to_string(&c.set)) {
        ctx.eval();
        match serde_json::from_str::<AsBlocks>(&js) {
            Ok(back) => {
                if back != c.set {
                    ctx.violation("C03:as:serde-roundtrip:differs", "serde form parses back to a different set", json!({"json": js}));
                }
            }
            Err(e) => ctx.violation("C03:as:serde-roundtrip:rejected", "serde form of a set is rejected", json!({"json": js, "error": e.to_string()})),
        }
    }
    // DER: library encoder read by the independent reader, and decoded back
    let res = AsResources::blocks(c.set.clone());
    if let Some(cap) = ctx.no_panic("as:encode", d, || res.encode_ref().to_captured(Mode::Der)) {
        ctx.eval();
        let bytes = cap.as_slice().to_vec();
        // SEQUENCE { [0] { SEQUENCE OF ... } }
        let inner = der::parse(&bytes).and_then(|root| root.path(&[0, 0]).map(|n| n.whole(&bytes).to_vec()));
        match inner.as_deref().and_then(as_der_read) {
            Some(read) => {
                let m = fl.model(&read);
                if m != c.model || read.iter().any(|(a, b)| a > b) {
                    ctx.violation("C03:as:der-encode:wrong-set", "the DER encoding of a set denotes a different set", json!({"der": crate::core::hex(&bytes), "blocks": blocks_json(blocks)}));
                }
            }
            None => {
                if !c.model.is_empty() {
                    ctx.violation("C03:as:der-encode:unreadable", "the DER encoding of a set is not a SEQUENCE OF ASIdOrRange", json!({"der": crate::core::hex(&bytes)}));
                }
            }
        }
        match Mode::Der.decode(bytes.as_slice().into_source(), AsResources::take_from) {
            Ok(back) => {
                let back = back.to_blocks().unwrap_or_default();
                if back != c.set {
                    ctx.violation("C03:as:der-roundtrip:differs", "decoding the DER encoding of a set gives a different set", json!({"der": crate::core::hex(&bytes)}));
                }
            }
            Err(e) => ctx.violation("C03:as:der-roundtrip:rejected", "the DER encoding of a set is rejected by the decoder", json!({"der": crate::core::hex(&bytes), "error": e.to_string()})),
        }
    }
    // every other public structural encoder of the collection and its wrapper
    if !c.model.is_empty() {
        let ext = |b: Vec<u8>| {
            // Extension ::= SEQUENCE { extnID, critical, extnValue OCTET STRING { ASIdentifiers } }
            let root = der::parse(&b)?;
            let val = root.children.last()?;
            if val.tag != der::T_OCTETSTRING {
                return None;
            }
            let inner = val.content(&b).to_vec();
            der::parse(&inner)?.path(&[0, 0]).map(|n| n.whole(&inner).to_vec())
        };
        let wrapped = |b: Vec<u8>| der::parse(&b).and_then(|root| root.path(&[0, 0]).map(|n| n.whole(&b).to_vec()));
        let twins: Vec<(&str, Box<dyn Fn() -> Option<Vec<u8>> + '_>)> = vec![
            // AsBlocks' own encoders write the ASIdOrRange values only; the SEQUENCE OF around them is the wrapper's
            ("AsBlocks::encode_ref", Box::new(|| Some(der::tlv(der::T_SEQUENCE, c.set.encode_ref().to_captured(Mode::Der).as_slice())))),
            ("AsBlocks::encode", Box::new(|| Some(der::tlv(der::T_SEQUENCE, c.set.clone().encode().to_captured(Mode::Der).as_slice())))),
            ("AsResources::encode", Box::new(|| wrapped(res.clone().encode().to_captured(Mode::Der).as_slice().to_vec()))),
            ("AsResources::encode_extension", Box::new(|| ext(res.encode_extension(Overclaim::Trim).to_captured(Mode::Der).as_slice().to_vec()))),
        ];
        for (twin, f) in &twins {
            let Some(inner) = ctx.no_panic(&format!("as:{}", twin), d, f) else { continue };
            ctx.eval();
            ctx.sig(&format!("as encoder {}", twin));
            match inner.as_deref().and_then(as_der_read) {
                Some(read) => {
                    let obs: Obs = read.iter().map(|(a, b)| (*a, *b, false)).collect();
                    if fl.model(&read) != c.model || read.iter().any(|(a, b)| a > b) {
                        ctx.violation(&format!("C03:as:{}:wrong-set", twin), "a structural encoder writes an encoding that denotes a different set", json!({"der": inner.as_deref().map(crate::core::hex), "blocks": blocks_json(blocks)}));
                    } else if let Some(defect) = canonical_defect(&obs, false) {
                        ctx.violation(&format!("C03:as:{}:non-canonical:{}", twin, defect), "a structural encoder writes a non-canonical encoding", json!({"der": inner.as_deref().map(crate::core::hex), "blocks": blocks_json(blocks)}));
                    }
                }
                None => ctx.violation(&format!("C03:as:{}:unreadable", twin), "a structural encoder does not write a SEQUENCE OF ASIdOrRange where RFC 3779 puts one", json!({"der": inner.as_deref().map(crate::core::hex), "blocks": blocks_json(blocks)})),
            }
        }
    }
    // counts
    if let Some(n) = c.model.count() {
        if n <= u32::MAX as u128 {
            if let Some(got) = ctx.no_panic("as:asn_count", d, || c.set.asn_count()) {
                ctx.eval();
                if got as u128 != n {
                    ctx.violation("C03:as:asn_count:wrong", "asn_count differs from the number of elements", json!({"blocks": blocks_json(blocks), "got": got, "want": n.to_string()}));
                }
            }
            if n <= 3000 {
                if let Some(list) = ctx.no_panic("as:iter_asns", d, || c.set.iter_asns().map(|a| a.into_u32() as u128).collect::<Vec<_>>()) {
                    ctx.eval();
                    let mut want = Vec::new();
                    for (lo, hi) in &c.model.iv {
                        let mut x = *lo;
                        loop {
                            want.push(x);
                            if x == *hi {
                                break;
                            }
                            x += 1;
                        }
                    }
                    if list != want {
                        ctx.violation("C03:as:iter_asns:wrong", "iter_asns does not enumerate exactly the members in order", json!({"blocks": blocks_json(blocks), "got_len": list.len(), "want_len": want.len()}));
                    }
                }
            }
        } else {
            // not representable: only panic-freedom of the call is required elsewhere (C04)
            ctx.obs("as_count_not_representable", 1);
        }
    }
    ctx.drain_chain_hook(|| json!({"flavour": "as", "unary-on": blocks_json(blocks)}));
}

pub(crate) fn as_pair(ctx: &mut Ctx, a: &AsCase, b: &AsCase) {
    let fl = Flavour::As;
    let rel = relation(&a.model, &b.model);
    if rel != "both-empty" {
        ctx.sig(&format!("as pair {} {}x{}", rel, size_class(&a.model), size_class(&b.model)));
    }
    let d = || json!({"a": blocks_json(&a.blocks), "b": blocks_json(&b.blocks)});
    if let Some(s) = ctx.no_panic("as:union", d, || a.set.union(&b.set)) {
        check_set(ctx, fl, "union", &observe_as(&s), &a.model.union(&b.model), d);
    }
    let inter = a.model.intersection(&b.model);
    if let Some(s) = ctx.no_panic("as:intersection", d, || a.set.intersection(&b.set)) {
        check_set(ctx, fl, "intersection", &observe_as(&s), &inter, d);
    }
    if let Some(s) = ctx.no_panic("as:intersection_assign", d, || { let mut x = a.set.clone(); x.intersection_assign(&b.set); x }) {
        check_set(ctx, fl, "intersection_assign", &observe_as(&s), &inter, d);
    }
    if let Some(s) = ctx.no_panic("as:difference", d, || a.set.difference(&b.set)) {
        check_set(ctx, fl, "difference", &observe_as(&s), &a.model.difference(&b.model), d);
    }
    if let Some(g) = ctx.no_panic("as:contains", d, || a.set.contains(&b.set)) {
        check_bool(ctx, fl, "contains", g, b.model.is_subset_of(&a.model), d);
    }
    if let Some(g) = ctx.no_panic("as:eq", d, || a.set == b.set) {
        check_bool(ctx, fl, "eq", g, a.model == b.model, d);
    }
    for p in sample_points(&a.model, &b.model, fl.max()) {
        if let Some(g) = ctx.no_panic("as:contains_asn", d, || a.set.contains_asn(asn(p))) {
            check_bool(ctx, fl, "contains_asn", g, a.model.contains(p), || json!({"a": blocks_json(&a.blocks), "asn": p.to_string()}));
        }
    }
    // issuance: issuer = a, claimed = b
    let claimed = AsResources::blocks(b.set.clone());
    if let Some(r) = ctx.no_panic("as:verify_issued-refuse", d, || a.set.verify_issued(&claimed, Overclaim::Refuse)) {
        ctx.eval();
        let covered = b.model.is_subset_of(&a.model);
        match r {
            Ok(s) => {
                if !covered {
                    ctx.violation("C03:as:verify_issued-refuse:accepts-overclaim", "no-overclaim issuance accepted a claim outside the issuer", d());
                } else {
                    check_set(ctx, fl, "verify_issued-refuse", &observe_as(&s), &b.model, d);
                }
            }
            Err(_) => {
                if covered {
                    ctx.violation("C03:as:verify_issued-refuse:rejects-covered", "no-overclaim issuance rejected a claim inside the issuer", d());
                }
            }
        }
    }
    if let Some(r) = ctx.no_panic("as:verify_issued-trim", d, || a.set.verify_issued(&claimed, Overclaim::Trim)) {
        ctx.eval();
        match r {
            Ok(s) => {
                check_set(ctx, fl, "verify_issued-trim", &observe_as(&s), &inter, d);
            }
            Err(_) => ctx.violation("C03:as:verify_issued-trim:rejects", "trimming issuance returned an error", d()),
        }
    }
    if let Some(Ok(s)) = ctx.no_panic("as:verify_issued-inherit", d, || a.set.verify_issued(&AsResources::inherit(), Overclaim::Refuse)) {
        check_set(ctx, fl, "verify_issued-inherit", &observe_as(&s), &a.model, d);
    }
    if let Some(Ok(s)) = ctx.no_panic("as:verify_issued-missing", d, || a.set.verify_issued(&AsResources::missing(), Overclaim::Trim)) {
        check_set(ctx, fl, "verify_issued-missing", &observe_as(&s), &IntervalSet::empty(), d);
    }
    // bottom-up: self = b covered by issuer resources a
    let issuer = AsResources::blocks(a.set.clone());
    if let Some(r) = ctx.no_panic("as:verify_covered", d, || b.set.verify_covered(&issuer)) {
        check_bool(ctx, fl, "verify_covered", r.is_ok(), b.model.is_subset_of(&a.model), d);
    }
    ctx.drain_chain_hook(|| json!({"flavour": "as", "pair": d()}));
}

fn run_as(ctx: &mut Ctx) {
    let mut rng = ctx.rng("as");
    let batches = ctx.stage_budget((12_000, 1_200_000), 2_000, 3, 0);
    let batch = if ctx.stage == Stage::Miri { 3 } else { 14 };
    for _ in 0..batches {
        let mut cases = Vec::new();
        for _ in 0..batch {
            let seq = sequence(Flavour::As, &mut rng, 8);
            if let Some(c) = as_construct(ctx, &mut rng, &seq) {
                if ctx.wants_sample("as-set") {
                    let obs = observe_as(&c.set);
                    ctx.sample("as-set", || json!({"input_blocks": blocks_json(&seq.blocks), "shape": seq.shape, "observed": obs_json(&obs)}));
                }
                cases.push(c);
            }
        }
        for c in &cases {
            as_unary(ctx, c);
        }
        for a in &cases {
            for b in &cases {
                as_pair(ctx, a, b);
            }
        }
        as_entry_sweep(ctx, &mut rng);
        as_builder_multi_call(ctx, &mut rng);
    }
    // special constants
    let all = AsBlocks::all();
    check_set(ctx, Flavour::As, "all", &observe_as(&all), &IntervalSet::from_ranges(&[(0, u32::MAX as u128)]), || json!("AsBlocks::all()"));
    check_set(ctx, Flavour::As, "empty", &observe_as(&AsBlocks::empty()), &IntervalSet::empty(), || json!("AsBlocks::empty()"));
}

/// Exhaustive: every sequence of up to `maxlen` blocks over a 7-value pool,
/// collection + canonical form + denotation (AS flavour and IPv6 flavour).
fn run_small_exhaustive(ctx: &mut Ctx) {
    let maxlen = match (ctx.tier, ctx.stage) {
        (Tier::Thorough, Stage::Native) => 4,
        (_, Stage::Native) => 3,
        (_, Stage::Asan) => 3,
        _ => 1,
    };
    for fl in [Flavour::As, Flavour::V6] {
        let max = fl.max();
        let pool: Vec<u128> = vec![0, 1, 2, 3, 4, max - 1, max];
        for len in 0..=maxlen {
            let total = small_sequence_count(&pool, len);
            let mut idx = ctx.shard;
            while idx < total {
                let blocks = small_sequence(fl, &pool, len, idx).unwrap();
                let model = fl.model(&blocks);
                match fl {
                    Flavour::As => {
                        let items: Vec<AsBlock> = blocks.iter().map(|(a, b)| AsBlock::from((asn(*a), asn(*b)))).collect();
                        if let Some(s) = ctx.no_panic("as:from_iter", || blocks_json(&blocks), || AsBlocks::from_iter(items)) {
                            check_set(ctx, fl, "from_iter", &observe_as(&s), &model, || json!({"constructor": "from_iter", "blocks": blocks_json(&blocks)}));
                        }
                    }
                    _ => crate::c03_ip::small_collect(ctx, fl, &blocks, &model),
                }
                idx += ctx.nshards;
            }
            ctx.disjoint_distinct += 0;
        }
        ctx.sig(&format!("{} exhaustive small sequences up to {} blocks", fl.name(), maxlen));
        ctx.drain_chain_hook(|| json!({"flavour": fl.name(), "phase": "small-exhaustive"}));
    }
    ctx.notes.push(format!("exhaustive sub-space: all sequences of <= {} blocks over endpoints {{0,1,2,3,4,MAX-1,MAX}} for AS and IPv6 collection", maxlen));
}

pub fn run(ctx: &mut Ctx) {
    run_small_exhaustive(ctx);
    run_as(ctx);
    crate::c03_ip::run_ip(ctx);
    crate::c03_long::run_long(ctx);
    crate::c03_serde::run_serde(ctx);
    c03_ber::run_ber(ctx);
}
