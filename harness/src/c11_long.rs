//! C11 — long values: size thresholds in the XML writer.
//!
//! A writer that escapes text, or that collects the pieces of a value in a
//! buffer, has code paths that depend on the *length* of a value and on where
//! in it the characters that need an escape sit: a fast path for text
//! without any, a stack buffer of 256 octets, a window of 1 KiB, the 8 KiB of
//! a buffered writer, 16-bit lengths. None of them is reached by values of a
//! few dozen characters or by long values that have a special character every
//! few octets. This module builds values as *recipes* of plain runs whose
//! lengths sit on a ladder around the powers of two (255, 256, 257, 1 KiB,
//! 4 KiB, 8 KiB, 64 KiB ± 1) and of characters that need an escape before,
//! after and between them, and puts each value into every field of every
//! message type that can carry it:
//!
//!  * `tag` of the four RFC 8183 messages and of `<publish>` / `<withdraw>`
//!    (with and without hash), `class_name` of all five RFC 6492 payloads
//!    that have one, `ServiceUri::Http` (free text after the scheme);
//!  * rsync and https URIs (`uri` of the RFC 8181 elements, `cert_url` of
//!    `<class>` and `<certificate>`, `sia_base`, `rrdp_notification_uri`,
//!    `service_uri`): `&` and `'` are the URI characters that need an escape;
//!  * resource sets whose text form (the library's `Display`, written in many
//!    small pieces) crosses the same ladder: long runs without any special;
//!  * `<description>`, `<error_text>` and the `tag` of `<report_error>`, which
//!    only a decoder can set: documents written here, judged like the other
//!    text-level documents (accepted => written well-formed, parsed back
//!    equal, written again identically).
//!
//! The oracle is the one of the constructor-built cases: expat on the written
//! document and `decode(write(m)) == m`. The RELAX NG schemas of the three
//! protocols bound `tag` / `class_name` / `<description>` at 1024 characters
//! and URIs at 4096; a value above its bound is still written and must come
//! out well-formed, and if the library parses its output back the message must
//! be equal, but a decoder that refuses it is within its rights (recorded as
//! `open:longer-than-the-schema-allows:decode-error`).
//!
//! Nothing here knows what the writer does at which length: the ladder is the
//! usual one (2^k - 1, 2^k, 2^k + 1), the shapes are "special first", "special
//! last", "specials around", "specials between", "none".

use super::{c11_text, check_case, check_text_doc, AnyMsg, Case, Crypto, Kind, TextField, WfBatch};
use crate::core::{Ctx, Rng, Tier};
use rpki::ca::idexchange::{ChildRequest, Handle, ParentResponse, PublisherRequest, RepositoryResponse, ServiceUri};
use rpki::ca::provisioning as prov;
use rpki::ca::publication as publ;
use rpki::crypto::KeyIdentifier;
use rpki::repository::resources::{Addr, AsBlocks, AsBlocksBuilder, Asn, IpBlocksBuilder, Ipv4Blocks, Ipv6Blocks, ResourceSet};
use rpki::repository::x509::Time;
use rpki::rrdp;
use rpki::uri;
use serde_json::json;
use std::str::FromStr;

//------------ recipes -----------------------------------------------------------

#[derive(Clone, Copy, PartialEq, Eq, Debug)]
enum Alphabet {
    /// xsd:token fields and `ServiceUri::Http`: printable ASCII
    Token,
    /// path of an rsync / https URI
    UriPath,
    /// element text of a document written by the harness
    Prose,
}

#[derive(Clone, Copy, Debug)]
enum Piece {
    /// characters that need an escape (chosen when the value is built)
    Special,
    /// a run of characters that need none
    Run(usize),
}

pub struct LongValue {
    pub text: String,
    /// e.g. `'&' + run(256) + '"'`
    pub recipe: String,
    pub shape: &'static str,
    pub longest_run: usize,
    pub specials: usize,
}

const TOKEN_SPECIALS: &[&str] = &["&", "<", ">", "\"", "'", "&", "<", "'", "&&", "<>", "\"'", "&amp;", "]]>", "</a>", "&#38;", "<![CDATA["];
const URI_SPECIALS: &[&str] = &["&", "'", "&", "'", "&&", "''", "'&'", "&'"];
/// `>` and the quotes need no escape in character data; a writer is free to
/// escape them all the same
const PROSE_SPECIALS: &[&str] = &[">", "\"", "'", ">>", "\"'", "->", "'s"];

const TOKEN_PLAIN: &[u8] = b"abcdefghijklmnopqrstuvwxyz0123456789ABCDEFGHIJKLMNOPQRSTUVWXYZ-_.:;=+*()[]{}|/\\~!@#$%^,?";
const URI_PLAIN: &[u8] = b"abcdefghijklmnopqrstuvwxyz0123456789ABCDEFGHIJKLMNOPQRSTUVWXYZ-._~";
const PROSE_PLAIN: &[u8] = b"abcdefghijklmnopqrstuvwxyz0123456789ABCDEFGHIJKLMNOPQRSTUVWXYZ-_.:;=+*()[]{}|/~!@#$%^,?";

/// A run of `len` characters none of which needs an escape. Runs differ from
/// one another (start offset), and every 41st character is a separator (a
/// single space, or `/` in a URI) that is never first or last in the run.
fn push_run(rng: &mut Rng, alpha: Alphabet, len: usize, out: &mut String) {
    let (table, sep) = match alpha {
        Alphabet::Token => (TOKEN_PLAIN, b' '),
        Alphabet::UriPath => (URI_PLAIN, b'/'),
        Alphabet::Prose => (PROSE_PLAIN, b' '),
    };
    let start = rng.usize_below(table.len());
    let with_sep = rng.chance(2, 3);
    out.reserve(len);
    for i in 0..len {
        if with_sep && i % 41 == 40 && i + 1 < len {
            out.push(sep as char);
        } else {
            out.push(table[(start + i) % table.len()] as char);
        }
    }
}

fn build_value(rng: &mut Rng, alpha: Alphabet, shape: &'static str, pieces: &[Piece]) -> LongValue {
    let specials = match alpha {
        Alphabet::Token => TOKEN_SPECIALS,
        Alphabet::UriPath => URI_SPECIALS,
        Alphabet::Prose => PROSE_SPECIALS,
    };
    let mut text = String::new();
    let mut recipe: Vec<String> = Vec::new();
    let (mut longest, mut n_special) = (0usize, 0usize);
    for p in pieces {
        match *p {
            Piece::Special => {
                let s = *rng.pick(specials);
                text.push_str(s);
                recipe.push(format!("{s:?}"));
                n_special += 1;
            }
            Piece::Run(0) => {}
            Piece::Run(n) => {
                push_run(rng, alpha, n, &mut text);
                recipe.push(format!("run({n})"));
                longest = longest.max(n);
            }
        }
    }
    LongValue { text, recipe: recipe.join(" + "), shape, longest_run: longest, specials: n_special }
}

/// The shapes a ladder length `l` is used in. `l2`: another ladder length
/// (for the shapes with two long runs), `k`: a small length.
fn shapes(l: usize, l2: usize, k: usize) -> Vec<(&'static str, Vec<Piece>)> {
    use Piece::{Run, Special};
    let mut v = vec![
        ("special,run", vec![Special, Run(l)]),
        ("short,special,run", vec![Run(k), Special, Run(l)]),
        ("run,special", vec![Run(l), Special]),
        ("run,special,short", vec![Run(l), Special, Run(k)]),
        ("special,run,special", vec![Special, Run(l), Special]),
        ("run,special,run", vec![Run(l), Special, Run(l2)]),
        ("special,run,special,run,special", vec![Special, Run(l), Special, Run(l2), Special]),
        ("run", vec![Run(l)]),
        // the whole value (not the run) has the ladder length
        ("special,run;total", vec![Special, Run(l.saturating_sub(1))]),
        ("run,special;total", vec![Run(l.saturating_sub(1)), Special]),
    ];
    if l <= 1025 {
        // several specials, each followed by a run of this length
        let n = (4100 / (l + 1)).clamp(2, 12);
        let mut p = Vec::new();
        for _ in 0..n {
            p.push(Special);
            p.push(Run(l));
        }
        v.push(("(special,run)*", p));
        let mut p = Vec::new();
        for _ in 0..n {
            p.push(Run(l));
            p.push(Special);
        }
        v.push(("(run,special)*", p));
    }
    v
}

fn ladder(ctx: &Ctx) -> Vec<usize> {
    let mut v: Vec<usize> = vec![255, 256, 257, 1023, 1024, 1025, 4095, 4096, 4097, 8191, 8192, 8193, 65535, 65536, 65537];
    if ctx.is_miri() {
        return vec![255, 256, 257, 1024];
    }
    if ctx.tier == Tier::Thorough {
        v.extend_from_slice(&[
            63, 64, 65, 127, 128, 129, 511, 512, 513, 2047, 2048, 2049, 16383, 16384, 16385, 32767, 32768, 32769, 131071, 131072, 131073,
            (1 << 20) - 1, 1 << 20, (1 << 20) + 1,
        ]);
        v.sort();
    }
    v
}

fn run_class(n: usize) -> String {
    // the ladder value itself: the classes are few
    format!("{n}")
}

//------------ slots: which field of which message ---------------------------------

struct Slot {
    name: &'static str,
    alpha: Alphabet,
    /// the bound of the protocol's schema on the whole value
    cap: usize,
    needs_crypto: bool,
}

const SLOTS: &[Slot] = &[
    Slot { name: "child_request.tag", alpha: Alphabet::Token, cap: 1024, needs_crypto: false },
    Slot { name: "parent_response.tag", alpha: Alphabet::Token, cap: 1024, needs_crypto: false },
    Slot { name: "publisher_request.tag", alpha: Alphabet::Token, cap: 1024, needs_crypto: false },
    Slot { name: "repository_response.tag", alpha: Alphabet::Token, cap: 1024, needs_crypto: false },
    Slot { name: "parent_response.service_uri:https", alpha: Alphabet::UriPath, cap: 4096, needs_crypto: false },
    Slot { name: "parent_response.service_uri:http", alpha: Alphabet::Token, cap: 4096, needs_crypto: false },
    Slot { name: "repository_response.service_uri:https", alpha: Alphabet::UriPath, cap: 4096, needs_crypto: false },
    Slot { name: "repository_response.sia_base", alpha: Alphabet::UriPath, cap: 4096, needs_crypto: false },
    Slot { name: "repository_response.rrdp_notification_uri", alpha: Alphabet::UriPath, cap: 4096, needs_crypto: false },
    Slot { name: "publish.tag", alpha: Alphabet::Token, cap: 1024, needs_crypto: false },
    Slot { name: "update.tag", alpha: Alphabet::Token, cap: 1024, needs_crypto: false },
    Slot { name: "withdraw.tag", alpha: Alphabet::Token, cap: 1024, needs_crypto: false },
    Slot { name: "publish.uri", alpha: Alphabet::UriPath, cap: 4096, needs_crypto: false },
    Slot { name: "update.uri", alpha: Alphabet::UriPath, cap: 4096, needs_crypto: false },
    Slot { name: "withdraw.uri", alpha: Alphabet::UriPath, cap: 4096, needs_crypto: false },
    Slot { name: "list_reply.uri", alpha: Alphabet::UriPath, cap: 4096, needs_crypto: false },
    Slot { name: "delta.tag+uri", alpha: Alphabet::Token, cap: 1024, needs_crypto: false },
    Slot { name: "revoke.class_name", alpha: Alphabet::Token, cap: 1024, needs_crypto: false },
    Slot { name: "revoke_response.class_name", alpha: Alphabet::Token, cap: 1024, needs_crypto: false },
    Slot { name: "issue.class_name", alpha: Alphabet::Token, cap: 1024, needs_crypto: true },
    Slot { name: "issue_response.class_name", alpha: Alphabet::Token, cap: 1024, needs_crypto: true },
    Slot { name: "list_response.class_name", alpha: Alphabet::Token, cap: 1024, needs_crypto: true },
    Slot { name: "issue_response.class.cert_url", alpha: Alphabet::UriPath, cap: 4096, needs_crypto: true },
    Slot { name: "issue_response.certificate.cert_url", alpha: Alphabet::UriPath, cap: 4096, needs_crypto: true },
    Slot { name: "list_response.certificate.cert_url", alpha: Alphabet::UriPath, cap: 4096, needs_crypto: true },
];

fn handle<T>(s: &str) -> Handle<T> {
    Handle::from_str(s).unwrap_or_else(|_| Handle::new(s.into()))
}

fn id_cert(rng: &mut Rng) -> publ::Base64 {
    let n = 1 + rng.usize_below(120);
    publ::Base64::from_content(&rng.bytes(n))
}

/// The rsync / https URI whose path is `path`; `None` if the URI parser
/// refuses it (counted by the caller).
fn rsync_with_path(path: &str) -> Option<uri::Rsync> {
    uri::Rsync::from_string(format!("rsync://long.example/module/{path}")).ok()
}

fn https_with_path(path: &str) -> Option<uri::Https> {
    uri::Https::from_string(format!("https://long.example/{path}")).ok()
}

fn empty_set() -> ResourceSet {
    ResourceSet::new(AsBlocksBuilder::new().finalize(), Ipv4Blocks::from(IpBlocksBuilder::new().finalize()), Ipv6Blocks::from(IpBlocksBuilder::new().finalize()))
}

fn some_time() -> Time {
    Time::utc(2031, 5, 17, 11, 22, 33)
}

fn small_rsync(name: &str) -> uri::Rsync {
    uri::Rsync::from_str(&format!("rsync://long.example/module/{name}")).expect("uri")
}

/// Builds the message of slot `slot` around the value. `None`: a constructor
/// of a field value (URI parser, serde) refused the value.
fn build(slot: &Slot, v: &str, crypto: Option<&Crypto>, rng: &mut Rng) -> Option<(&'static str, AnyMsg, String)> {
    let key = KeyIdentifier::from([0x5Au8; 20]);
    let hash = rrdp::Hash::from([0xA5u8; 32]);
    let content = publ::Base64::from_content(b"long values");
    let (variant, msg, written): (&'static str, AnyMsg, String) = match slot.name {
        "child_request.tag" => {
            // the only public way to a child request with a tag besides the XML parser
            let idc = id_cert(rng);
            let val = json!({"id_cert": idc.as_str(), "child_handle": "child", "tag": v});
            let req = serde_json::from_value::<ChildRequest>(val).ok()?;
            ("idexchange.child_request", AnyMsg::ChildReq(req), v.to_string())
        }
        "parent_response.tag" => (
            "idexchange.parent_response",
            AnyMsg::ParentResp(ParentResponse::new(
                id_cert(rng),
                handle("parent"),
                handle("child"),
                ServiceUri::Https(https_with_path("rfc6492/child")?),
                Some(v.to_string()),
            )),
            v.to_string(),
        ),
        "publisher_request.tag" => (
            "idexchange.publisher_request",
            AnyMsg::PubReq(PublisherRequest::new(id_cert(rng), handle("publisher"), Some(v.to_string()))),
            v.to_string(),
        ),
        "repository_response.tag" => (
            "idexchange.repository_response",
            AnyMsg::RepoResp(RepositoryResponse::new(
                id_cert(rng),
                handle("publisher"),
                ServiceUri::Https(https_with_path("rfc8181/publisher")?),
                small_rsync("publisher/"),
                if rng.bool() { Some(https_with_path("rrdp/notification.xml")?) } else { None },
                Some(v.to_string()),
            )),
            v.to_string(),
        ),
        "parent_response.service_uri:https" => {
            let u = https_with_path(v)?;
            let s = u.to_string();
            (
                "idexchange.parent_response",
                AnyMsg::ParentResp(ParentResponse::new(id_cert(rng), handle("parent"), handle("child"), ServiceUri::Https(u), None)),
                s,
            )
        }
        "parent_response.service_uri:http" => {
            let s = format!("http://{v}");
            (
                "idexchange.parent_response",
                AnyMsg::ParentResp(ParentResponse::new(id_cert(rng), handle("parent"), handle("child"), ServiceUri::Http(s.clone()), Some("t".into()))),
                s,
            )
        }
        "repository_response.service_uri:https" => {
            let u = https_with_path(v)?;
            let s = u.to_string();
            (
                "idexchange.repository_response",
                AnyMsg::RepoResp(RepositoryResponse::new(id_cert(rng), handle("publisher"), ServiceUri::Https(u), small_rsync("p/"), None, None)),
                s,
            )
        }
        "repository_response.sia_base" => {
            let u = rsync_with_path(v)?;
            let s = u.to_string();
            (
                "idexchange.repository_response",
                AnyMsg::RepoResp(RepositoryResponse::new(
                    id_cert(rng),
                    handle("publisher"),
                    ServiceUri::Https(https_with_path("rfc8181/p")?),
                    u,
                    Some(https_with_path("n.xml")?),
                    Some("t".into()),
                )),
                s,
            )
        }
        "repository_response.rrdp_notification_uri" => {
            let u = https_with_path(v)?;
            let s = u.to_string();
            (
                "idexchange.repository_response",
                AnyMsg::RepoResp(RepositoryResponse::new(
                    id_cert(rng),
                    handle("publisher"),
                    ServiceUri::Https(https_with_path("rfc8181/p")?),
                    small_rsync("p/"),
                    Some(u),
                    None,
                )),
                s,
            )
        }
        "publish.tag" | "update.tag" | "withdraw.tag" | "publish.uri" | "update.uri" | "withdraw.uri" | "delta.tag+uri" => {
            let (tag, u, s) = match slot.name {
                "publish.tag" | "update.tag" | "withdraw.tag" => (v.to_string(), small_rsync("ca/object.roa"), v.to_string()),
                "delta.tag+uri" => {
                    // the same recipe in both attributes of one element (the URI gets the URI characters of it)
                    let path: String = v.chars().map(|c| if c == ' ' || !c.is_ascii_graphic() || "<>\"\\^`{|}[]#?@".contains(c) { '-' } else { c }).collect();
                    let u = rsync_with_path(&path)?;
                    (v.to_string(), u, v.to_string())
                }
                _ => {
                    let u = rsync_with_path(v)?;
                    let s = u.to_string();
                    ("short tag".to_string(), u, s)
                }
            };
            let mut delta = publ::PublishDelta::empty();
            // neighbours before and after, so that the long value is not the last thing written
            delta.add_withdraw(publ::Withdraw::new(Some("before".into()), small_rsync("ca/a.cer"), hash));
            match slot.name {
                "publish.tag" | "publish.uri" => delta.add_publish(publ::Publish::new(Some(tag), u, content.clone())),
                "update.tag" | "update.uri" => delta.add_update(publ::Update::new(Some(tag), u, content.clone(), hash)),
                "withdraw.tag" | "withdraw.uri" => delta.add_withdraw(publ::Withdraw::new(Some(tag), u, hash)),
                _ => {
                    delta.add_publish(publ::Publish::new(Some(tag.clone()), u.clone(), content.clone()));
                    delta.add_update(publ::Update::new(Some(tag.clone()), u.clone(), content.clone(), hash));
                    delta.add_withdraw(publ::Withdraw::new(Some(tag), u, hash));
                }
            }
            if rng.bool() {
                delta.add_publish(publ::Publish::new(Some("after".into()), small_rsync("ca/z.cer"), content.clone()));
            }
            ("publication.delta", AnyMsg::Publ(publ::Message::delta(delta)), s)
        }
        "list_reply.uri" => {
            let u = rsync_with_path(v)?;
            let s = u.to_string();
            let mut reply = publ::ListReply::empty();
            if rng.bool() {
                reply.add_element(publ::ListElement::new(small_rsync("ca/a.cer"), hash));
            }
            reply.add_element(publ::ListElement::new(u, hash));
            if rng.bool() {
                reply.add_element(publ::ListElement::new(small_rsync("ca/z.cer"), hash));
            }
            ("publication.list_reply", AnyMsg::Publ(publ::Message::list_reply(reply)), s)
        }
        "revoke.class_name" => (
            "provisioning.revoke",
            AnyMsg::Prov(prov::Message::revoke(handle("child"), handle("parent"), prov::RevocationRequest::new(v.into(), key))),
            v.to_string(),
        ),
        "revoke_response.class_name" => (
            "provisioning.revoke_response",
            AnyMsg::Prov(prov::Message::revoke_response(
                handle("parent"),
                handle("child"),
                prov::RevocationResponse::from(&prov::RevocationRequest::new(v.to_string().into(), key)),
            )),
            v.to_string(),
        ),
        "issue.class_name" => {
            let c = crypto?;
            let req = prov::IssuanceRequest::new(v.into(), prov::RequestResourceLimit::new(), rng.pick(&c.csrs).clone());
            ("provisioning.issue", AnyMsg::Prov(prov::Message::issue(handle("child"), handle("parent"), req)), v.to_string())
        }
        "issue_response.class_name" | "issue_response.class.cert_url" | "issue_response.certificate.cert_url" => {
            let c = crypto?;
            let (name, class_url, cert_url, s) = match slot.name {
                "issue_response.class_name" => (v.to_string(), small_rsync("ta.cer"), small_rsync("ca/child.cer"), v.to_string()),
                "issue_response.class.cert_url" => {
                    let u = rsync_with_path(v)?;
                    let s = u.to_string();
                    ("class".to_string(), u, small_rsync("ca/child.cer"), s)
                }
                _ => {
                    let u = rsync_with_path(v)?;
                    let s = u.to_string();
                    ("class".to_string(), small_rsync("ta.cer"), u, s)
                }
            };
            let issued = prov::IssuedCert::new(cert_url, prov::RequestResourceLimit::new(), rng.pick(&c.certs).clone());
            let signing = prov::SigningCert::new(class_url, rng.pick(&c.certs).clone());
            let resp = prov::IssuanceResponse::new(name.into(), empty_set(), some_time(), issued, signing);
            ("provisioning.issue_response", AnyMsg::Prov(prov::Message::issue_response(handle("parent"), handle("child"), resp)), s)
        }
        "list_response.class_name" | "list_response.certificate.cert_url" => {
            let c = crypto?;
            let (name, cert_url, s) = if slot.name == "list_response.class_name" {
                (v.to_string(), small_rsync("ca/child.cer"), v.to_string())
            } else {
                let u = rsync_with_path(v)?;
                let s = u.to_string();
                ("class".to_string(), u, s)
            };
            let mut classes = Vec::new();
            if rng.bool() {
                let signing = prov::SigningCert::new(small_rsync("ta0.cer"), rng.pick(&c.certs).clone());
                classes.push(prov::ResourceClassEntitlements::new("first".into(), empty_set(), some_time(), Vec::new(), signing));
            }
            let issued = vec![
                prov::IssuedCert::new(small_rsync("ca/other.cer"), prov::RequestResourceLimit::new(), rng.pick(&c.certs).clone()),
                prov::IssuedCert::new(cert_url, prov::RequestResourceLimit::new(), rng.pick(&c.certs).clone()),
            ];
            let signing = prov::SigningCert::new(small_rsync("ta.cer"), rng.pick(&c.certs).clone());
            classes.push(prov::ResourceClassEntitlements::new(name.into(), empty_set(), some_time(), issued, signing));
            (
                "provisioning.list_response",
                AnyMsg::Prov(prov::Message::list_response(handle("parent"), handle("child"), prov::ResourceClassListResponse::new(classes))),
                s,
            )
        }
        _ => return None,
    };
    Some((variant, msg, written))
}

//------------ long resource sets --------------------------------------------------

/// `n` AS blocks whose text form uses both spellings (single number, range).
fn as_blocks_of(n: usize, base: u32) -> AsBlocks {
    let mut b = AsBlocksBuilder::new();
    for i in 0..n as u32 {
        let lo = base + 5 * i;
        let hi = if i % 3 == 0 { lo } else { lo + 2 };
        b.push((Asn::from_u32(lo), Asn::from_u32(hi)));
    }
    b.finalize()
}

fn v4_blocks_of(n: usize, base: u32) -> Ipv4Blocks {
    let mut b = IpBlocksBuilder::new();
    for i in 0..n as u32 {
        // alternately a /24 (prefix form) and an odd range (range form)
        let lo = (base + 1024 * i) as u128;
        let hi = if i % 2 == 0 { lo + 255 } else { lo + 300 };
        b.push((Addr::from_bits(lo << 96), Addr::from_bits((hi << 96) | ((1u128 << 96) - 1))));
    }
    Ipv4Blocks::from(b.finalize())
}

fn v6_blocks_of(n: usize, base: u128) -> Ipv6Blocks {
    let mut b = IpBlocksBuilder::new();
    for i in 0..n as u128 {
        let lo = base + (i << 72);
        let hi = if i % 2 == 0 { lo | ((1u128 << 64) - 1) } else { lo + 12345 };
        b.push((Addr::from_bits(lo), Addr::from_bits(hi)));
    }
    Ipv6Blocks::from(b.finalize())
}

/// The smallest number of blocks (at most `max`) whose text form has at least
/// `target` octets. The library's `Display` is only asked for a length here:
/// it chooses the size of a case, not what is expected of it.
fn blocks_for_len(target: usize, max: usize, len_of: &dyn Fn(usize) -> usize) -> usize {
    let (mut lo, mut hi) = (1usize, max);
    if len_of(hi) < target {
        return hi;
    }
    while lo < hi {
        let mid = (lo + hi) / 2;
        if len_of(mid) >= target {
            hi = mid;
        } else {
            lo = mid + 1;
        }
    }
    lo
}

fn long_resource_sets(ctx: &mut Ctx, crypto: Option<&Crypto>, wf: &mut WfBatch, rng: &mut Rng, index: &mut u64) {
    let Some(c) = crypto else { return };
    let targets: Vec<usize> = if ctx.tier == Tier::Thorough { vec![256, 1024, 4096, 8192, 16384, 65536, 131072, 1 << 20] } else { vec![256, 1024, 4096, 8192, 65536] };
    for &target in &targets {
        for family in 0..3u32 {
            for delta in 0..2usize {
                *index += 1;
                if !ctx.mine(*index) {
                    continue;
                }
                // the number of blocks whose text just reaches the target, and one less
                let (asb, v4, v6, fam, blocks, text_len) = match family {
                    0 => {
                        let base = 64_000 + rng.below(1000) as u32;
                        let n = blocks_for_len(target, target / 5 + 2, &|n| as_blocks_of(n, base).to_string().len()).saturating_sub(delta).max(1);
                        let b = as_blocks_of(n, base);
                        let l = b.to_string().len();
                        (b, v4_blocks_of(0, 0), v6_blocks_of(0, 0), "as", n, l)
                    }
                    1 => {
                        let base = 0x0A00_0000 + 4096 * rng.below(16) as u32;
                        let n = blocks_for_len(target, target / 5 + 2, &|n| v4_blocks_of(n, base).to_string().len()).saturating_sub(delta).max(1);
                        let b = v4_blocks_of(n, base);
                        let l = b.to_string().len();
                        (as_blocks_of(0, 0), b, v6_blocks_of(0, 0), "ipv4", n, l)
                    }
                    _ => {
                        let base = (0x2001_0db8u128 << 96) + ((rng.below(256) as u128) << 88);
                        let n = blocks_for_len(target, target / 5 + 2, &|n| v6_blocks_of(n, base).to_string().len()).saturating_sub(delta).max(1);
                        let b = v6_blocks_of(n, base);
                        let l = b.to_string().len();
                        (as_blocks_of(0, 0), v4_blocks_of(0, 0), b, "ipv6", n, l)
                    }
                };
                ctx.drain_chain_hook(|| json!({"while": "building a long resource set", "family": fam, "blocks": blocks}));
                let set = ResourceSet::new(asb.clone(), v4.clone(), v6.clone());
                let mut limit = prov::RequestResourceLimit::new();
                match family {
                    0 => limit.with_asn(asb.clone()),
                    1 => limit.with_ipv4(v4.clone()),
                    _ => limit.with_ipv6(v6.clone()),
                };
                let text_fields = vec![
                    TextField::As("resource_set_as", asb.clone()),
                    TextField::V4("resource_set_ipv4", v4.clone()),
                    TextField::V6("resource_set_ipv6", v6.clone()),
                ];
                // <class resource_set_*> with a <certificate req_resource_set_*>, and <request req_resource_set_*>
                let issued = prov::IssuedCert::new(small_rsync("ca/child.cer"), limit.clone(), rng.pick(&c.certs).clone());
                let signing = prov::SigningCert::new(small_rsync("ta.cer"), rng.pick(&c.certs).clone());
                let msgs: Vec<(&'static str, prov::Message)> = vec![
                    (
                        "provisioning.issue_response",
                        prov::Message::issue_response(
                            handle("parent"),
                            handle("child"),
                            prov::IssuanceResponse::new("long set".into(), set.clone(), some_time(), issued.clone(), signing.clone()),
                        ),
                    ),
                    (
                        "provisioning.list_response",
                        prov::Message::list_response(
                            handle("parent"),
                            handle("child"),
                            prov::ResourceClassListResponse::new(vec![prov::ResourceClassEntitlements::new(
                                "long set".into(),
                                set.clone(),
                                some_time(),
                                vec![issued.clone()],
                                signing.clone(),
                            )]),
                        ),
                    ),
                    (
                        "provisioning.issue",
                        prov::Message::issue(handle("child"), handle("parent"), prov::IssuanceRequest::new("long set".into(), limit.clone(), rng.pick(&c.csrs).clone())),
                    ),
                ];
                for (variant, m) in msgs {
                    let mut case = Case::new(variant, AnyMsg::Prov(m));
                    case.shape = format!("long resource set: {blocks} {fam} blocks, text form of {text_len} octets (target {target})");
                    case.text_fields = text_fields.clone();
                    ctx.sig(&format!("long-value|{variant}|resource_set_{fam}|run|{}", run_class(target)));
                    ctx.obs("long_values:resource_set_cases", 1);
                    ctx.obs_max("long_values:resource_set_text_octets", text_len as u64);
                    let _ = check_case(ctx, &case, wf);
                    ctx.drain_chain_hook(|| json!({"while": "parsing a long resource set back", "family": fam, "blocks": blocks}));
                }
            }
        }
    }
}

//------------ free text that only a decoder can set ---------------------------------

fn esc_attr(s: &str) -> String {
    s.replace('&', "&amp;").replace('<', "&lt;").replace('>', "&gt;").replace('"', "&quot;").replace('\'', "&apos;")
}

fn decoder_only_fields(ctx: &mut Ctx, wf: &mut WfBatch, rng: &mut Rng, index: &mut u64) {
    let lad = ladder(ctx);
    // (name, alphabet, schema bound)
    let slots: [(&'static str, Alphabet, usize); 3] = [
        ("error_response.description", Alphabet::Prose, 1024),
        ("report_error.error_text", Alphabet::Prose, 512_000),
        ("report_error.tag", Alphabet::Token, 1024),
    ];
    for (si, (name, alpha, cap)) in slots.iter().enumerate() {
        for (li, &l) in lad.iter().enumerate() {
            let l2 = lad[(li + 4) % lad.len()].min(8193);
            let k = 1 + rng.usize_below(9);
            for (hi, (shape, pieces)) in shapes(l, l2, k).into_iter().enumerate() {
                *index += 1;
                if !ctx.mine(*index) {
                    continue;
                }
                // the very long ones for a part of the shapes only
                if l > 9000 && (hi + si + ctx.seed as usize) % 3 != 0 {
                    continue;
                }
                if ctx.is_miri() && (hi + si + li) % 6 != 0 {
                    continue;
                }
                let v = build_value(rng, *alpha, shape, &pieces);
                let (kind, variant, doc) = match *name {
                    "error_response.description" => (
                        Kind::Prov,
                        "provisioning.error_response",
                        format!(
                            "<message xmlns=\"http://www.apnic.net/specs/rescerts/up-down/\" version=\"1\" sender=\"parent\" recipient=\"child\" type=\"error_response\">\n  <status>{}</status>\n  <description xml:lang=\"en-US\">{}</description>\n</message>",
                            *rng.pick(&[1101u32, 1201, 1302, 2001]),
                            v.text
                        ),
                    ),
                    "report_error.error_text" => (
                        Kind::Publ,
                        "publication.error_reply",
                        format!(
                            "<msg xmlns=\"http://www.hactrn.net/uris/rpki/publication-spec/\" version=\"4\" type=\"reply\">\n  <report_error error_code=\"{}\" tag=\"t\">\n    <error_text>{}</error_text>\n  </report_error>\n</msg>",
                            *rng.pick(&["xml_error", "other_error", "consistency_problem"]),
                            v.text
                        ),
                    ),
                    _ => (
                        Kind::Publ,
                        "publication.error_reply",
                        format!(
                            "<msg xmlns=\"http://www.hactrn.net/uris/rpki/publication-spec/\" version=\"4\" type=\"reply\">\n  <report_error error_code=\"no_object_present\" tag=\"{}\">\n    <error_text>short text</error_text>\n  </report_error>\n  <report_error error_code=\"other_error\"/>\n</msg>",
                            esc_attr(&v.text)
                        ),
                    ),
                };
                let over = v.text.len() > *cap;
                let mut td = c11_text::TextDoc::literal(kind, variant, doc.into_bytes());
                td.spelling = format!("long value in {name}: {} ({})", v.recipe, v.shape);
                if over {
                    td.open = Some("longer-than-the-schema-allows");
                }
                ctx.sig(&format!("long-value|{variant}|{name}|{shape}|{}", run_class(l)));
                ctx.obs("long_values:decoder_only_field_documents", 1);
                check_text_doc(ctx, &td, wf);
            }
        }
    }
}

//------------ entry point ----------------------------------------------------------

pub fn run(ctx: &mut Ctx, crypto: Option<&Crypto>, wf: &mut WfBatch) {
    let mut rng = ctx.rng("long-values");
    let lad = ladder(ctx);
    let mut index = 0u64;
    let (mut built, mut refused, mut over_cap) = (0u64, 0u64, 0u64);
    for (si, slot) in SLOTS.iter().enumerate() {
        if slot.needs_crypto && crypto.is_none() {
            continue;
        }
        for (li, &l) in lad.iter().enumerate() {
            let l2 = lad[(li + 4) % lad.len()].min(8193);
            let k = 1 + rng.usize_below(9);
            for (hi, (shape, pieces)) in shapes(l, l2, k).into_iter().enumerate() {
                index += 1;
                if !ctx.mine(index) {
                    continue;
                }
                // the very long ones for a part of the (slot, shape) pairs only; which part depends on the seed
                if l > 9000 && (hi + si + ctx.seed as usize) % 3 != 0 {
                    continue;
                }
                if ctx.is_miri() && (hi + si) % 5 != 0 {
                    continue;
                }
                let v = build_value(&mut rng, slot.alpha, shape, &pieces);
                let made = crate::core::catch(|| build(slot, &v.text, crypto, &mut rng));
                let (variant, msg, written) = match made {
                    Ok(Some(x)) => x,
                    Ok(None) => {
                        // a URI parser or serde refused the value: their right
                        refused += 1;
                        ctx.obs(&format!("long_values:constructor_refused:{}", slot.name), 1);
                        continue;
                    }
                    Err(p) => {
                        let loc = crate::core::panic_location(&p);
                        ctx.violation(
                            &format!("C11:panic:construct:{loc}"),
                            &format!("panic while constructing a message with a long value in {}: {p}", slot.name),
                            json!({"slot": slot.name, "recipe": v.recipe}),
                        );
                        continue;
                    }
                };
                built += 1;
                let mut case = Case::new(variant, msg);
                case.strings.push((slot.name, written.clone()));
                case.shape = format!("long value in {}: {} ({}; {} octets)", slot.name, v.recipe, v.shape, written.len());
                if written.len() > slot.cap {
                    case.open = Some("longer-than-the-schema-allows");
                    over_cap += 1;
                }
                ctx.sig(&format!("long-value|{variant}|{}|{shape}|{}", slot.name, run_class(l)));
                ctx.obs(&format!("long_values:shape:{shape}"), 1);
                ctx.obs_max("long_values:longest_plain_run", v.longest_run as u64);
                ctx.obs_max("long_values:most_specials_in_a_value", v.specials as u64);
                let doc = check_case(ctx, &case, wf);
                if let Some(doc) = doc {
                    if ctx.wants_sample("long value") {
                        let shape_text = case.shape.clone();
                        ctx.sample("long value", || {
                            json!({"variant": variant, "what": shape_text, "document_octets": doc.len(), "observed": "written; handed to expat; parsed back (a difference would be a violation)"})
                        });
                    }
                }
            }
        }
    }
    ctx.obs("long_values:cases", built);
    ctx.obs("long_values:value_refused_by_a_constructor", refused);
    ctx.obs("long_values:longer_than_the_schema_allows", over_cap);
    long_resource_sets(ctx, crypto, wf, &mut rng, &mut index);
    decoder_only_fields(ctx, wf, &mut rng, &mut index);
}
