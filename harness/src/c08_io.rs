//! Scripted in-memory socket and deterministic step driver for C08.
//!
//! The socket is what `Server::run` is given as its only connection. The
//! driver owns the other end: it puts client bytes into the input buffer,
//! fires notifications, grants output capacity and then yields to the
//! (current-thread) scheduler until the server task is parked again. Nothing
//! here knows anything about RTR apart from the 8-byte PDU header that the
//! position labels need.

use rpki::rtr::payload::{Action, Payload, PayloadRef, Timing};
use rpki::rtr::server::{NotifySender, PayloadDiff, PayloadSet, PayloadSource, Server, Socket};
use rpki::rtr::state::State;
use std::collections::VecDeque;
use std::io;
use std::pin::Pin;
use std::sync::{Arc, Mutex};
use std::task::{Context, Poll, Waker};
use tokio::io::{AsyncRead, AsyncWrite, ReadBuf};

/// The server is cut off once it has written this much for one connection
/// (the longest legitimate output of the workload is below 4 KiB).
pub const OUTPUT_HARD_LIMIT: usize = 16 * 1024;

//------------ socket ----------------------------------------------------------

#[derive(Default)]
pub struct SockState {
    inbuf: VecDeque<u8>,
    eof: bool,
    read_waker: Option<Waker>,
    write_waker: Option<Waker>,
    /// The last thing the server did on the read side was to park on an
    /// empty input buffer.
    parked_read_empty: bool,
    /// The last thing the server did on the write side was to park for
    /// lack of output capacity.
    parked_write: bool,
    out: Vec<u8>,
    /// Remaining output capacity; `None` = unlimited.
    credit: Option<usize>,
    consumed: usize,
    /// Number of socket calls made by the server so far.
    activity: u64,
    polled: bool,
    dropped: bool,
    overflow: bool,
    updates: u32,
    eof_reads: u32,
    /// Buffering mode: written bytes sit here until the server flushes.
    buffered: bool,
    pending: Vec<u8>,
    flushes: u32,
    /// The socket reports `is_write_vectored()` and takes a vectored write as
    /// one write of the concatenated slices (so it may stop inside any slice).
    vectored: bool,
    vectored_writes: u32,
    /// Output limit of this socket; 0 stands for `OUTPUT_HARD_LIMIT`.
    limit: usize,
}

#[derive(Clone)]
pub struct ScriptedSocket(Arc<Mutex<SockState>>);

/// What the driver can see of the server at one moment.
#[derive(Clone, Debug)]
pub struct Snapshot {
    pub consumed: usize,
    pub pending_input: usize,
    pub parked_read_empty: bool,
    pub parked_write: bool,
    pub polled: bool,
    pub dropped: bool,
    pub out_len: usize,
}

impl ScriptedSocket {
    pub fn new(credit: Option<usize>) -> Self {
        ScriptedSocket(Arc::new(Mutex::new(SockState { credit, ..Default::default() })))
    }

    /// A socket that, like a `BufWriter` or a TLS stream, hands written bytes
    /// to the peer only when it is flushed.
    pub fn new_buffering(credit: Option<usize>) -> Self {
        ScriptedSocket(Arc::new(Mutex::new(SockState { credit, buffered: true, ..Default::default() })))
    }

    /// Any combination of the socket freedoms, with its own output limit.
    pub fn new_mode(credit: Option<usize>, buffered: bool, vectored: bool, limit: usize) -> Self {
        ScriptedSocket(Arc::new(Mutex::new(SockState { credit, buffered, vectored, limit, ..Default::default() })))
    }

    pub fn vectored_writes(&self) -> u32 {
        self.with(|s| s.vectored_writes)
    }

    /// The end to hand to a server.
    pub fn server_end(&self) -> ServerEnd {
        ServerEnd(self.clone())
    }

    /// Bytes the server has written but not flushed.
    pub fn unflushed(&self) -> Vec<u8> {
        self.with(|s| s.pending.clone())
    }

    pub fn flushes(&self) -> u32 {
        self.with(|s| s.flushes)
    }

    fn with<T>(&self, f: impl FnOnce(&mut SockState) -> T) -> T {
        let mut g = self.0.lock().unwrap_or_else(|e| e.into_inner());
        f(&mut g)
    }

    pub fn deliver(&self, bytes: &[u8]) {
        let w = self.with(|s| {
            if s.dropped || bytes.is_empty() {
                return None;
            }
            s.inbuf.extend(bytes.iter().copied());
            s.parked_read_empty = false;
            s.read_waker.take()
        });
        if let Some(w) = w {
            w.wake();
        }
    }

    pub fn close(&self) {
        let w = self.with(|s| {
            s.eof = true;
            s.parked_read_empty = false;
            s.read_waker.take()
        });
        if let Some(w) = w {
            w.wake();
        }
    }

    /// Adds output capacity (`None` lifts the limit for good).
    pub fn grant(&self, n: Option<usize>) {
        let w = self.with(|s| {
            match n {
                None => s.credit = None,
                Some(n) => {
                    if let Some(c) = s.credit.as_mut() {
                        *c += n;
                    }
                }
            }
            s.write_waker.take()
        });
        if let Some(w) = w {
            w.wake();
        }
    }

    pub fn snapshot(&self) -> Snapshot {
        self.with(|s| Snapshot {
            consumed: s.consumed,
            pending_input: s.inbuf.len(),
            parked_read_empty: s.parked_read_empty,
            parked_write: s.parked_write,
            polled: s.polled,
            dropped: s.dropped,
            out_len: s.out.len(),
        })
    }

    fn activity(&self) -> u64 {
        self.with(|s| s.activity)
    }

    pub fn output(&self) -> Vec<u8> {
        self.with(|s| s.out.clone())
    }

    pub fn overflowed(&self) -> bool {
        self.with(|s| s.overflow)
    }

    pub fn updates(&self) -> u32 {
        self.with(|s| s.updates)
    }

    pub fn eof_reads(&self) -> u32 {
        self.with(|s| s.eof_reads)
    }
}

/// The end handed to the server. Dropping it is how the driver learns that
/// the connection task is gone.
pub struct ServerEnd(ScriptedSocket);

impl Drop for ServerEnd {
    fn drop(&mut self) {
        self.0.with(|s| {
            s.dropped = true;
            s.activity += 1;
        });
    }
}

impl AsyncRead for ServerEnd {
    fn poll_read(self: Pin<&mut Self>, cx: &mut Context<'_>, buf: &mut ReadBuf<'_>) -> Poll<io::Result<()>> {
        self.0.with(|s| {
            s.activity += 1;
            s.polled = true;
            if buf.remaining() == 0 {
                return Poll::Ready(Ok(()));
            }
            if s.inbuf.is_empty() {
                if s.eof {
                    s.eof_reads += 1;
                    if s.eof_reads > 10_000 {
                        // a reader that keeps reading after end of stream
                        return Poll::Ready(Err(io::Error::new(io::ErrorKind::Other, "read after EOF limit")));
                    }
                    return Poll::Ready(Ok(()));
                }
                s.parked_read_empty = true;
                s.read_waker = Some(cx.waker().clone());
                return Poll::Pending;
            }
            let n = buf.remaining().min(s.inbuf.len());
            for _ in 0..n {
                let b = s.inbuf.pop_front().unwrap();
                buf.put_slice(&[b]);
            }
            s.consumed += n;
            s.parked_read_empty = false;
            Poll::Ready(Ok(()))
        })
    }
}

impl SockState {
    /// One write call offering `total` bytes; `copy(n)` hands over the first n of them.
    fn write_some(&mut self, cx: &mut Context<'_>, total: usize, copy: impl FnOnce(&mut Vec<u8>, usize)) -> Poll<io::Result<usize>> {
        self.activity += 1;
        self.polled = true;
        if total == 0 {
            return Poll::Ready(Ok(0));
        }
        let limit = if self.limit == 0 { OUTPUT_HARD_LIMIT } else { self.limit };
        if self.out.len() + self.pending.len() + total > limit {
            self.overflow = true;
            return Poll::Ready(Err(io::Error::new(io::ErrorKind::BrokenPipe, "output limit of the scripted socket")));
        }
        let n = match self.credit {
            None => total,
            Some(0) => {
                self.parked_write = true;
                self.write_waker = Some(cx.waker().clone());
                return Poll::Pending;
            }
            Some(c) => c.min(total),
        };
        if let Some(c) = self.credit.as_mut() {
            *c -= n;
        }
        if self.buffered {
            copy(&mut self.pending, n);
        } else {
            copy(&mut self.out, n);
        }
        self.parked_write = false;
        Poll::Ready(Ok(n))
    }
}

impl AsyncWrite for ServerEnd {
    fn poll_write(self: Pin<&mut Self>, cx: &mut Context<'_>, data: &[u8]) -> Poll<io::Result<usize>> {
        self.0.with(|s| s.write_some(cx, data.len(), |dst, n| dst.extend_from_slice(&data[..n])))
    }

    fn is_write_vectored(&self) -> bool {
        self.0.with(|s| s.vectored)
    }

    fn poll_write_vectored(self: Pin<&mut Self>, cx: &mut Context<'_>, bufs: &[io::IoSlice<'_>]) -> Poll<io::Result<usize>> {
        self.0.with(|s| {
            if !s.vectored {
                // what the trait does by default: the first non-empty slice only
                let first = bufs.iter().find(|b| !b.is_empty()).map(|b| &**b).unwrap_or(&[]);
                return s.write_some(cx, first.len(), |dst, n| dst.extend_from_slice(&first[..n]));
            }
            s.vectored_writes += 1;
            let total: usize = bufs.iter().map(|b| b.len()).sum();
            s.write_some(cx, total, |dst, mut n| {
                for b in bufs {
                    let k = n.min(b.len());
                    dst.extend_from_slice(&b[..k]);
                    n -= k;
                    if n == 0 {
                        break;
                    }
                }
            })
        })
    }

    fn poll_flush(self: Pin<&mut Self>, _cx: &mut Context<'_>) -> Poll<io::Result<()>> {
        self.0.with(|s| {
            s.activity += 1;
            s.flushes += 1;
            let p = std::mem::take(&mut s.pending);
            s.out.extend_from_slice(&p);
        });
        Poll::Ready(Ok(()))
    }

    fn poll_shutdown(self: Pin<&mut Self>, _cx: &mut Context<'_>) -> Poll<io::Result<()>> {
        self.0.with(|s| s.activity += 1);
        Poll::Ready(Ok(()))
    }
}

impl Socket for ServerEnd {
    fn update(&self, _state: State, _reset: bool) {
        self.0.with(|s| s.updates += 1);
    }
}

//------------ payload source ----------------------------------------------------

/// Constant data: nothing in here changes while a connection runs.
pub struct SourceData {
    pub ready: bool,
    pub state: State,
    /// The one older state for which a diff exists.
    pub diff_from: State,
    pub full: Vec<Payload>,
    pub diff: Vec<(Payload, Action)>,
    pub timing: Timing,
}

#[derive(Clone)]
pub struct ConstSource(pub Arc<SourceData>);

pub struct FullIter {
    data: Arc<SourceData>,
    pos: usize,
}

pub struct DiffIter {
    data: Arc<SourceData>,
    pos: usize,
    len: usize,
}

impl PayloadSet for FullIter {
    fn next(&mut self) -> Option<PayloadRef<'_>> {
        let item = self.data.full.get(self.pos)?;
        self.pos += 1;
        Some(item.as_ref())
    }
}

impl PayloadDiff for DiffIter {
    fn next(&mut self) -> Option<(PayloadRef<'_>, Action)> {
        if self.pos >= self.len {
            return None;
        }
        let item = self.data.diff.get(self.pos)?;
        self.pos += 1;
        Some((item.0.as_ref(), item.1))
    }
}

fn same_state(a: State, b: State) -> bool {
    a.session() == b.session() && u32::from(a.serial()) == u32::from(b.serial())
}

impl PayloadSource for ConstSource {
    type Set = FullIter;
    type Diff = DiffIter;

    fn ready(&self) -> bool {
        self.0.ready
    }

    fn notify(&self) -> State {
        self.0.state
    }

    fn full(&self) -> (State, FullIter) {
        (self.0.state, FullIter { data: self.0.clone(), pos: 0 })
    }

    fn diff(&self, state: State) -> Option<(State, DiffIter)> {
        if same_state(state, self.0.state) {
            Some((self.0.state, DiffIter { data: self.0.clone(), pos: 0, len: 0 }))
        } else if same_state(state, self.0.diff_from) {
            Some((self.0.state, DiffIter { data: self.0.clone(), pos: 0, len: self.0.diff.len() }))
        } else {
            None
        }
    }

    fn timing(&self) -> Timing {
        self.0.timing
    }
}

//------------ schedules -------------------------------------------------------------

#[derive(Clone, Copy, Debug, PartialEq, Eq)]
pub enum Step {
    /// Put the next `n` bytes of the client stream into the input buffer.
    Deliver(usize),
    /// `NotifySender::notify()`.
    Notify,
    /// Yield to the scheduler until the server is parked again.
    Settle,
    /// Client reads `n` bytes: the server may write `n` more.
    Grant(usize),
    /// Client reads everything from now on.
    Unlimit,
    /// The driver gives up its `NotifySender`. The accept loop has ended by
    /// then (one connection only), so no sender is left: the connection must
    /// keep serving queries, there is just nothing to be notified of any more.
    DropSender,
    /// Only as the first step: the connection gets the buffering socket
    /// (bytes reach the client when the server flushes, not when it writes).
    Buffering,
    /// Only among the leading steps: the connection's socket reports
    /// `is_write_vectored()` and accepts vectored writes as one write.
    Vectored,
}

#[derive(Clone, Debug)]
pub struct Schedule {
    /// Output capacity at the start (`None` = unlimited).
    pub credit: Option<usize>,
    /// Let the connection start and park before the first step.
    pub settle_first: bool,
    pub steps: Vec<Step>,
}

impl Schedule {
    /// The trivial schedule: everything in one piece, no notification.
    pub fn reference() -> Self {
        Schedule { credit: None, settle_first: true, steps: vec![] }
    }

    fn leading(&self, what: Step) -> bool {
        self.steps.iter().take_while(|s| matches!(s, Step::Buffering | Step::Vectored)).any(|s| *s == what)
    }

    pub fn buffering(&self) -> bool {
        self.leading(Step::Buffering)
    }

    pub fn vectored(&self) -> bool {
        self.leading(Step::Vectored)
    }

    pub fn notifies(&self) -> usize {
        self.steps.iter().filter(|s| **s == Step::Notify).count()
    }

    /// A chunk and a notification are handed to the scheduler without a
    /// quiescent point between them (either order).
    pub fn has_same_tick_race(&self) -> bool {
        self.steps.windows(2).any(|w| {
            matches!((w[0], w[1]), (Step::Deliver(n), Step::Notify) | (Step::Notify, Step::Deliver(n)) if n > 0)
        })
    }

    pub fn chunks(&self) -> usize {
        self.steps.iter().filter(|s| matches!(s, Step::Deliver(n) if *n > 0)).count()
    }

    /// The same schedule keeping only the notifications whose index (among
    /// the notifications) is in `keep`.
    pub fn with_notifies(&self, keep: &[usize]) -> Self {
        let mut idx = 0;
        let mut steps = Vec::new();
        for s in &self.steps {
            if *s == Step::Notify {
                if keep.contains(&idx) {
                    steps.push(*s);
                }
                idx += 1;
            } else if !(*s == Step::Settle && steps.last() == Some(&Step::Settle)) {
                steps.push(*s);
            }
        }
        Schedule { credit: self.credit, settle_first: self.settle_first, steps }
    }

    pub fn to_text(&self) -> String {
        let mut s = String::new();
        match self.credit {
            None => s.push_str("cap=inf"),
            Some(c) => s.push_str(&format!("cap={}", c)),
        }
        if !self.settle_first {
            s.push_str(" nostart");
        }
        for st in &self.steps {
            s.push(' ');
            match st {
                Step::Deliver(n) => s.push_str(&format!("D{}", n)),
                Step::Notify => s.push('N'),
                Step::Settle => s.push('S'),
                Step::Grant(n) => s.push_str(&format!("G{}", n)),
                Step::Unlimit => s.push('U'),
                Step::DropSender => s.push('X'),
                Step::Buffering => s.push_str("buffering-socket"),
                Step::Vectored => s.push_str("vectored-socket"),
            }
        }
        s.push_str(" [rest S U S close S]");
        s
    }
}

/// Where the server was when a notification was fired, as far as the driver
/// can tell from the socket.
#[derive(Clone, Copy, Debug, PartialEq, Eq, PartialOrd, Ord, Hash)]
pub enum Place {
    /// The connection task had not touched the socket yet.
    NotStarted,
    /// Parked on the socket with no byte of the next PDU consumed.
    Idle,
    /// Parked after consuming 1..7 bytes of a header.
    Header(u8),
    /// Header of a Serial Query consumed, 0..3 of its 4 payload bytes too.
    Payload(u8),
    /// Parked on the output side between Cache Response and End of Data (or inside either).
    MidResponse,
    /// Parked on the output side inside some other PDU.
    MidOtherPdu,
    /// Parked on the output side before the first byte of a PDU that is not part of a running response.
    BlockedAtBoundary,
    /// The connection was already gone.
    Closed,
}

#[derive(Clone, Copy, Debug, PartialEq, Eq, PartialOrd, Ord, Hash)]
pub struct NotifyPos {
    pub place: Place,
    /// Index of the client PDU (in the consumption model) the server was in.
    pub query: u8,
    /// Unconsumed client bytes were waiting (chunk and notification become
    /// visible to the server in the same scheduler tick).
    pub same_tick: bool,
}

impl Place {
    pub fn name(&self) -> String {
        match self {
            Place::NotStarted => "not_started".into(),
            Place::Idle => "idle".into(),
            Place::Header(n) => format!("header_{}_of_8", n),
            Place::Payload(n) => format!("payload_{}_of_4", n),
            Place::MidResponse => "mid_response".into(),
            Place::MidOtherPdu => "mid_other_pdu".into(),
            Place::BlockedAtBoundary => "blocked_before_pdu".into(),
            Place::Closed => "closed".into(),
        }
    }
}

/// Label for every possible value of "bytes consumed so far".
#[derive(Clone, Copy, Debug)]
pub struct ReadLabel {
    pub place: Place,
    pub query: u8,
}

pub struct RunOutcome {
    pub out: Vec<u8>,
    pub positions: Vec<NotifyPos>,
    pub consumed: usize,
    pub dropped: bool,
    pub overflow: bool,
    pub settle_bound_hit: bool,
    pub updates: u32,
    pub eof_reads: u32,
    pub panic: Option<String>,
    /// Notifications fired right after a quiescent point, with nothing else
    /// possibly waiting in the channel, while the connection was parked on the
    /// read side between queries or inside a header, or blocked writing, with
    /// the sender and the connection alive: each of them must show up as a
    /// Serial Notify of its own.
    pub notifies_owed: usize,
    /// Buffering socket only: the first time the server was found parked on
    /// its read side with written-but-unflushed bytes: (bytes already
    /// delivered, the unflushed bytes).
    pub unflushed_while_idle: Option<(usize, Vec<u8>)>,
    pub flushes: u32,
}

const SETTLE_BOUND: usize = 20_000;

/// Yields until the server made no socket call during two consecutive turns
/// of the scheduler and is parked (or gone). Returns false if the bound was
/// hit first.
/// The same for several sockets served by one server.
pub async fn settle_all(socks: &[ScriptedSocket]) -> bool {
    let act = |socks: &[ScriptedSocket]| -> u64 { socks.iter().map(|s| s.activity()).sum() };
    let mut last = act(socks);
    let mut calm = 0;
    for _ in 0..SETTLE_BOUND {
        tokio::task::yield_now().await;
        let now = act(socks);
        if now == last {
            calm += 1;
            let parked = socks.iter().all(|sock| {
                let s = sock.snapshot();
                !s.polled || s.dropped || s.parked_write || (s.parked_read_empty && s.pending_input == 0)
            });
            if (calm >= 3 && parked) || calm >= 10 {
                return true;
            }
        } else {
            calm = 0;
            last = now;
        }
    }
    false
}

async fn settle(sock: &ScriptedSocket) -> bool {
    let mut last = sock.activity();
    let mut calm = 0;
    for _ in 0..SETTLE_BOUND {
        tokio::task::yield_now().await;
        let now = sock.activity();
        if now == last {
            calm += 1;
            let s = sock.snapshot();
            let parked = s.dropped || s.parked_write || (s.parked_read_empty && s.pending_input == 0);
            if (calm >= 2 && parked) || calm >= 8 {
                return true;
            }
        } else {
            calm = 0;
            last = now;
        }
    }
    false
}

/// Classifies what the server was writing when it ran out of capacity.
fn write_place(out: &[u8]) -> Place {
    let mut pos = 0;
    let mut in_response = false;
    loop {
        let rest = &out[pos..];
        if rest.is_empty() {
            return if in_response { Place::MidResponse } else { Place::BlockedAtBoundary };
        }
        if rest.len() < 8 {
            let typ = rest.get(1).copied();
            return match typ {
                Some(3) | Some(4) | Some(6) | Some(7) | Some(9) | Some(11) => Place::MidResponse,
                _ if in_response => Place::MidResponse,
                _ => Place::MidOtherPdu,
            };
        }
        let typ = rest[1];
        let len = u32::from_be_bytes([rest[4], rest[5], rest[6], rest[7]]) as usize;
        if len < 8 || rest.len() < len {
            return match typ {
                3 | 4 | 6 | 7 | 9 | 11 => Place::MidResponse,
                _ if in_response => Place::MidResponse,
                _ => Place::MidOtherPdu,
            };
        }
        match typ {
            3 => in_response = true,
            7 => in_response = false,
            _ => {}
        }
        pos += len;
    }
}

pub fn locate(sock: &ScriptedSocket, labels: &[ReadLabel]) -> NotifyPos {
    let s = sock.snapshot();
    let lab = labels[s.consumed.min(labels.len() - 1)];
    let same_tick = s.pending_input > 0 && !s.parked_write && !s.dropped;
    let place = if s.dropped {
        Place::Closed
    } else if !s.polled {
        Place::NotStarted
    } else if s.parked_write {
        write_place(&sock.output())
    } else {
        lab.place
    };
    NotifyPos { place, query: lab.query, same_tick }
}

/// Runs the real `Server::run` with one scripted connection.
///
/// After the schedule's own steps the driver always delivers what is left of
/// the client stream, settles, lifts the output limit, settles, closes the
/// client side and settles, so every schedule ends with the complete client
/// stream delivered and the complete output collected.
pub fn run_schedule(
    rt: &tokio::runtime::Runtime,
    source: &ConstSource,
    stream: &[u8],
    labels: &[ReadLabel],
    schedule: &Schedule,
) -> RunOutcome {
    crate::core::take_last_panic();
    let sock = ScriptedSocket::new_mode(schedule.credit, schedule.buffering(), schedule.vectored(), 0);
    let mut owed = 0usize;
    let mut unflushed: Option<(usize, Vec<u8>)> = None;
    let (positions, bound_hit) = rt.block_on(async {
        let mut sender = Some(NotifySender::new());
        let listener = futures_util::stream::iter(vec![Ok::<ServerEnd, io::Error>(ServerEnd(sock.clone()))]);
        let server = Server::new(listener, sender.as_ref().unwrap().clone(), source.clone());
        let handle = tokio::spawn(server.run());
        let mut positions = Vec::new();
        let mut bound_hit = false;
        let mut offset = 0usize;
        // looks at the socket at a quiescent point
        let mut idle_check = |sock: &ScriptedSocket| {
            let s = sock.snapshot();
            if unflushed.is_none() && !s.dropped && s.parked_read_empty && s.pending_input == 0 && !s.parked_write {
                let p = sock.unflushed();
                if !p.is_empty() {
                    unflushed = Some((s.out_len, p));
                }
            }
        };
        let mut settled = false;
        // a notification may still sit in the channel
        let mut unconsumed = false;
        if schedule.settle_first {
            bound_hit |= !settle(&sock).await;
            idle_check(&sock);
            settled = true;
        }
        for step in &schedule.steps {
            let was_settled = settled;
            settled = false;
            match *step {
                Step::Deliver(n) => {
                    let end = (offset + n).min(stream.len());
                    sock.deliver(&stream[offset..end]);
                    offset = end;
                }
                Step::Notify => {
                    if let Some(sender) = sender.as_mut() {
                        let pos = locate(&sock, labels);
                        if was_settled && !pos.same_tick && !unconsumed {
                            match pos.place {
                                // parked in `recv`: picked up at once
                                Place::Idle | Place::Header(_) => owed += 1,
                                // blocked writing: picked up when the server gets back to `recv`;
                                // anything fired before that may be merged with it
                                Place::MidResponse | Place::MidOtherPdu | Place::BlockedAtBoundary => {
                                    owed += 1;
                                    unconsumed = true;
                                }
                                Place::Payload(_) => unconsumed = true,
                                _ => {}
                            }
                        } else if !matches!(pos.place, Place::Closed | Place::NotStarted) {
                            unconsumed = true;
                        }
                        positions.push(pos);
                        sender.notify();
                    }
                }
                Step::DropSender => sender = None,
                Step::Buffering | Step::Vectored => settled = was_settled,
                Step::Settle => {
                    bound_hit |= !settle(&sock).await;
                    idle_check(&sock);
                    settled = !bound_hit;
                    let pos = locate(&sock, labels);
                    if settled && !pos.same_tick && matches!(pos.place, Place::Idle | Place::Header(_)) {
                        // back in `recv` with nothing to do: whatever was fired has been taken
                        unconsumed = false;
                    }
                }
                Step::Grant(n) => sock.grant(Some(n)),
                Step::Unlimit => sock.grant(None),
            }
        }
        sock.deliver(&stream[offset..]);
        bound_hit |= !settle(&sock).await;
        sock.grant(None);
        bound_hit |= !settle(&sock).await;
        idle_check(&sock);
        sock.close();
        bound_hit |= !settle(&sock).await;
        // the listener stream ended after one socket, so `run` is long done
        let _ = handle.await;
        (positions, bound_hit)
    });
    let snap = sock.snapshot();
    RunOutcome {
        out: sock.output(),
        positions,
        consumed: snap.consumed,
        dropped: snap.dropped,
        overflow: sock.overflowed(),
        settle_bound_hit: bound_hit,
        updates: sock.updates(),
        eof_reads: sock.eof_reads(),
        panic: crate::core::take_last_panic(),
        notifies_owed: owed,
        unflushed_while_idle: unflushed,
        flushes: sock.flushes(),
    }
}

pub fn new_runtime() -> tokio::runtime::Runtime {
    tokio::runtime::Builder::new_current_thread()
        .enable_time()
        .start_paused(true)
        .build()
        .expect("tokio current-thread runtime")
}
