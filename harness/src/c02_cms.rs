//! c02_cms — an **independent CMS assembler** (shared helper of C02 / C10,
//! reusable by C14 and others).
//!
//! Builds RFC 5652 `SignedData` objects in the RFC 6488 profile (RPKI signed
//! objects: ROA, manifest, ASPA, generic) and in the RFC 6492 / RFC 8181
//! profile (CA protocol messages: identity EE certificate + mandatory CRL),
//! using nothing but `crate::der` (TLV writer / reader) and `crate::keys`
//! (aws-lc-rs signatures and digests). Nothing in here calls an encoder of
//! rpki-rs or bcder.
//!
//! Layers, bottom up:
//!
//! * **time**: `unix_from_civil`, `civil_from_unix`, `x509_time`,
//!   `utctime`, `gentime`, `parse_time` (whole seconds, proleptic Gregorian).
//! * **signed attributes**: `attr_content_type`, `attr_message_digest`,
//!   `attr_signing_time`, `attr_binary_signing_time`, `attr_extra`,
//!   `attr_extra_total` (exact encoded size), `pad_attrs_to` (make a list
//!   land on an exact total size), `sort_attrs`, `sig_input_set` (the octets
//!   a signer signs: `0x31 ‖ DER length ‖ attributes`), `sig_input_ctx0`
//!   (the classic mistake: `[0]` tag kept).
//! * **eContent encoders**: `roa_econtent` (RFC 9582), `aspa_econtent`,
//!   `manifest_econtent` / `manifest_econtent_raw` (RFC 9286).
//! * **X.509 pieces written by hand** for the CA protocol profile:
//!   `IdEeSpec` → `id_ee_tbs`, `CrlSpec` → `crl_tbs`, `x509_signed`.
//! * **SignedData**: `SignedData` + `SignerInfo` + `Ber` knobs →
//!   `SignedData::encode()`.
//! * **layout**: `locate(cms)` maps a *DER-form* object produced here to the
//!   byte ranges that matter for "which bit is covered by what".
//!
//! A typical valid RPKI object:
//!
//! ```ignore
//! let ct = der::oid(der::OID_CT_ROA);
//! let content = roa_econtent(64496, &[RoaFamily::v4(vec![(addr, 24, None)])], false);
//! let attrs = sort_attrs(&[attr_content_type(&ct), attr_message_digest(&sha256(&content)), attr_signing_time(t)]);
//! let sig = pool.key(1).sign_raw(&sig_input_set(&attrs));
//! let cms = SignedData::rpki(ct, content, ee_cert_der, ski, attrs, sig).encode();
//! ```

use crate::der::{self, Node};
use crate::keys::{sha1, PoolKey};

//------------ Time ----------------------------------------------------------

/// Days since 1970-01-01 of a proleptic Gregorian date.
fn days_from_civil(y: i64, m: u32, d: u32) -> i64 {
    let y = if m <= 2 { y - 1 } else { y };
    let era = if y >= 0 { y } else { y - 399 } / 400;
    let yoe = y - era * 400;
    let mp = (m as i64 + 9) % 12;
    let doy = (153 * mp + 2) / 5 + d as i64 - 1;
    let doe = yoe * 365 + yoe / 4 - yoe / 100 + doy;
    era * 146_097 + doe - 719_468
}

fn civil_from_days(z: i64) -> (i64, u32, u32) {
    let z = z + 719_468;
    let era = if z >= 0 { z } else { z - 146_096 } / 146_097;
    let doe = z - era * 146_097;
    let yoe = (doe - doe / 1460 + doe / 36_524 - doe / 146_096) / 365;
    let y = yoe + era * 400;
    let doy = doe - (365 * yoe + yoe / 4 - yoe / 100);
    let mp = (5 * doy + 2) / 153;
    let d = (doy - (153 * mp + 2) / 5 + 1) as u32;
    let m = if mp < 10 { mp + 3 } else { mp - 9 } as u32;
    (if m <= 2 { y + 1 } else { y }, m, d)
}

/// Unix seconds of a UTC calendar instant.
pub fn unix_from_civil(y: i64, m: u32, d: u32, hh: u32, mm: u32, ss: u32) -> i64 {
    days_from_civil(y, m, d) * 86_400 + hh as i64 * 3600 + mm as i64 * 60 + ss as i64
}

/// (year, month, day, hour, minute, second) of Unix seconds.
pub fn civil_from_unix(t: i64) -> (i64, u32, u32, u32, u32, u32) {
    let days = t.div_euclid(86_400);
    let rem = t.rem_euclid(86_400);
    let (y, m, d) = civil_from_days(days);
    (y, m, d, (rem / 3600) as u32, (rem % 3600 / 60) as u32, (rem % 60) as u32)
}

/// `YYMMDDHHMMSSZ` (only meaningful for 1950..=2049).
pub fn utctime_string(t: i64) -> String {
    let (y, m, d, hh, mm, ss) = civil_from_unix(t);
    format!("{:02}{:02}{:02}{:02}{:02}{:02}Z", y.rem_euclid(100), m, d, hh, mm, ss)
}

/// `YYYYMMDDHHMMSSZ`.
pub fn gentime_string(t: i64) -> String {
    let (y, m, d, hh, mm, ss) = civil_from_unix(t);
    format!("{:04}{:02}{:02}{:02}{:02}{:02}Z", y, m, d, hh, mm, ss)
}

pub fn utctime(t: i64) -> Vec<u8> {
    der::utctime(&utctime_string(t))
}

pub fn gentime(t: i64) -> Vec<u8> {
    der::gentime(&gentime_string(t))
}

/// RFC 5280 rule: UTCTime through 2049, GeneralizedTime from 2050.
pub fn x509_time(t: i64) -> Vec<u8> {
    let (y, ..) = civil_from_unix(t);
    if (1950..=2049).contains(&y) {
        utctime(t)
    } else {
        gentime(t)
    }
}

/// Parses a UTCTime (tag 0x17, pivot 50) or GeneralizedTime (0x18) value of
/// the strict `…SSZ` form into Unix seconds.
pub fn parse_time(tag: u8, content: &[u8]) -> Option<i64> {
    let s = std::str::from_utf8(content).ok()?;
    let (ylen, want) = match tag {
        der::T_UTCTIME => (2, 13),
        der::T_GENTIME => (4, 15),
        _ => return None,
    };
    if s.len() != want || !s.ends_with('Z') || !s[..want - 1].bytes().all(|b| b.is_ascii_digit()) {
        return None;
    }
    let num = |a: usize, b: usize| s[a..b].parse::<i64>().ok();
    let mut y = num(0, ylen)?;
    if ylen == 2 {
        y += if y >= 50 { 1900 } else { 2000 };
    }
    let m = num(ylen, ylen + 2)? as u32;
    let d = num(ylen + 2, ylen + 4)? as u32;
    let hh = num(ylen + 4, ylen + 6)? as u32;
    let mm = num(ylen + 6, ylen + 8)? as u32;
    let ss = num(ylen + 8, ylen + 10)? as u32;
    if !(1..=12).contains(&m) || !(1..=31).contains(&d) || hh > 23 || mm > 59 || ss > 59 {
        return None;
    }
    Some(unix_from_civil(y, m, d, hh, mm, ss))
}

//------------ Algorithm identifiers -----------------------------------------

/// `AlgorithmIdentifier` from OID arcs, with or without a NULL parameter.
pub fn alg_id(arcs: &[u64], with_null: bool) -> Vec<u8> {
    if with_null {
        der::seq(&[&der::oid(arcs), &der::null()])
    } else {
        der::seq(&[&der::oid(arcs)])
    }
}

/// SHA-256 digest algorithm identifier (RFC 7935: parameters absent).
pub fn alg_sha256() -> Vec<u8> {
    alg_id(der::OID_SHA256, false)
}

/// rsaEncryption with NULL (the CMS signatureAlgorithm of RFC 7935).
pub fn alg_rsa_encryption() -> Vec<u8> {
    alg_id(der::OID_RSA_ENCRYPTION, true)
}

/// sha256WithRSAEncryption with NULL (X.509 signature algorithm; also
/// tolerated as CMS signatureAlgorithm).
pub fn alg_sha256_with_rsa() -> Vec<u8> {
    alg_id(der::OID_SHA256_WITH_RSA, true)
}

pub const OID_SHA1: &[u64] = &[1, 3, 14, 3, 2, 26];
pub const OID_SHA512: &[u64] = &[2, 16, 840, 1, 101, 3, 4, 2, 3];

//------------ Object identifiers of chosen size ----------------------------

/// An OID TLV under the private-enterprise arc whose *content* is exactly
/// `body_len` octets long (`body_len >= 3`). `salt` varies the arcs.
pub fn oid_with_body_len(body_len: usize, salt: u64) -> Vec<u8> {
    assert!(body_len >= 3);
    // 1.3.<k single-octet arcs>: first octet encodes 1.3, every further arc < 128 is one octet
    let mut arcs: Vec<u64> = vec![1, 3];
    let mut x = salt.wrapping_mul(0x9E37_79B9_7F4A_7C15) | 1;
    for _ in 0..body_len - 1 {
        x ^= x << 13;
        x ^= x >> 7;
        x ^= x << 17;
        arcs.push(1 + (x % 126));
    }
    let tlv = der::oid(&arcs);
    debug_assert_eq!(der::parse(&tlv).map(|n| n.content_end - n.content_start), Some(body_len));
    tlv
}

//------------ Signed attributes ---------------------------------------------

/// `Attribute ::= SEQUENCE { attrType OID, attrValues SET OF }` with the
/// values in the given order.
pub fn attribute(oid_tlv: &[u8], values: &[Vec<u8>]) -> Vec<u8> {
    der::seq(&[oid_tlv, &der::set_of_unsorted(values)])
}

/// content-type attribute carrying the given OID TLV.
pub fn attr_content_type(ct_oid_tlv: &[u8]) -> Vec<u8> {
    attribute(&der::oid(der::OID_CONTENT_TYPE), &[ct_oid_tlv.to_vec()])
}

/// message-digest attribute carrying `digest` (any length).
pub fn attr_message_digest(digest: &[u8]) -> Vec<u8> {
    attribute(&der::oid(der::OID_MESSAGE_DIGEST), &[der::octets(digest)])
}

/// signing-time attribute (UTCTime through 2049, else GeneralizedTime).
pub fn attr_signing_time(t: i64) -> Vec<u8> {
    attribute(&der::oid(der::OID_SIGNING_TIME), &[x509_time(t)])
}

/// signing-time attribute in GeneralizedTime form regardless of the year.
pub fn attr_signing_time_general(t: i64) -> Vec<u8> {
    attribute(&der::oid(der::OID_SIGNING_TIME), &[gentime(t)])
}

/// binary-signing-time attribute (RFC 6019): INTEGER seconds.
pub fn attr_binary_signing_time(t: i64) -> Vec<u8> {
    attribute(&der::oid(der::OID_BINARY_SIGNING_TIME), &[der::uint(t.max(0) as u128)])
}

/// An attribute no profile knows: OID 1.3.6.1.4.1.99999.<n>, one OCTET
/// STRING value of `value_len` octets (content derived from n).
pub fn attr_extra(n: u32, value_len: usize) -> Vec<u8> {
    let val: Vec<u8> = (0..value_len).map(|i| (i as u32).wrapping_mul(31).wrapping_add(n) as u8).collect();
    attribute(&der::oid(&[1, 3, 6, 1, 4, 1, 99_999, n as u64]), &[der::octets(&val)])
}

/// An unknown attribute whose attrValues SET takes one of the shapes RFC 5652
/// allows (`SET SIZE (1..MAX) OF AttributeValue`, any type): 0 = one OCTET
/// STRING, 1 = two OCTET STRINGs, 2 = three values of different types
/// (INTEGER, UTF8String, SEQUENCE), 3 = one SEQUENCE with nested members,
/// 4 = NULL and BOOLEAN. Values are written in DER SET OF order.
pub fn attr_extra_shaped(n: u32, value_len: usize, shape: usize) -> Vec<u8> {
    let val: Vec<u8> = (0..value_len).map(|i| (i as u32).wrapping_mul(31).wrapping_add(n) as u8).collect();
    let text: Vec<u8> = (0..value_len.min(40)).map(|i| b'a' + (i % 26) as u8).collect();
    let oid = der::oid(&[1, 3, 6, 1, 4, 1, 99_999, n as u64]);
    let values: Vec<Vec<u8>> = match shape % 5 {
        0 => vec![der::octets(&val)],
        1 => vec![der::octets(&val), der::octets(&[n as u8, 1, 2, 3])],
        2 => vec![der::uint_be(&[0x7f, n as u8]), der::tlv(0x0c, &text), der::seq(&[&der::octets(&val)])],
        3 => vec![der::seq(&[&der::oid(&[1, 2, 840, 113_549, 1, 9, 16, 2, 47]), &der::seq(&[&der::octets(&val), &der::uint_be(&[1])])])],
        _ => vec![der::tlv(0x05, &[]), der::tlv(0x01, &[0xff])],
    };
    der::seq(&[&oid, &der::set_of_sorted(&values)])
}

/// Like `attr_extra` but the *whole attribute* is exactly `total_len` octets
/// long. Returns None when no value length produces that size (sizes that
/// fall into a length-of-length step, and anything below the minimum).
pub fn attr_extra_total(n: u32, total_len: usize) -> Option<Vec<u8>> {
    let min = attr_extra(n, 0).len();
    if total_len < min {
        return None;
    }
    let guess = total_len - min;
    for v in guess.saturating_sub(8)..=guess {
        let a = attr_extra(n, v);
        if a.len() == total_len {
            return Some(a);
        }
    }
    None
}

/// Total length of the attributes (= length of the SET OF content).
pub fn attrs_len(attrs: &[Vec<u8>]) -> usize {
    attrs.iter().map(|a| a.len()).sum()
}

/// Appends one or two extra attributes so that `attrs_len` becomes exactly
/// `target`. Returns false (and leaves `attrs` alone) when impossible.
pub fn pad_attrs_to(attrs: &mut Vec<Vec<u8>>, target: usize, n: u32) -> bool {
    let cur = attrs_len(attrs);
    if target <= cur {
        return target == cur;
    }
    let need = target - cur;
    if let Some(a) = attr_extra_total(n, need) {
        attrs.push(a);
        return true;
    }
    // split in two when `need` falls into a length-of-length gap
    let min = attr_extra(n, 0).len();
    for first in min..need.saturating_sub(min) {
        if let (Some(a), Some(b)) = (attr_extra_total(n, first), attr_extra_total(n + 1, need - first)) {
            attrs.push(a);
            attrs.push(b);
            return true;
        }
    }
    false
}

/// DER order of a SET OF: ascending by encoding.
pub fn sort_attrs(attrs: &[Vec<u8>]) -> Vec<Vec<u8>> {
    let mut v = attrs.to_vec();
    v.sort();
    v
}

pub fn attrs_sorted(attrs: &[Vec<u8>]) -> bool {
    attrs.windows(2).all(|w| w[0] <= w[1])
}

/// What a signer signs: the signed attributes re-tagged as SET OF,
/// `0x31 ‖ DER length ‖ attributes` *in the given order* (pass sorted
/// attributes for the DER encoding).
pub fn sig_input_set(attrs: &[Vec<u8>]) -> Vec<u8> {
    der::set_of_unsorted(attrs)
}

/// The classic mistake: signing the attributes with their `[0]` tag.
pub fn sig_input_ctx0(attrs: &[Vec<u8>]) -> Vec<u8> {
    let mut v = sig_input_set(attrs);
    v[0] = der::ctx(0);
    v
}

/// Size class of the signed attributes: `<128`, `128..255`, `>=256`.
pub fn size_class(len: usize) -> &'static str {
    if len < 128 {
        "<128"
    } else if len < 256 {
        "128..255"
    } else {
        ">=256"
    }
}

/// All permutations of 0..n (n <= 6).
pub fn permutations(n: usize) -> Vec<Vec<usize>> {
    fn rec(cur: &mut Vec<usize>, used: &mut Vec<bool>, n: usize, out: &mut Vec<Vec<usize>>) {
        if cur.len() == n {
            out.push(cur.clone());
            return;
        }
        for i in 0..n {
            if !used[i] {
                used[i] = true;
                cur.push(i);
                rec(cur, used, n, out);
                cur.pop();
                used[i] = false;
            }
        }
    }
    let mut out = Vec::new();
    rec(&mut Vec::new(), &mut vec![false; n], n, &mut out);
    out
}

//------------ eContent encoders ---------------------------------------------

/// An IP prefix as the library models addresses: `addr` left-aligned in 128
/// bits (IPv4 address in the top 32 bits), `len` prefix bits.
#[derive(Clone, Copy, Debug, PartialEq, Eq)]
pub struct Pfx {
    pub addr: u128,
    pub len: u8,
}

impl Pfx {
    pub fn v4(a: u32, len: u8) -> Self {
        Pfx { addr: (a as u128) << 96, len }
    }

    pub fn v6(a: u128, len: u8) -> Self {
        Pfx { addr: a, len }
    }

    fn mask(len: u8) -> u128 {
        if len == 0 {
            0
        } else if len >= 128 {
            u128::MAX
        } else {
            !(u128::MAX >> len)
        }
    }

    /// First address (host bits cleared).
    pub fn min(&self) -> u128 {
        self.addr & Self::mask(self.len)
    }

    /// Last address in the library's 128-bit model (all bits below `len` set,
    /// for IPv4 this includes the 96 padding bits).
    pub fn max(&self) -> u128 {
        self.min() | !Self::mask(self.len)
    }

    /// RFC 3779 IPAddress BIT STRING.
    pub fn bitstring(&self) -> Vec<u8> {
        let nbytes = (self.len as usize).div_ceil(8);
        let bytes = self.min().to_be_bytes();
        let unused = (nbytes * 8 - self.len as usize) as u8;
        der::bitstring(unused, &bytes[..nbytes])
    }
}

/// One `ROAIPAddressFamily`.
#[derive(Clone, Debug)]
pub struct RoaFamily {
    /// addressFamily octets (00 01 = IPv4, 00 02 = IPv6)
    pub afi: Vec<u8>,
    /// (prefix, maxLength)
    pub addrs: Vec<(Pfx, Option<u8>)>,
}

impl RoaFamily {
    pub fn v4(addrs: Vec<(Pfx, Option<u8>)>) -> Self {
        RoaFamily { afi: vec![0, 1], addrs }
    }

    pub fn v6(addrs: Vec<(Pfx, Option<u8>)>) -> Self {
        RoaFamily { afi: vec![0, 2], addrs }
    }
}

/// RFC 9582 `RouteOriginAttestation`. `explicit_version` writes the
/// (non-DER, DEFAULT) `[0] INTEGER 0`.
pub fn roa_econtent(as_id: u32, families: &[RoaFamily], explicit_version: bool) -> Vec<u8> {
    let mut body = Vec::new();
    if explicit_version {
        body.extend_from_slice(&der::tlv(der::ctx(0), &der::uint(0)));
    }
    body.extend_from_slice(&der::uint(as_id as u128));
    let fams: Vec<Vec<u8>> = families
        .iter()
        .map(|f| {
            let addrs: Vec<Vec<u8>> = f
                .addrs
                .iter()
                .map(|(p, ml)| match ml {
                    Some(ml) => der::seq(&[&p.bitstring(), &der::uint(*ml as u128)]),
                    None => der::seq(&[&p.bitstring()]),
                })
                .collect();
            der::seq(&[&der::octets(&f.afi), &der::seq_of(&addrs)])
        })
        .collect();
    body.extend_from_slice(&der::seq_of(&fams));
    der::tlv(der::T_SEQUENCE, &body)
}

/// `ASProviderAttestation` (version 1, providers as given — the caller
/// decides about order and duplicates).
pub fn aspa_econtent(customer: u32, providers: &[u32]) -> Vec<u8> {
    let provs: Vec<Vec<u8>> = providers.iter().map(|p| der::uint(*p as u128)).collect();
    der::seq(&[&der::tlv(der::ctx(0), &der::uint(1)), &der::uint(customer as u128), &der::seq_of(&provs)])
}

/// One manifest `FileAndHash` with full control over the pieces.
#[derive(Clone, Debug)]
pub struct MftEntry {
    pub name: Vec<u8>,
    pub unused_bits: u8,
    pub hash: Vec<u8>,
}

impl MftEntry {
    pub fn new(name: &[u8], hash: &[u8]) -> Self {
        MftEntry { name: name.to_vec(), unused_bits: 0, hash: hash.to_vec() }
    }
}

/// RFC 9286 manifest eContent from raw pieces: `number` is the big-endian
/// magnitude, the times are full TLVs (so that UTCTime or odd strings can be
/// injected), `hash_alg` is the OID TLV.
pub fn manifest_econtent_raw(number: &[u8], this_update: &[u8], next_update: &[u8], hash_alg: &[u8], entries: &[MftEntry]) -> Vec<u8> {
    let files: Vec<Vec<u8>> = entries
        .iter()
        .map(|e| der::seq(&[&der::ia5(&e.name), &der::bitstring(e.unused_bits, &e.hash)]))
        .collect();
    der::seq(&[&der::uint_be(number), this_update, next_update, hash_alg, &der::seq_of(&files)])
}

/// Conforming manifest eContent (GeneralizedTime, SHA-256).
pub fn manifest_econtent(number: u64, this_update: i64, next_update: i64, entries: &[MftEntry]) -> Vec<u8> {
    manifest_econtent_raw(
        &number.to_be_bytes(),
        &gentime(this_update),
        &gentime(next_update),
        &der::oid(der::OID_SHA256),
        entries,
    )
}

//------------ X.509 pieces for the CA protocol profile ----------------------

/// `Name` with a single commonName (PrintableString).
pub fn name_cn(cn: &str) -> Vec<u8> {
    let atv = der::seq(&[&der::oid(&[2, 5, 4, 3]), &der::tlv(der::T_PRINTABLE, cn.as_bytes())]);
    der::seq(&[&der::tlv(der::T_SET, &atv)])
}

/// The subjectPublicKey BIT STRING octets (without the unused-bits octet).
pub fn spki_key_bits(spki: &[u8]) -> Vec<u8> {
    let n = der::parse(spki).expect("spki parses");
    let bits = n.child(1).expect("spki has a bit string").content(spki);
    bits[1..].to_vec()
}

/// RFC 6487 key identifier: SHA-1 over the subjectPublicKey bits.
pub fn ski_of_spki(spki: &[u8]) -> Vec<u8> {
    sha1(&spki_key_bits(spki))
}

/// `Extension ::= SEQUENCE { extnID, critical DEFAULT FALSE, extnValue }`.
pub fn extension(oid_arcs: &[u64], critical: bool, value: &[u8]) -> Vec<u8> {
    if critical {
        der::seq(&[&der::oid(oid_arcs), &der::boolean(true), &der::octets(value)])
    } else {
        der::seq(&[&der::oid(oid_arcs), &der::octets(value)])
    }
}

pub const OID_CE_SKI: &[u64] = &[2, 5, 29, 14];
pub const OID_CE_KEY_USAGE: &[u64] = &[2, 5, 29, 15];
pub const OID_CE_BASIC_CONSTRAINTS: &[u64] = &[2, 5, 29, 19];
pub const OID_CE_CRL_NUMBER: &[u64] = &[2, 5, 29, 20];
pub const OID_CE_AKI: &[u64] = &[2, 5, 29, 35];

/// basicConstraints shapes of an identity EE certificate.
#[derive(Clone, Copy, Debug, PartialEq, Eq)]
pub enum Bc {
    /// extension absent
    Absent,
    /// extension present, cA defaulted (empty SEQUENCE, the DER form of FALSE)
    CaFalse,
    /// extension present with an explicit `BOOLEAN FALSE` (BER, seen in the wild)
    CaFalseExplicit,
    /// extension present, cA TRUE
    CaTrue,
}

/// An identity EE certificate (RFC 6492 / 8181 / 8183 "BPKI EE").
#[derive(Clone, Debug)]
pub struct IdEeSpec {
    /// big-endian magnitude of the serial number
    pub serial: Vec<u8>,
    pub issuer_cn: String,
    pub subject_cn: String,
    pub not_before: i64,
    pub not_after: i64,
    /// SubjectPublicKeyInfo DER of the EE key
    pub spki: Vec<u8>,
    /// subjectKeyIdentifier octets (normally `ski_of_spki(spki)`)
    pub ski: Vec<u8>,
    /// authorityKeyIdentifier octets, None = extension absent
    pub aki: Option<Vec<u8>>,
    pub bc: Bc,
    /// add a (critical) keyUsage digitalSignature extension
    pub key_usage: bool,
}

/// TBSCertificate DER of an identity EE certificate.
pub fn id_ee_tbs(s: &IdEeSpec) -> Vec<u8> {
    let mut exts: Vec<Vec<u8>> = Vec::new();
    match s.bc {
        Bc::Absent => {}
        Bc::CaFalse => exts.push(extension(OID_CE_BASIC_CONSTRAINTS, true, &der::seq(&[]))),
        Bc::CaFalseExplicit => exts.push(extension(OID_CE_BASIC_CONSTRAINTS, true, &der::seq(&[&der::boolean(false)]))),
        Bc::CaTrue => exts.push(extension(OID_CE_BASIC_CONSTRAINTS, true, &der::seq(&[&der::boolean(true)]))),
    }
    exts.push(extension(OID_CE_SKI, false, &der::octets(&s.ski)));
    if let Some(aki) = &s.aki {
        exts.push(extension(OID_CE_AKI, false, &der::seq(&[&der::tlv(der::ctx_prim(0), aki)])));
    }
    if s.key_usage {
        exts.push(extension(OID_CE_KEY_USAGE, true, &der::bitstring(7, &[0x80])));
    }
    der::seq(&[
        &der::tlv(der::ctx(0), &der::uint(2)),
        &der::uint_be(&s.serial),
        &alg_sha256_with_rsa(),
        &name_cn(&s.issuer_cn),
        &der::seq(&[&x509_time(s.not_before), &x509_time(s.not_after)]),
        &name_cn(&s.subject_cn),
        &s.spki,
        &der::tlv(der::ctx(3), &der::seq_of(&exts)),
    ])
}

/// One revoked-certificate entry.
#[derive(Clone, Debug)]
pub struct Revoked {
    /// big-endian magnitude
    pub serial: Vec<u8>,
    pub when: i64,
    /// add a crlEntryExtensions SEQUENCE (reasonCode)
    pub with_ext: bool,
}

/// CRL of the CA protocol profile.
#[derive(Clone, Debug)]
pub struct CrlSpec {
    pub issuer_cn: String,
    pub this_update: i64,
    pub next_update: i64,
    /// None = revokedCertificates absent (the DER form of "nothing revoked"),
    /// Some(vec![]) = present but empty (BER-ish, tolerated by some)
    pub revoked: Option<Vec<Revoked>>,
    /// authorityKeyIdentifier octets, None = extension absent
    pub aki: Option<Vec<u8>>,
    pub crl_number: Option<u64>,
    /// encode the two times as GeneralizedTime
    pub general_time: bool,
}

/// TBSCertList DER (v2, crlExtensions always present — possibly empty).
pub fn crl_tbs(s: &CrlSpec) -> Vec<u8> {
    let t = |x: i64| if s.general_time { gentime(x) } else { x509_time(x) };
    let mut parts: Vec<Vec<u8>> = vec![der::uint(1), alg_sha256_with_rsa(), name_cn(&s.issuer_cn), t(s.this_update), t(s.next_update)];
    if let Some(list) = &s.revoked {
        let entries: Vec<Vec<u8>> = list
            .iter()
            .map(|r| {
                if r.with_ext {
                    let reason = extension(&[2, 5, 29, 21], false, &der::tlv(0x0A, &[1]));
                    der::seq(&[&der::uint_be(&r.serial), &x509_time(r.when), &der::seq(&[&reason])])
                } else {
                    der::seq(&[&der::uint_be(&r.serial), &x509_time(r.when)])
                }
            })
            .collect();
        parts.push(der::seq_of(&entries));
    }
    let mut exts: Vec<Vec<u8>> = Vec::new();
    if let Some(aki) = &s.aki {
        exts.push(extension(OID_CE_AKI, false, &der::seq(&[&der::tlv(der::ctx_prim(0), aki)])));
    }
    if let Some(n) = s.crl_number {
        exts.push(extension(OID_CE_CRL_NUMBER, false, &der::uint(n as u128)));
    }
    parts.push(der::tlv(der::ctx(0), &der::seq_of(&exts)));
    der::seq_of(&parts)
}

/// `SEQUENCE { tbs, sha256WithRSAEncryption, BIT STRING signature }` with the
/// given signature octets.
pub fn x509_assemble(tbs: &[u8], signature: &[u8]) -> Vec<u8> {
    der::seq(&[tbs, &alg_sha256_with_rsa(), &der::bitstring(0, signature)])
}

/// Signs `tbs` with `key` (PKCS#1 v1.5 / SHA-256 via aws-lc-rs) and wraps it.
pub fn x509_signed(tbs: &[u8], key: &PoolKey) -> Vec<u8> {
    x509_assemble(tbs, &key.sign_raw(tbs))
}

//------------ SignedData ----------------------------------------------------

/// BER liberties for relaxed-mode decoding. Everything defaults to DER.
/// None of them touches bytes that are covered by a signature (certificate,
/// CRL, signed attributes content).
#[derive(Clone, Debug, Default, PartialEq, Eq)]
pub struct Ber {
    /// outer ContentInfo SEQUENCE with indefinite length
    pub indef_content_info: bool,
    /// the `[0] EXPLICIT` wrapper around SignedData
    pub indef_content0: bool,
    /// SignedData SEQUENCE
    pub indef_signed_data: bool,
    /// EncapsulatedContentInfo SEQUENCE
    pub indef_encap: bool,
    /// the `[0] EXPLICIT` wrapper around eContent
    pub indef_econtent0: bool,
    /// eContent as constructed OCTET STRING split into chunks of these sizes
    /// (the remainder goes into a last chunk); None = primitive
    pub econtent_chunks: Option<Vec<usize>>,
    /// the constructed OCTET STRING itself with indefinite length
    pub econtent_indef: bool,
    /// certificates `[0]`
    pub indef_certs: bool,
    /// signerInfos SET
    pub indef_signer_infos: bool,
    /// SignerInfo SEQUENCE
    pub indef_signer_info: bool,
    /// non-minimal (padded) definite lengths: number of length octets to use
    /// for ContentInfo / SignedData / signature OCTET STRING (0 = minimal)
    pub pad_outer: usize,
    pub pad_signed_data: usize,
    pub pad_signature: usize,
}

impl Ber {
    pub fn is_der(&self) -> bool {
        *self == Ber::default()
    }

    /// Short description for case signatures.
    pub fn describe(&self) -> String {
        let mut v: Vec<&str> = Vec::new();
        if self.indef_content_info {
            v.push("indef-ci");
        }
        if self.indef_content0 {
            v.push("indef-c0");
        }
        if self.indef_signed_data {
            v.push("indef-sd");
        }
        if self.indef_encap {
            v.push("indef-encap");
        }
        if self.indef_econtent0 {
            v.push("indef-ec0");
        }
        if self.econtent_chunks.is_some() {
            v.push(if self.econtent_indef { "cons-octets-indef" } else { "cons-octets" });
        }
        if self.indef_certs {
            v.push("indef-certs");
        }
        if self.indef_signer_infos {
            v.push("indef-sis");
        }
        if self.indef_signer_info {
            v.push("indef-si");
        }
        if self.pad_outer > 0 || self.pad_signed_data > 0 || self.pad_signature > 0 {
            v.push("nonminimal-len");
        }
        if v.is_empty() {
            "der".into()
        } else {
            v.join("+")
        }
    }
}

fn wrap(tag: u8, content: &[u8], indefinite: bool, pad: usize) -> Vec<u8> {
    if indefinite {
        der::tlv_indefinite(tag, content)
    } else if pad > 0 {
        let mut out = vec![tag];
        out.extend_from_slice(&der::len_bytes_padded(content.len(), pad));
        out.extend_from_slice(content);
        out
    } else {
        der::tlv(tag, content)
    }
}

/// `SignerInfo` (version 3, subjectKeyIdentifier sid).
#[derive(Clone, Debug)]
pub struct SignerInfo {
    pub version: u64,
    /// sid octets (`[0] IMPLICIT SubjectKeyIdentifier`)
    pub sid: Vec<u8>,
    /// digestAlgorithm AlgorithmIdentifier DER
    pub digest_alg: Vec<u8>,
    /// signed attributes in the order they are emitted; None = field absent
    pub signed_attrs: Option<Vec<Vec<u8>>>,
    /// signatureAlgorithm AlgorithmIdentifier DER
    pub sig_alg: Vec<u8>,
    pub signature: Vec<u8>,
    /// raw unsignedAttrs `[1]` content, None = absent
    pub unsigned_attrs: Option<Vec<u8>>,
}

/// CMS `ContentInfo { signedData, SignedData }`.
#[derive(Clone, Debug)]
pub struct SignedData {
    pub version: u64,
    /// digestAlgorithms SET content (AlgorithmIdentifier DERs)
    pub digest_algs: Vec<Vec<u8>>,
    /// eContentType OID TLV
    pub content_type: Vec<u8>,
    /// eContent octets; None = detached (field absent)
    pub econtent: Option<Vec<u8>>,
    /// certificates `[0]` content; empty = field absent
    pub certs: Vec<Vec<u8>>,
    /// crls `[1]` content; empty = field absent
    pub crls: Vec<Vec<u8>>,
    pub signers: Vec<SignerInfo>,
    pub ber: Ber,
}

impl SignedData {
    /// RFC 6488 shaped object: one certificate, no CRL, one SignerInfo.
    pub fn rpki(content_type: Vec<u8>, econtent: Vec<u8>, ee_cert: Vec<u8>, sid: Vec<u8>, signed_attrs: Vec<Vec<u8>>, signature: Vec<u8>) -> Self {
        SignedData {
            version: 3,
            digest_algs: vec![alg_sha256()],
            content_type,
            econtent: Some(econtent),
            certs: vec![ee_cert],
            crls: Vec::new(),
            signers: vec![SignerInfo {
                version: 3,
                sid,
                digest_alg: alg_sha256(),
                signed_attrs: Some(signed_attrs),
                sig_alg: alg_rsa_encryption(),
                signature,
                unsigned_attrs: None,
            }],
            ber: Ber::default(),
        }
    }

    /// RFC 6492 / 8181 shaped message: content type `id-ct-xml`, one identity
    /// EE certificate, one CRL.
    pub fn protocol(econtent: Vec<u8>, ee_cert: Vec<u8>, crl: Vec<u8>, sid: Vec<u8>, signed_attrs: Vec<Vec<u8>>, signature: Vec<u8>) -> Self {
        let mut sd = Self::rpki(der::oid(der::OID_CT_XML), econtent, ee_cert, sid, signed_attrs, signature);
        sd.crls = vec![crl];
        sd
    }

    pub fn encode(&self) -> Vec<u8> {
        let b = &self.ber;
        let mut sd = Vec::new();
        sd.extend_from_slice(&der::uint(self.version as u128));
        sd.extend_from_slice(&der::set_of_unsorted(&self.digest_algs));
        // encapContentInfo
        let mut encap = self.content_type.clone();
        if let Some(content) = &self.econtent {
            let oct = match &b.econtent_chunks {
                None => der::octets(content),
                Some(sizes) => {
                    let mut chunks = Vec::new();
                    let mut pos = 0;
                    for s in sizes {
                        let end = (pos + s).min(content.len());
                        chunks.extend_from_slice(&der::octets(&content[pos..end]));
                        pos = end;
                    }
                    if pos < content.len() || sizes.is_empty() {
                        chunks.extend_from_slice(&der::octets(&content[pos..]));
                    }
                    wrap(der::T_OCTETSTRING | 0x20, &chunks, b.econtent_indef, 0)
                }
            };
            encap.extend_from_slice(&wrap(der::ctx(0), &oct, b.indef_econtent0, 0));
        }
        sd.extend_from_slice(&wrap(der::T_SEQUENCE, &encap, b.indef_encap, 0));
        if !self.certs.is_empty() {
            sd.extend_from_slice(&wrap(der::ctx(0), &der::concat(&self.certs.iter().map(|c| c.as_slice()).collect::<Vec<_>>()), b.indef_certs, 0));
        }
        if !self.crls.is_empty() {
            sd.extend_from_slice(&der::tlv(der::ctx(1), &der::concat(&self.crls.iter().map(|c| c.as_slice()).collect::<Vec<_>>())));
        }
        let mut sis = Vec::new();
        for s in &self.signers {
            let mut si = Vec::new();
            si.extend_from_slice(&der::uint(s.version as u128));
            si.extend_from_slice(&der::tlv(der::ctx_prim(0), &s.sid));
            si.extend_from_slice(&s.digest_alg);
            if let Some(attrs) = &s.signed_attrs {
                let mut body = Vec::new();
                for a in attrs {
                    body.extend_from_slice(a);
                }
                si.extend_from_slice(&der::tlv(der::ctx(0), &body));
            }
            si.extend_from_slice(&s.sig_alg);
            si.extend_from_slice(&wrap(der::T_OCTETSTRING, &s.signature, false, b.pad_signature));
            if let Some(u) = &s.unsigned_attrs {
                si.extend_from_slice(&der::tlv(der::ctx(1), u));
            }
            sis.extend_from_slice(&wrap(der::T_SEQUENCE, &si, b.indef_signer_info, 0));
        }
        sd.extend_from_slice(&wrap(der::T_SET, &sis, b.indef_signer_infos, 0));
        let sd = wrap(der::T_SEQUENCE, &sd, b.indef_signed_data, b.pad_signed_data);
        let mut ci = der::oid(der::OID_SIGNED_DATA);
        ci.extend_from_slice(&wrap(der::ctx(0), &sd, b.indef_content0, 0));
        wrap(der::T_SEQUENCE, &ci, b.indef_content_info, b.pad_outer)
    }
}

//------------ Layout --------------------------------------------------------

/// Half-open byte range.
pub type Range = (usize, usize);

/// Byte ranges of a *DER-form*, single-signer object produced by
/// `SignedData::encode` (or by any conforming encoder).
#[derive(Clone, Debug, Default)]
pub struct Layout {
    /// eContent OCTET STRING value
    pub econtent: Range,
    /// content of the signedAttrs `[0]` (the attributes themselves)
    pub signed_attrs: Range,
    /// signature OCTET STRING value
    pub signature: Range,
    /// sid value
    pub sid: Range,
    /// value octets of the digest algorithm OIDs (digestAlgorithms, SignerInfo)
    pub digest_oids: Vec<Range>,
    /// whole TBSCertificate TLV of the first certificate
    pub cert_tbs: Range,
    /// signature octets of the first certificate (without unused-bits octet)
    pub cert_sig: Range,
    /// whole TBSCertList TLV of the first CRL, if any
    pub crl_tbs: Option<Range>,
    pub crl_sig: Option<Range>,
    pub total: usize,
}

impl Layout {
    /// Name of the covered region `pos` falls into, None = uncovered.
    pub fn region(&self, pos: usize) -> Option<&'static str> {
        let within = |r: &Range| pos >= r.0 && pos < r.1;
        if within(&self.econtent) {
            return Some("eContent");
        }
        if within(&self.signed_attrs) {
            return Some("signedAttrs");
        }
        if within(&self.signature) {
            return Some("signature");
        }
        if within(&self.sid) {
            return Some("sid");
        }
        if self.digest_oids.iter().any(within) {
            return Some("digestAlgorithm");
        }
        if within(&self.cert_tbs) {
            return Some("eeTbs");
        }
        if within(&self.cert_sig) {
            return Some("eeSignature");
        }
        if self.crl_tbs.as_ref().map(within).unwrap_or(false) {
            return Some("crlTbs");
        }
        if self.crl_sig.as_ref().map(within).unwrap_or(false) {
            return Some("crlSignature");
        }
        None
    }

    /// All covered byte positions, ascending.
    pub fn covered_positions(&self) -> Vec<usize> {
        (0..self.total).filter(|p| self.region(*p).is_some()).collect()
    }
}

fn val(n: &Node) -> Range {
    (n.content_start, n.content_end)
}

fn whole(n: &Node) -> Range {
    (n.start, n.end)
}

/// Locates the regions; None if `cms` does not have the expected shape.
pub fn locate(cms: &[u8]) -> Option<Layout> {
    let root = der::parse(cms)?;
    let sd = root.path(&[1, 0])?;
    if sd.tag != der::T_SEQUENCE || sd.children.len() < 5 {
        return None;
    }
    let mut l = Layout { total: cms.len(), ..Default::default() };
    // digestAlgorithms
    let da = sd.child(1)?;
    for alg in &da.children {
        l.digest_oids.push(val(alg.child(0)?));
    }
    // encapContentInfo
    let oct = sd.path(&[2, 1, 0])?;
    if oct.tag != der::T_OCTETSTRING {
        return None;
    }
    l.econtent = val(oct);
    // certificates
    let certs = sd.child(3)?;
    if certs.tag != der::ctx(0) {
        return None;
    }
    let cert = certs.child(0)?;
    l.cert_tbs = whole(cert.child(0)?);
    let sig = cert.child(2)?;
    l.cert_sig = (sig.content_start + 1, sig.content_end);
    let mut idx = 4;
    if sd.child(idx)?.tag == der::ctx(1) {
        let crl = sd.child(idx)?.child(0)?;
        l.crl_tbs = Some(whole(crl.child(0)?));
        let s = crl.child(2)?;
        l.crl_sig = Some((s.content_start + 1, s.content_end));
        idx += 1;
    }
    let si = sd.child(idx)?.child(0)?;
    if si.children.len() < 6 {
        return None;
    }
    l.sid = val(si.child(1)?);
    l.digest_oids.push(val(si.child(2)?.child(0)?));
    let sa = si.child(3)?;
    if sa.tag != der::ctx(0) {
        return None;
    }
    l.signed_attrs = val(sa);
    l.signature = val(si.child(5)?);
    Some(l)
}

/// Validity (notBefore, notAfter) of the first certificate embedded in a
/// DER-form CMS object, read with the harness' own reader.
pub fn embedded_cert_validity(cms: &[u8]) -> Option<(i64, i64)> {
    let root = der::parse(cms)?;
    let cert = root.path(&[1, 0, 3, 0])?;
    let tbs = cert.child(0)?;
    // version [0], serial, signature, issuer, validity
    let v = tbs.child(4)?;
    let nb = v.child(0)?;
    let na = v.child(1)?;
    Some((parse_time(nb.tag, nb.content(cms))?, parse_time(na.tag, na.content(cms))?))
}

/// (thisUpdate, nextUpdate) of the first CRL embedded in a DER-form CMS.
pub fn embedded_crl_window(cms: &[u8]) -> Option<(i64, i64)> {
    let root = der::parse(cms)?;
    let crls = root.path(&[1, 0, 4])?;
    if crls.tag != der::ctx(1) {
        return None;
    }
    let tbs = crls.path(&[0, 0])?;
    // version, signature, issuer, thisUpdate, nextUpdate
    let tu = tbs.child(3)?;
    let nu = tbs.child(4)?;
    Some((parse_time(tu.tag, tu.content(cms))?, parse_time(nu.tag, nu.content(cms))?))
}

/// Flips one bit.
pub fn flip(data: &[u8], byte: usize, bit: u8) -> Vec<u8> {
    let mut v = data.to_vec();
    v[byte] ^= 1 << bit;
    v
}

#[cfg(test)]
mod test {
    use super::*;

    #[test]
    fn times() {
        assert_eq!(unix_from_civil(1970, 1, 1, 0, 0, 0), 0);
        assert_eq!(unix_from_civil(2000, 3, 1, 0, 0, 0), 951_868_800);
        assert_eq!(gentime_string(951_868_800), "20000301000000Z");
        assert_eq!(utctime_string(1_700_000_000), "231114221320Z");
        assert_eq!(parse_time(der::T_UTCTIME, b"231114221320Z"), Some(1_700_000_000));
        assert_eq!(parse_time(der::T_GENTIME, b"20231114221320Z"), Some(1_700_000_000));
        for t in [0i64, 86_399, 86_400, 946_684_799, 946_684_800, 2_524_607_999, 2_524_608_000, 4_102_444_800] {
            let (y, m, d, hh, mm, ss) = civil_from_unix(t);
            assert_eq!(unix_from_civil(y, m, d, hh, mm, ss), t);
        }
    }

    #[test]
    fn attrs() {
        let ct = der::oid(der::OID_CT_ROA);
        let a = vec![attr_content_type(&ct), attr_message_digest(&[0u8; 32]), attr_signing_time(1_700_000_000)];
        assert_eq!(attrs_len(&a), 107);
        for target in [124usize, 125, 127, 128, 129, 200, 255, 256, 257, 300, 400] {
            let mut b = a.clone();
            assert!(pad_attrs_to(&mut b, target, 1), "target {}", target);
            assert_eq!(attrs_len(&b), target);
        }
        assert_eq!(sig_input_set(&a)[..2], [0x31, 107]);
        let mut b = a.clone();
        pad_attrs_to(&mut b, 200, 1);
        assert_eq!(sig_input_set(&b)[..3], [0x31, 0x81, 200]);
        pad_attrs_to(&mut b, 300, 3);
        assert_eq!(sig_input_set(&b)[..4], [0x31, 0x82, 1, 44]);
        assert_eq!(permutations(3).len(), 6);
        for n in [3usize, 11, 32, 125, 126, 127, 128, 160, 200] {
            let o = oid_with_body_len(n, 7);
            assert_eq!(der::parse(&o).unwrap().content(&o).len(), n);
        }
    }

    #[test]
    fn layout() {
        let ct = der::oid(der::OID_CT_XML);
        let attrs = vec![attr_content_type(&ct), attr_message_digest(&[1u8; 32])];
        let cert = der::seq(&[&der::seq(&[&der::uint(1)]), &alg_sha256_with_rsa(), &der::bitstring(0, &[9, 9, 9])]);
        let sd = SignedData::protocol(b"hello".to_vec(), cert.clone(), cert, vec![7u8; 20], attrs, vec![5u8; 16]);
        let cms = sd.encode();
        let l = locate(&cms).unwrap();
        assert_eq!(&cms[l.econtent.0..l.econtent.1], b"hello");
        assert_eq!(&cms[l.sid.0..l.sid.1], &[7u8; 20]);
        assert_eq!(&cms[l.signature.0..l.signature.1], &[5u8; 16]);
        assert_eq!(&cms[l.cert_sig.0..l.cert_sig.1], &[9, 9, 9]);
        assert_eq!(l.digest_oids.len(), 2);
        assert!(l.crl_tbs.is_some());
        let mut b = sd.clone();
        b.ber.indef_content_info = true;
        b.ber.econtent_chunks = Some(vec![2]);
        b.ber.econtent_indef = true;
        assert!(der::parse(&b.encode()).is_some());
    }
}
