//! C06 helper: in-memory plumbing between the real client and the real server.
//!
//! client <-duplex(c_buf)-> middlebox task <-duplex(s_buf)-> `ServerSock` -> `Server::run`
//!
//! The middlebox relays bytes with unbounded internal queues (so the tiny
//! duplex buffers suspend the peers mid-PDU without creating write/write
//! deadlocks that real sockets would not have), taps the PDU framing in both
//! directions and, when `cap < 2`, plays an older cache: queries with a
//! version above `cap` are answered with an "unsupported protocol version"
//! Error PDU (code 4, version field = cap) and not forwarded.

use futures_util::stream::Stream;
use rpki::rtr::server::Socket;
use rpki::rtr::state::State;
use std::future::Future;
use std::io;
use std::pin::Pin;
use std::sync::{Arc, Mutex};
use std::task::{Context, Poll};
use tokio::io::{AsyncRead, AsyncWrite, DuplexStream, ReadBuf};
use tokio::sync::mpsc::UnboundedReceiver;

//------------ server side socket --------------------------------------------

pub struct ServerSock {
    inner: DuplexStream,
    updates: Arc<Mutex<Vec<(u16, u32, bool)>>>,
}

impl ServerSock {
    pub fn new(inner: DuplexStream, updates: Arc<Mutex<Vec<(u16, u32, bool)>>>) -> Self {
        ServerSock { inner, updates }
    }
}

impl AsyncRead for ServerSock {
    fn poll_read(mut self: Pin<&mut Self>, cx: &mut Context<'_>, buf: &mut ReadBuf<'_>) -> Poll<io::Result<()>> {
        Pin::new(&mut self.inner).poll_read(cx, buf)
    }
}

impl AsyncWrite for ServerSock {
    fn poll_write(mut self: Pin<&mut Self>, cx: &mut Context<'_>, buf: &[u8]) -> Poll<io::Result<usize>> {
        Pin::new(&mut self.inner).poll_write(cx, buf)
    }

    fn poll_flush(mut self: Pin<&mut Self>, cx: &mut Context<'_>) -> Poll<io::Result<()>> {
        Pin::new(&mut self.inner).poll_flush(cx)
    }

    fn poll_shutdown(mut self: Pin<&mut Self>, cx: &mut Context<'_>) -> Poll<io::Result<()>> {
        Pin::new(&mut self.inner).poll_shutdown(cx)
    }
}

impl Socket for ServerSock {
    fn update(&self, state: State, reset: bool) {
        self.updates.lock().unwrap().push((state.session(), u32::from(state.serial()), reset));
    }
}

//------------ listener ------------------------------------------------------

/// The listener handed to `Server::new`: new connections arrive over a channel.
pub struct Listener(pub UnboundedReceiver<ServerSock>);

impl Stream for Listener {
    type Item = Result<ServerSock, io::Error>;

    fn poll_next(mut self: Pin<&mut Self>, cx: &mut Context<'_>) -> Poll<Option<Self::Item>> {
        self.0.poll_recv(cx).map(|o| o.map(Ok))
    }
}

//------------ tap -----------------------------------------------------------

#[derive(Clone, Debug, PartialEq, Eq)]
pub struct Eod {
    pub version: u8,
    pub session: u16,
    pub serial: u32,
    pub timing: Option<(u32, u32, u32)>,
}

/// What the middlebox saw since the last `clear`.
#[derive(Clone, Debug, Default)]
pub struct TapLog {
    pub eods: Vec<Eod>,
    pub cache_responses: u32,
    pub cache_resets: u32,
    pub notifies: u32,
    pub payload_pdus: u32,
    /// error codes of Error PDUs the real server sent
    pub server_errors: Vec<u16>,
    /// (version, pdu type) of client PDUs
    pub client_pdus: Vec<(u8, u8)>,
    /// queries the emulated old cache refused
    pub downgrades: u32,
    /// framing lost in one direction (never expected)
    pub desync: bool,
    /// number of times a relay write could not complete at once
    pub partial_writes: u32,
    pub bytes_to_client: u64,
    /// octets of payload PDUs (prefixes, router keys, ASPAs) the server sent
    pub payload_octets: u64,
    /// the longest payload PDU the server sent
    pub max_payload_pdu: u32,
}

fn be16(b: &[u8]) -> u16 {
    u16::from_be_bytes([b[0], b[1]])
}

fn be32(b: &[u8]) -> u32 {
    u32::from_be_bytes([b[0], b[1], b[2], b[3]])
}

/// Longer than anything the harness' source hands out (router keys of up to
/// 1.1 MB in the large histories).
const MAX_PDU: usize = 1 << 24;

/// Splits complete PDUs off the front of `buf`.
fn take_pdu(buf: &mut Vec<u8>, desync: &mut bool) -> Option<Vec<u8>> {
    if *desync || buf.len() < 8 {
        return None;
    }
    let len = be32(&buf[4..8]) as usize;
    if !(8..=MAX_PDU).contains(&len) {
        *desync = true;
        return None;
    }
    if buf.len() < len {
        return None;
    }
    let rest = buf.split_off(len);
    Some(std::mem::replace(buf, rest))
}

//------------ middlebox -----------------------------------------------------

/// Octets waiting to be relayed. Taking octets off the front moves a cursor
/// (a response of a megabyte behind a pipe of a few octets would otherwise be
/// shifted once per write).
#[derive(Default)]
struct Queue {
    buf: Vec<u8>,
    pos: usize,
}

impl Queue {
    fn extend_from_slice(&mut self, data: &[u8]) {
        self.buf.extend_from_slice(data);
    }

    fn is_empty(&self) -> bool {
        self.pos == self.buf.len()
    }

    fn pending(&self) -> &[u8] {
        &self.buf[self.pos..]
    }

    fn advance(&mut self, n: usize) {
        self.pos += n;
        if self.pos == self.buf.len() {
            self.buf.clear();
            self.pos = 0;
        } else if self.pos >= 1 << 16 && self.pos * 2 >= self.buf.len() {
            self.buf.drain(..self.pos);
            self.pos = 0;
        }
    }
}

pub struct Middlebox {
    c: DuplexStream,
    s: DuplexStream,
    cap: u8,
    to_c: Queue,
    to_s: Queue,
    c_in: Vec<u8>,
    s_in: Vec<u8>,
    c_desync: bool,
    s_desync: bool,
    tap: Arc<Mutex<TapLog>>,
}

impl Middlebox {
    pub fn new(c: DuplexStream, s: DuplexStream, cap: u8, tap: Arc<Mutex<TapLog>>) -> Self {
        Middlebox { c, s, cap, to_c: Queue::default(), to_s: Queue::default(), c_in: Vec::new(), s_in: Vec::new(), c_desync: false, s_desync: false, tap }
    }

    fn on_client_bytes(&mut self, data: &[u8]) {
        if self.c_desync {
            self.to_s.extend_from_slice(data);
            return;
        }
        self.c_in.extend_from_slice(data);
        while let Some(pdu) = take_pdu(&mut self.c_in, &mut self.c_desync) {
            let version = pdu[0];
            let typ = pdu[1];
            let mut tap = self.tap.lock().unwrap();
            tap.client_pdus.push((version, typ));
            let is_query = typ == 1 || typ == 2;
            if is_query && version > self.cap {
                // the older cache: Error Report, code 4, its own highest version
                tap.downgrades += 1;
                let text = b"unsupported protocol version";
                let total = 8 + 4 + pdu.len() + 4 + text.len();
                let mut e = Vec::with_capacity(total);
                e.push(self.cap);
                e.push(10);
                e.extend_from_slice(&4u16.to_be_bytes());
                e.extend_from_slice(&(total as u32).to_be_bytes());
                e.extend_from_slice(&(pdu.len() as u32).to_be_bytes());
                e.extend_from_slice(&pdu);
                e.extend_from_slice(&(text.len() as u32).to_be_bytes());
                e.extend_from_slice(text);
                tap.bytes_to_client += e.len() as u64;
                self.to_c.extend_from_slice(&e);
            } else {
                self.to_s.extend_from_slice(&pdu);
            }
        }
        if self.c_desync {
            self.tap.lock().unwrap().desync = true;
            let rest = std::mem::take(&mut self.c_in);
            self.to_s.extend_from_slice(&rest);
        }
    }

    fn on_server_bytes(&mut self, data: &[u8]) {
        self.to_c.extend_from_slice(data);
        let mut tap = self.tap.lock().unwrap();
        tap.bytes_to_client += data.len() as u64;
        if self.s_desync {
            return;
        }
        self.s_in.extend_from_slice(data);
        while let Some(pdu) = take_pdu(&mut self.s_in, &mut self.s_desync) {
            match pdu[1] {
                0 => tap.notifies += 1,
                3 => tap.cache_responses += 1,
                4 | 6 | 9 | 11 => {
                    tap.payload_pdus += 1;
                    tap.payload_octets += pdu.len() as u64;
                    tap.max_payload_pdu = tap.max_payload_pdu.max(pdu.len() as u32);
                }
                7 => {
                    let timing = if pdu.len() >= 24 { Some((be32(&pdu[12..16]), be32(&pdu[16..20]), be32(&pdu[20..24]))) } else { None };
                    if pdu.len() >= 12 {
                        tap.eods.push(Eod { version: pdu[0], session: be16(&pdu[2..4]), serial: be32(&pdu[8..12]), timing });
                    }
                }
                8 => tap.cache_resets += 1,
                10 => tap.server_errors.push(be16(&pdu[2..4])),
                _ => {}
            }
        }
        if self.s_desync {
            tap.desync = true;
        }
    }
}

impl Future for Middlebox {
    type Output = ();

    fn poll(mut self: Pin<&mut Self>, cx: &mut Context<'_>) -> Poll<()> {
        let me = &mut *self;
        loop {
            let mut progress = false;
            let mut buf = [0u8; 512];
            // client -> box
            let mut rb = ReadBuf::new(&mut buf);
            match Pin::new(&mut me.c).poll_read(cx, &mut rb) {
                Poll::Ready(Ok(())) => {
                    if rb.filled().is_empty() {
                        return Poll::Ready(());
                    }
                    let n = rb.filled().len();
                    let data = buf[..n].to_vec();
                    me.on_client_bytes(&data);
                    progress = true;
                }
                Poll::Ready(Err(_)) => return Poll::Ready(()),
                Poll::Pending => {}
            }
            // server -> box
            let mut rb = ReadBuf::new(&mut buf);
            match Pin::new(&mut me.s).poll_read(cx, &mut rb) {
                Poll::Ready(Ok(())) => {
                    if rb.filled().is_empty() {
                        return Poll::Ready(());
                    }
                    let n = rb.filled().len();
                    let data = buf[..n].to_vec();
                    me.on_server_bytes(&data);
                    progress = true;
                }
                Poll::Ready(Err(_)) => return Poll::Ready(()),
                Poll::Pending => {}
            }
            // box -> server
            if !me.to_s.is_empty() {
                match Pin::new(&mut me.s).poll_write(cx, me.to_s.pending()) {
                    Poll::Ready(Ok(0)) | Poll::Ready(Err(_)) => return Poll::Ready(()),
                    Poll::Ready(Ok(n)) => {
                        if n < me.to_s.pending().len() {
                            me.tap.lock().unwrap().partial_writes += 1;
                        }
                        me.to_s.advance(n);
                        progress = true;
                    }
                    Poll::Pending => {}
                }
            }
            // box -> client
            if !me.to_c.is_empty() {
                match Pin::new(&mut me.c).poll_write(cx, me.to_c.pending()) {
                    Poll::Ready(Ok(0)) | Poll::Ready(Err(_)) => return Poll::Ready(()),
                    Poll::Ready(Ok(n)) => {
                        if n < me.to_c.pending().len() {
                            me.tap.lock().unwrap().partial_writes += 1;
                        }
                        me.to_c.advance(n);
                        progress = true;
                    }
                    Poll::Pending => {}
                }
            }
            if !progress {
                return Poll::Pending;
            }
        }
    }
}
