//! C05 — generators for builder inputs that conform to the object profiles.
//!
//! Everything here is deterministic in the `Rng` handed in. Each generator
//! returns the value together with a short *class label* that goes into the
//! case signature (DESIGN §10: field-shape vector).

use crate::core::Rng;
use crate::der;
use bcder::Mode;
use chrono::{TimeZone, Utc};
use rpki::repository::resources::{
    Addr, AddressRange, AsBlock, AsBlocks, AsResources, Asn, IpBlock, IpBlocks, IpResources, Prefix,
};
use rpki::repository::x509::{Name, Serial, Time, Validity};
use rpki::uri;
use serde_json::{json, Value};

//------------ Serials -------------------------------------------------------

/// A serial number from a boundary-dense distribution. Returns the 20-octet
/// big-endian magnitude (top bit clear) and its class.
pub fn serial(rng: &mut Rng) -> (Serial, String) {
    let mut a = [0u8; 20];
    let class: String;
    match rng.below(16) {
        0 => class = "0".into(),
        1 => {
            a[19] = 1;
            class = "1".into()
        }
        2 => {
            a[19] = 127;
            class = "127".into()
        }
        3 => {
            a[19] = 128;
            class = "128".into()
        }
        4 => {
            a[19] = 255;
            class = "255".into()
        }
        5 => {
            a[18] = 1;
            class = "256".into()
        }
        6 => {
            a[12] = 0x80;
            class = "2^63".into()
        }
        7 => {
            for b in a.iter_mut().skip(12) {
                *b = 0xFF;
            }
            class = "2^64-1".into()
        }
        8 => {
            a[0] = 0x7F;
            for b in a.iter_mut().skip(1) {
                *b = 0xFF;
            }
            class = "2^159-1".into()
        }
        9 => {
            a[0] = 0x40;
            class = "2^158".into()
        }
        10 => {
            a[1] = 0x80;
            class = "2^151(lead80,19oct)".into()
        }
        11 | 12 => {
            // leading octet >= 0x80 at a random length (needs a 0x00 pad in DER)
            let len = 1 + rng.usize_below(19);
            let start = 20 - len;
            a[start] = 0x80 | (rng.next_u32() as u8);
            for b in a.iter_mut().skip(start + 1) {
                *b = rng.next_u32() as u8;
            }
            class = format!("lead>=80,len{}", if len < 8 { "<8" } else if len < 19 { "8-18" } else { "19" });
        }
        13 => {
            // leading octet 0x01..0x7F at a random length (no pad)
            let len = 1 + rng.usize_below(20);
            let start = 20 - len;
            a[start] = 1 + (rng.next_u32() as u8 % 0x7F);
            for b in a.iter_mut().skip(start + 1) {
                *b = rng.next_u32() as u8;
            }
            class = format!("lead<80,len{}", if len < 8 { "<8" } else if len < 20 { "8-19" } else { "20" });
        }
        14 => {
            // inner zero octets
            let len = 2 + rng.usize_below(18);
            let start = 20 - len;
            a[start] = 1 + (rng.next_u32() as u8 % 0x7F);
            a[19] = rng.next_u32() as u8;
            class = "inner-zeros".into();
        }
        _ => {
            let v = rng.next_u64();
            a[12..].copy_from_slice(&v.to_be_bytes());
            class = "random-u64".into();
        }
    }
    (Serial::from_array(a).expect("top bit clear"), class)
}

/// Coarse class of a serial by the shape of its DER INTEGER content.
pub fn serial_coarse(s: Serial) -> &'static str {
    let a = s.into_array();
    match a.iter().position(|b| *b != 0) {
        None => "zero",
        Some(i) => {
            let pad = a[i] & 0x80 != 0;
            match (20 - i, pad) {
                (1, false) => "1 octet",
                (1, true) => "1 octet+pad",
                (20, _) => "20 octets",
                (_, false) => "n octets",
                (_, true) => "n octets+pad",
            }
        }
    }
}

pub fn serial_json(s: Serial) -> Value {
    json!(crate::core::hex(&s.into_array()))
}

//------------ Times ---------------------------------------------------------

fn days_in_month(y: i32, m: u32) -> u32 {
    match m {
        1 | 3 | 5 | 7 | 8 | 10 | 12 => 31,
        4 | 6 | 9 | 11 => 30,
        _ => {
            if (y % 4 == 0 && y % 100 != 0) || y % 400 == 0 {
                29
            } else {
                28
            }
        }
    }
}

/// Which ASN.1 type RFC 5280 prescribes for a year (oracle side: from the
/// RFC, not from the library).
pub fn time_encoding(year: i32) -> &'static str {
    if (1950..=2049).contains(&year) {
        "utc"
    } else {
        "gen"
    }
}

fn pick_year(rng: &mut Rng) -> i32 {
    const EDGE: [i32; 16] = [1, 999, 1000, 1900, 1948, 1949, 1950, 1951, 1970, 1999, 2000, 2048, 2049, 2050, 2051, 9999];
    match rng.below(10) {
        0..=5 => *rng.pick(&EDGE),
        6 => rng.range(1950, 2049) as i32,
        7 => rng.range(2050, 9999) as i32,
        8 => rng.range(1, 1949) as i32,
        _ => rng.range(2020, 2035) as i32,
    }
}

/// A whole-second time with year in 1..=9999.
pub fn time(rng: &mut Rng) -> Time {
    let y = pick_year(rng);
    let (mo, d) = match rng.below(8) {
        0 => (1, 1),
        1 => (12, 31),
        2 => (2, days_in_month(y, 2)),
        3 => (3, 1),
        _ => {
            let mo = rng.range(1, 12) as u32;
            (mo, rng.range(1, days_in_month(y, mo) as u64) as u32)
        }
    };
    let (h, mi, s) = match rng.below(6) {
        0 => (0, 0, 0),
        1 => (23, 59, 59),
        2 => (0, 0, 1),
        _ => (rng.below(24) as u32, rng.below(60) as u32, rng.below(60) as u32),
    };
    Time::utc(y, mo, d, h, mi, s)
}

pub fn time_from_ts(ts: i64) -> Time {
    Time::new(Utc.timestamp_opt(ts, 0).single().expect("valid timestamp"))
}

/// The current time truncated to whole seconds (only used to *construct*
/// windows for the objects whose validator has no `_at` variant).
pub fn now_whole() -> Time {
    time_from_ts(Time::now().timestamp())
}

pub fn time_str(t: Time) -> String {
    t.format("%Y-%m-%dT%H:%M:%SZ").to_string()
}

pub struct Window {
    pub validity: Validity,
    /// A time inside the window at which validation must succeed.
    pub at: Time,
    /// fine class: encodings of both ends plus the position of `at`
    pub class: String,
    /// coarse class: ASN.1 time type of not_before / not_after
    pub enc: String,
}

/// A validity window (not_before <= not_after) with both ends drawn from the
/// boundary-dense time generator, plus an evaluation instant inside it.
pub fn window(rng: &mut Rng) -> Window {
    let a = time(rng);
    let b = if rng.chance(1, 12) { a } else { time(rng) };
    let (nb, na) = if a <= b { (a, b) } else { (b, a) };
    let (at, at_class) = match rng.below(3) {
        0 => (nb, "at=nb"),
        1 => (na, "at=na"),
        _ => (time_from_ts(nb.timestamp() + (na.timestamp() - nb.timestamp()) / 2), "at=mid"),
    };
    use chrono::Datelike;
    Window {
        validity: Validity::new(nb, na),
        at,
        class: format!("{}/{} {}", time_encoding(nb.year()), time_encoding(na.year()), at_class),
        enc: format!("{}/{}", time_encoding(nb.year()), time_encoding(na.year())),
    }
}

/// A window that contains the real current time (for `Roa::process`,
/// `Aspa::process`, which only validate at `Time::now()`).
pub fn window_around_now(rng: &mut Rng) -> Window {
    let now = now_whole().timestamp();
    const BACK: [i64; 4] = [3600, 86_400, 400 * 86_400, 30 * 365 * 86_400];
    const FWD: [i64; 4] = [3600, 86_400, 400 * 86_400, 30 * 365 * 86_400];
    let nb = time_from_ts(now - *rng.pick(&BACK));
    let na = time_from_ts(now + *rng.pick(&FWD));
    use chrono::Datelike;
    Window {
        validity: Validity::new(nb, na),
        at: time_from_ts(now),
        class: format!("{}/{} at=now", time_encoding(nb.year()), time_encoding(na.year())),
        enc: format!("{}/{}", time_encoding(nb.year()), time_encoding(na.year())),
    }
}

pub fn validity_json(v: Validity) -> Value {
    json!([time_str(v.not_before()), time_str(v.not_after())])
}

//------------ Names ---------------------------------------------------------

const PRINTABLE: &[u8] = b"ABCDEFGHIJKLMNOPQRSTUVWXYZabcdefghijklmnopqrstuvwxyz0123456789 '()+,-./:=?";

fn printable(rng: &mut Rng, min: usize, max: usize) -> Vec<u8> {
    let n = min + rng.usize_below(max - min + 1);
    (0..n).map(|_| *rng.pick(PRINTABLE)).collect()
}

fn attr(oid: &[u64], tag: u8, value: &[u8]) -> Vec<u8> {
    der::seq(&[&der::oid(oid), &der::tlv(tag, value)])
}

/// A distinguished name built with the harness' own DER writer and taken in
/// through the library's public `Name::take_from`. `None` = let the builder
/// derive the default name from the key.
pub fn name(rng: &mut Rng, router: bool) -> (Option<Name>, String, Value) {
    let kind = rng.below(5);
    if kind == 0 {
        return (None, "default".into(), json!(null));
    }
    let cn: Vec<u8> = if router {
        format!("ROUTER-{:08X}", rng.next_u32()).into_bytes()
    } else if kind == 1 {
        // looks like the default: 40 hex digits
        crate::core::hex(&rng.bytes(20)).into_bytes()
    } else if kind == 4 {
        printable(rng, 120, 200) // long form length
    } else {
        printable(rng, 1, 40)
    };
    let cn_tag = if router && rng.chance(1, 3) { 0x0C } else { 0x13 };
    let cn_attr = attr(&[2, 5, 4, 3], cn_tag, &cn);
    let with_sn = rng.bool();
    let (rdns, class) = if with_sn {
        let sn = if router { format!("{:08X}", rng.next_u32()).into_bytes() } else { printable(rng, 1, 20) };
        let sn_attr = attr(&[2, 5, 4, 5], 0x13, &sn);
        if rng.bool() {
            // one RDN with two attributes (SET OF, DER sorted)
            (der::seq(&[&der::set_of_sorted(&[cn_attr, sn_attr])]), "cn+sn one rdn")
        } else {
            (
                der::seq(&[&der::set_of_sorted(&[cn_attr]), &der::set_of_sorted(&[sn_attr])]),
                "cn,sn two rdns",
            )
        }
    } else {
        (der::seq(&[&der::set_of_sorted(&[cn_attr])]), "cn only")
    };
    let name = Mode::Der.decode(rdns.as_slice(), Name::take_from).expect("harness-built Name is well-formed");
    let class = format!("{}{}{}", class, if cn.len() > 127 { " long" } else { "" }, if cn_tag == 0x0C { " utf8" } else { "" });
    (Some(name), class, json!(crate::core::hex(&rdns)))
}

//------------ URIs ----------------------------------------------------------

// everything `uri::is_u8_uri_ascii` allows except '/'
const URI_CHARS: &[u8] = b"!$%&'()*+,-.0123456789:;=ABCDEFGHIJKLMNOPQRSTUVWXYZ_abcdefghijklmnopqrstuvwxyz~";
const HOST_CHARS: &[u8] = b"abcdefghijklmnopqrstuvwxyzABCDEFGHIJKLMNOPQRSTUVWXYZ0123456789-";

fn segment(rng: &mut Rng, max: usize) -> Vec<u8> {
    loop {
        let n = 1 + rng.usize_below(max);
        let s: Vec<u8> = if rng.chance(1, 3) {
            (0..n).map(|_| *rng.pick(URI_CHARS)).collect()
        } else {
            (0..n).map(|_| *rng.pick(HOST_CHARS)).collect()
        };
        if s != b"." && s != b".." {
            return s;
        }
    }
}

fn host(rng: &mut Rng) -> Vec<u8> {
    let mut h = Vec::new();
    let labels = 1 + rng.usize_below(4);
    for i in 0..labels {
        if i > 0 {
            h.push(b'.');
        }
        let n = 1 + rng.usize_below(12);
        for _ in 0..n {
            h.push(*rng.pick(HOST_CHARS));
        }
    }
    if rng.chance(1, 4) {
        h.extend_from_slice(format!(":{}", rng.range(1, 65535)).as_bytes());
    }
    h
}

/// `dir`: path ends in '/'; otherwise ends in `.ext`.
pub fn rsync(rng: &mut Rng, dir: bool, ext: &str) -> uri::Rsync {
    let mut s: Vec<u8> = rng.pick(&[&b"rsync://"[..], &b"rsync://"[..], &b"RSYNC://"[..], &b"Rsync://"[..]]).to_vec();
    s.extend_from_slice(&host(rng));
    s.push(b'/');
    s.extend_from_slice(&segment(rng, 12)); // module
    s.push(b'/');
    let long = rng.chance(1, 8);
    let segs = if long { 6 + rng.usize_below(6) } else { rng.usize_below(4) };
    for _ in 0..segs {
        s.extend_from_slice(&segment(rng, if long { 40 } else { 14 }));
        s.push(b'/');
    }
    if !dir {
        s.extend_from_slice(&segment(rng, 16));
        s.push(b'.');
        s.extend_from_slice(ext.as_bytes());
    }
    uri::Rsync::from_slice(&s).expect("generated rsync URI is valid")
}

pub fn https(rng: &mut Rng) -> uri::Https {
    let mut s: Vec<u8> = rng.pick(&[&b"https://"[..], &b"https://"[..], &b"HTTPS://"[..]]).to_vec();
    s.extend_from_slice(&host(rng));
    match rng.below(4) {
        0 => {}
        1 => s.push(b'/'),
        _ => {
            let segs = 1 + rng.usize_below(4);
            for _ in 0..segs {
                s.push(b'/');
                s.extend_from_slice(&segment(rng, 20));
            }
            if rng.bool() {
                s.extend_from_slice(b"/notification.xml");
            }
        }
    }
    uri::Https::from_slice(&s).expect("generated https URI is valid")
}

//------------ Resource sets -------------------------------------------------

/// Canonical (sorted, disjoint, non-adjacent, lo <= hi) ranges over 0..=max.
/// Returns the ranges and a shape class.
pub fn canonical_ranges(rng: &mut Rng, bits: u32) -> (Vec<(u128, u128)>, String) {
    let max: u128 = if bits == 128 { u128::MAX } else { (1u128 << bits) - 1 };
    if rng.chance(1, 14) {
        return (vec![(0, max)], "all".into());
    }
    let n = match rng.below(6) {
        0 => 1,
        1 => 2,
        2 => 3,
        3 => 5,
        4 => 1 + rng.usize_below(8),
        _ => 10 + rng.usize_below(30),
    };
    let mut cands: Vec<(u128, u128)> = Vec::new();
    let point = |rng: &mut Rng| -> u128 {
        match rng.below(6) {
            0 => rng.below(4) as u128,
            1 => max - rng.below(4) as u128,
            2 => {
                let k = rng.below(bits as u64) as u32;
                let p = 1u128 << k;
                match rng.below(3) {
                    0 => p - 1,
                    1 => p,
                    _ => (p + 1).min(max),
                }
            }
            _ => rng.next_u128() & max,
        }
    };
    for _ in 0..(n * 2) {
        match rng.below(4) {
            0 => {
                // prefix-expressible
                let len = rng.below(bits as u64 + 1) as u32;
                let host = bits - len;
                let base = if host >= 128 { 0 } else { (point(rng) >> host) << host };
                let hi = if host >= 128 { max } else { base | ((1u128 << host) - 1).min(max) };
                cands.push((base & max, hi & max));
            }
            1 => {
                let p = point(rng);
                cands.push((p, p));
            }
            _ => {
                let a = point(rng);
                let b = point(rng);
                cands.push((a.min(b), a.max(b)));
            }
        }
    }
    cands.sort();
    let mut out: Vec<(u128, u128)> = Vec::new();
    for (lo, hi) in cands {
        if out.len() >= n {
            break;
        }
        match out.last() {
            // keep a gap of at least one value: disjoint and non-adjacent
            Some(&(_, phi)) if phi == max || lo <= phi.saturating_add(1) => continue,
            _ => out.push((lo, hi)),
        }
    }
    let touches0 = out.first().map(|r| r.0 == 0).unwrap_or(false);
    let touches_max = out.last().map(|r| r.1 == max).unwrap_or(false);
    let class = format!(
        "{}{}{}",
        match out.len() {
            1 => "single",
            2..=5 => "few",
            _ => "many",
        },
        if touches0 { "+0" } else { "" },
        if touches_max { "+max" } else { "" }
    );
    (out, class)
}

fn is_prefix(lo: u128, hi: u128) -> bool {
    let len = (lo ^ hi).leading_zeros();
    let mask = if len == 0 { u128::MAX } else if len >= 128 { 0 } else { u128::MAX >> len };
    lo & mask == 0 && hi & mask == mask
}

#[derive(Clone, Debug)]
pub enum ResShape {
    Missing,
    Inherit,
    Blocks(Vec<(u128, u128)>),
}

impl ResShape {
    pub fn class(&self) -> &'static str {
        match self {
            ResShape::Missing => "missing",
            ResShape::Inherit => "inherit",
            ResShape::Blocks(_) => "blocks",
        }
    }

    pub fn json(&self) -> Value {
        match self {
            ResShape::Missing => json!("missing"),
            ResShape::Inherit => json!("inherit"),
            ResShape::Blocks(b) => json!(b.iter().map(|(lo, hi)| format!("{:x}-{:x}", lo, hi)).collect::<Vec<_>>()),
        }
    }
}

/// IP blocks over *library address space* values (v4 already shifted into the
/// upper 32 bits with the low 96 bits of `hi` set).
pub fn ip_resources(rng: &mut Rng, shape: &ResShape) -> IpResources {
    match shape {
        ResShape::Missing => IpResources::missing(),
        ResShape::Inherit => IpResources::inherit(),
        ResShape::Blocks(ranges) => {
            let mut blocks: Vec<IpBlock> = Vec::new();
            for &(lo, hi) in ranges {
                let (lo_a, hi_a) = (Addr::from_bits(lo), Addr::from_bits(hi));
                let b = match rng.below(3) {
                    // the public tuple conversion (normalises to a prefix where possible)
                    0 => IpBlock::from((lo_a, hi_a)),
                    // an explicit range, even when it could be a prefix
                    1 => IpBlock::from(AddressRange::new(lo_a, hi_a)),
                    _ => {
                        if is_prefix(lo, hi) {
                            IpBlock::from(Prefix::new(lo_a, (lo ^ hi).leading_zeros() as u8))
                        } else {
                            IpBlock::from(AddressRange::new(lo_a, hi_a))
                        }
                    }
                };
                blocks.push(b);
            }
            // "in any insertion order": the builder side must not depend on it
            if rng.bool() {
                rng.shuffle(&mut blocks);
            }
            IpResources::blocks(blocks.into_iter().collect::<IpBlocks>())
        }
    }
}

pub fn v4_to_lib(ranges: &[(u128, u128)]) -> Vec<(u128, u128)> {
    ranges.iter().map(|&(lo, hi)| (lo << 96, (hi << 96) | ((1u128 << 96) - 1))).collect()
}

pub fn as_resources(rng: &mut Rng, shape: &ResShape) -> AsResources {
    match shape {
        ResShape::Missing => AsResources::missing(),
        ResShape::Inherit => AsResources::inherit(),
        ResShape::Blocks(ranges) => {
            let mut blocks: Vec<AsBlock> = ranges
                .iter()
                .map(|&(lo, hi)| {
                    let (lo, hi) = (Asn::from_u32(lo as u32), Asn::from_u32(hi as u32));
                    if lo == hi && rng.bool() {
                        AsBlock::Id(lo)
                    } else {
                        AsBlock::from((lo, hi))
                    }
                })
                .collect();
            if rng.bool() {
                rng.shuffle(&mut blocks);
            }
            AsResources::blocks(blocks.into_iter().collect::<AsBlocks>())
        }
    }
}

/// Picks a shape for one family. `allow_inherit` is false for trust anchors
/// and router certificates.
pub fn res_shape(rng: &mut Rng, bits: u32, allow_inherit: bool) -> (ResShape, String) {
    match rng.below(6) {
        0 => (ResShape::Missing, "missing".into()),
        1 if allow_inherit => (ResShape::Inherit, "inherit".into()),
        _ => {
            let (r, c) = canonical_ranges(rng, bits);
            (ResShape::Blocks(r), c)
        }
    }
}

//------------ ASNs, file names ---------------------------------------------

pub fn asn(rng: &mut Rng) -> u32 {
    match rng.below(8) {
        0 => 0,
        1 => 1,
        2 => 65535,
        3 => 65536,
        4 => u32::MAX,
        5 => u32::MAX - 1,
        6 => *rng.pick(&[127u32, 128, 255, 256, 32767, 32768, 0x7FFF_FFFF, 0x8000_0000, 0x00FF_FFFF, 0x0100_0000]),
        _ => rng.next_u32(),
    }
}

const STEM: &[u8] = b"abcdefghijklmnopqrstuvwxyzABCDEFGHIJKLMNOPQRSTUVWXYZ0123456789-_";
const EXTS: [&str; 10] = ["roa", "cer", "crl", "mft", "asa", "gbr", "sig", "tak", "ROA", "Cer"];

pub fn mft_file_name(rng: &mut Rng) -> Vec<u8> {
    let n = match rng.below(8) {
        0 => 1,
        1 => 120 + rng.usize_below(100),
        _ => 1 + rng.usize_below(40),
    };
    let mut s: Vec<u8> = (0..n).map(|_| *rng.pick(STEM)).collect();
    s.push(b'.');
    s.extend_from_slice(rng.pick(&EXTS).as_bytes());
    s
}
