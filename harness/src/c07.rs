//! C07 — RTR PDUs survive the wire unchanged; broken streams end in errors,
//! not hangs.
//!
//! Workload: model values (`c07_gen`) are built with the library's public
//! constructors, written with the library's `write`, and read back through
//! every read entry point. Then every truncation length of the written
//! stream (one, two and three PDUs) and every value of the header's type and
//! version octet plus a boundary set of length values is fed through a
//! `TruncatingReader` in three delivery patterns.
//!
//! Oracle: identity (value, octets, accessors against the model fields, the
//! length field against the octets written) for intact PDUs; for damaged
//! streams an independent model of the header decides whether the stream
//! *must* be refused (cut short, type the reader does not take, length that
//! no PDU of that type can have). Completion is decided by a poll budget and
//! by the reader's count of reads after end-of-stream, never by a clock.
//!
//! Literal cases (`vcheck C07 --case f`): a libFuzzer input of target
//! `c07_pdu`, `{"fuzz_target": "pdu", "hex": bytes}` (octet 0 selects the read
//! entry point, octet 1 the delivery pattern, the rest is the stream; judged by
//! the same `read_and_judge` as the generated faults), or
//! `{"write_corpus": dir}` which writes the seed corpus of that target.

use crate::c07_gen::{gen_pdu, length_set, random_script, Size, KINDS};
use crate::c07_io::{be32, drive, hex_capped, parse_header, Chunking, Pdu, TruncatingReader};
use crate::c07_lib::{as_ref_len, build, dispatch_kind, run_entry, size_of, write, Entry, Got, Kind, Lib};
use crate::core::{catch, hex, panic_location, Ctx, Rng, Stage, Tier};
use rpki::rtr::payload as item;
use rpki::rtr::pdu;
use serde_json::{json, Value};
use std::collections::HashSet;
use std::net::IpAddr;

#[path = "c07_conn.rs"]
mod c07_conn;
/// version negotiation histories (scripted peer, generator of endless version error reports)
#[path = "c07_nego.rs"]
mod c07_nego;
/// streams that stay open and silent after an offending header
#[path = "c07_silent.rs"]
mod c07_silent;

//------------ expectation model ---------------------------------------------

#[derive(Clone, Debug, PartialEq, Eq)]
enum Expect {
    /// The statement obliges an error; the string says why.
    Err(&'static str),
    /// A well-formed PDU of this many octets is at the front of the stream.
    Pdu(usize),
    /// `try_read` on an Error PDU: the header comes back, 8 octets consumed.
    ErrorHeader,
    /// The statement leaves acceptance open (End of Data with a version
    /// other than 0..2); if accepted it is this long.
    Open(usize),
    /// The harness does not hand this to the library.
    NotHandled,
}

/// Can a PDU read by `kind`'s reader have this header length? `None` for a
/// length no PDU of the kind can have.
fn length_fits(kind: Kind, version: u8, len: u32) -> Result<bool, ()> {
    // Ok(true): fits; Ok(false): does not fit; Err(()): open (version outside 0..2 for EndOfData)
    Ok(match kind {
        Kind::SerialNotify | Kind::SerialQuery | Kind::EodV0 => len == 12,
        Kind::ResetQuery | Kind::CacheResponse | Kind::CacheReset => len == 8,
        Kind::V4 => len == 20,
        Kind::V6 => len == 32,
        Kind::EodV1 => len == 24,
        Kind::Eod => match version {
            0 => len == 12,
            1 | 2 => len == 24,
            // The End of Data layout is defined per protocol version; the
            // property covers versions 0-2 and demands an error for a header
            // announcing a wrong version, so a version-dispatching reader must
            // refuse End of Data PDUs of any other version.
            _ => false,
        },
        Kind::RouterKey => len >= 32,
        Kind::Aspa => len >= 12 && (len - 12) % 4 == 0,
        Kind::Error => len >= 8,
    })
}

fn expect_payload(kind: Kind, avail: &[u8]) -> Expect {
    let h = match parse_header(avail) {
        Some(h) => h,
        None => return Expect::Err("stream-ends-inside-header"),
    };
    match length_fits(kind, h.version, h.length) {
        Ok(true) => {
            if (avail.len() as u64) < h.length as u64 {
                Expect::Err("stream-ends-inside-pdu")
            } else {
                Expect::Pdu(h.length as usize)
            }
        }
        Ok(false) => Expect::Err("length-impossible-for-type"),
        Err(()) => {
            if (avail.len() as u64) < h.length as u64 {
                Expect::Err("stream-ends-inside-pdu")
            } else {
                Expect::Open(h.length as usize)
            }
        }
    }
}

/// What the statement demands of `entry` when `avail` is everything the
/// stream still holds.
fn expect(entry: Entry, avail: &[u8]) -> Expect {
    let h = match parse_header(avail) {
        Some(h) => h,
        None => return Expect::Err("stream-ends-inside-header"),
    };
    match entry {
        Entry::HeaderOnly => Expect::Pdu(8),
        Entry::SqPayload => {
            if avail.len() < 12 {
                Expect::Err("stream-ends-inside-pdu")
            } else {
                Expect::Pdu(12)
            }
        }
        Entry::Typed(k) => {
            if h.pdu != k.type_code() {
                Expect::Err("type-not-taken-by-reader")
            } else {
                expect_payload(k, avail)
            }
        }
        Entry::Try(k) => {
            if h.pdu == 10 {
                Expect::ErrorHeader
            } else if h.pdu != k.type_code() {
                Expect::Err("type-not-taken-by-reader")
            } else {
                expect_payload(k, avail)
            }
        }
        Entry::PayloadRead => match h.pdu {
            4 => expect_payload(Kind::V4, avail),
            6 => expect_payload(Kind::V6, avail),
            7 => expect_payload(Kind::Eod, avail),
            9 => expect_payload(Kind::RouterKey, avail),
            11 => expect_payload(Kind::Aspa, avail),
            _ => Expect::Err("type-not-taken-by-reader"),
        },
        Entry::HeaderPayload(k) => expect_payload(k, avail),
        Entry::Dispatch => match dispatch_kind(h.pdu) {
            Some(k) => expect_payload(k, avail),
            None => Expect::NotHandled,
        },
    }
}

/// The entry the signature should name: Dispatch resolves to the reader it
/// picked, so one defect has one signature whichever way it was reached.
fn effective(entry: Entry, avail: &[u8]) -> Entry {
    if entry == Entry::Dispatch {
        if let Some(k) = parse_header(avail).and_then(|h| dispatch_kind(h.pdu)) {
            return Entry::HeaderPayload(k);
        }
    }
    entry
}

/// Upper bound for the octets an entry may take from the stream.
fn consumption_bound(entry: Entry, avail: &[u8]) -> usize {
    match entry {
        Entry::HeaderOnly => 8,
        Entry::SqPayload => 12,
        _ => match parse_header(avail) {
            Some(h) => (h.length as usize).max(8),
            None => avail.len(),
        },
    }
}

//------------ monitor state --------------------------------------------------

struct Mon {
    evals: u64,
    seen: HashSet<u64>,
    ok_reads: u64,
    err_reads: u64,
    eof_reads_max: u32,
    pendings: u64,
    polls: u64,
    wf_refused: u64,
    wf_accepted: u64,
    eod_gt2_refused: u64,
    eod_gt2_accepted: u64,
    /// sample slots still free (avoids map look-ups on the hot path)
    want_trunc_sample: bool,
    want_corrupt_sample: bool,
}

#[derive(Clone, Copy)]
enum Damage {
    Intact,
    Truncated { kept: usize, of: usize },
    Type(u8),
    Version(u8),
    Length { announced: u32, truth: u32 },
}

impl Damage {
    /// The class number alone (no formatting; this is on the hot path).
    fn code(self) -> u32 {
        match self {
            Damage::Intact => 0,
            Damage::Truncated { kept, of } => {
                if kept <= 40 {
                    100 + kept as u32
                } else if kept + 1 == of {
                    98
                } else if kept <= 1040 {
                    97
                } else {
                    96
                }
            }
            Damage::Type(t) => {
                if t <= 11 && t != 5 {
                    1000 + t as u32
                } else {
                    1999
                }
            }
            Damage::Version(v) => {
                if v <= 3 {
                    2000 + v as u32
                } else {
                    2999
                }
            }
            Damage::Length { announced, truth } => {
                if announced <= 40 {
                    3000 + announced
                } else if announced.abs_diff(truth) <= 4 {
                    (3100 + (announced as i64 - truth as i64 + 4)) as u32
                } else if announced < 0x1_0000 {
                    3200
                } else if announced < 0x0100_0000 {
                    3201
                } else if announced < 0x8000_0000 {
                    3202
                } else {
                    3203
                }
            }
        }
    }

    fn class(self) -> (u32, String) {
        match self {
            Damage::Intact => (0, "intact".into()),
            Damage::Truncated { kept, of } => {
                if kept <= 40 {
                    (100 + kept as u32, format!("truncated@{}", kept))
                } else if kept + 1 == of {
                    (98, "truncated@len-1".into())
                } else if kept <= 1040 {
                    (97, "truncated@41..1040".into())
                } else {
                    (96, "truncated@>1040".into())
                }
            }
            Damage::Type(t) => {
                if t <= 11 && t != 5 {
                    (1000 + t as u32, format!("type->{}", t))
                } else {
                    (1999, "type->unassigned".into())
                }
            }
            Damage::Version(v) => {
                if v <= 3 {
                    (2000 + v as u32, format!("version->{}", v))
                } else {
                    (2999, "version->4..255".into())
                }
            }
            Damage::Length { announced, truth } => {
                if announced <= 40 {
                    (3000 + announced, format!("length->{}", announced))
                } else if announced.abs_diff(truth) <= 4 {
                    let d = announced as i64 - truth as i64;
                    (3100 + (d + 4) as u32, format!("length->true{:+}", d))
                } else if announced < 0x1_0000 {
                    (3200, "length->41..65535".into())
                } else if announced < 0x0100_0000 {
                    (3201, "length->2^16..2^24-1".into())
                } else if announced < 0x8000_0000 {
                    (3202, "length->2^24..2^31-1".into())
                } else {
                    (3203, "length->2^31..2^32-1".into())
                }
            }
        }
    }
}

fn entry_code(e: Entry) -> u64 {
    match e {
        Entry::Typed(k) => 0x100 + k as u64,
        Entry::Try(k) => 0x200 + k as u64,
        Entry::PayloadRead => 0x300,
        Entry::HeaderPayload(k) => 0x400 + k as u64,
        Entry::SqPayload => 0x500,
        Entry::Dispatch => 0x600,
        Entry::HeaderOnly => 0x700,
    }
}

fn chunk_code(c: &Chunking) -> u64 {
    match c {
        Chunking::AllAtOnce => 1,
        Chunking::ByteWise => 2,
        Chunking::Script(_) => 3,
    }
}

impl Mon {
    fn class(&mut self, ctx: &mut Ctx, name: &str, kind_code: u8, version: u8, damage: Damage, chunking: &Chunking, entry: Entry) {
        let dcode = damage.code();
        let vclass = version.min(3);
        let key = ((kind_code as u64) << 58) ^ ((vclass as u64) << 56) ^ ((dcode as u64) << 24) ^ (chunk_code(chunking) << 20) ^ entry_code(entry);
        if self.seen.insert(key) {
            let (_, dtext) = damage.class();
            ctx.sig(&format!(
                "{} v{} {} {} via {}",
                name,
                if vclass == 3 { ">2".to_string() } else { vclass.to_string() },
                dtext,
                chunking.label(),
                entry.label()
            ));
        }
    }
}

//------------ one read, judged ----------------------------------------------

struct Case<'a> {
    /// what the stream is (for violation details)
    describe: &'a dyn Fn() -> Value,
    stream: &'a [u8],
    limit: usize,
    chunking: &'a Chunking,
    /// the stream is exactly what the library wrote (no damage before `limit`)
    pristine: bool,
}

fn budget_for(stream_len: usize) -> u64 {
    16 * (stream_len as u64 + 8) + 64
}

fn detail(case: &Case, entry: Entry, start: usize, extra: Value) -> Value {
    json!({
        "case": (case.describe)(),
        "stream_hex": hex_capped(case.stream, 4096),
        "stream_len": case.stream.len(),
        "stream_ends_after": case.limit,
        "delivery": format!("{:?}", case.chunking),
        "entry": entry.label(),
        "read_starts_at": start,
        "observed": extra,
    })
}

/// Reads one PDU with `entry` from `rd` and judges the outcome. Returns the
/// value when a PDU came back and the sequence can go on.
fn read_and_judge(ctx: &mut Ctx, mon: &mut Mon, case: &Case, rd: &mut TruncatingReader, entry: Entry, original: Option<&Lib>) -> Option<Lib> {
    let start = rd.consumed();
    let avail = &case.stream[start.min(case.limit)..case.limit];
    let exp = expect(entry, avail);
    if exp == Expect::NotHandled {
        return None;
    }
    let eff = effective(entry, avail);
    mon.evals += 1;
    let eof_before = rd.reads_after_eof;
    let budget = budget_for(case.stream.len());
    let outcome = catch(|| drive(run_entry(entry, rd), budget));
    let consumed = rd.consumed() - start;
    mon.pendings += rd.pendings;
    mon.polls += rd.polls;
    rd.pendings = 0;
    rd.polls = 0;
    if rd.reads_after_eof > mon.eof_reads_max {
        mon.eof_reads_max = rd.reads_after_eof;
    }
    let got = match outcome {
        Err(text) => {
            ctx.violation(
                &format!("C07:panic:{}:{}", eff.label(), panic_location(&text)),
                &format!("{} panicked: {}", eff.label(), text),
                detail(case, entry, start, json!({"panic": text, "consumed": consumed})),
            );
            return None;
        }
        Ok((None, polls)) => {
            ctx.violation(
                &format!("C07:no-completion-within-poll-budget:{}", eff.label()),
                &format!("{} was still pending after {} polls on a stream of {} octets", eff.label(), polls, case.limit),
                detail(case, entry, start, json!({"polls": polls, "consumed": consumed, "reads_after_eof": rd.reads_after_eof})),
            );
            return None;
        }
        Ok((Some(g), _)) => g,
    };
    // spinning on a closed stream
    if rd.tripped || rd.reads_after_eof > crate::c07_io::EOF_READS_TOLERATED {
        ctx.violation(
            &format!("C07:keeps-reading-after-eof:{}", eff.label()),
            &format!(
                "{} read the stream {} times after it had ended (it only stopped because the test reader turned the third read into an error)",
                eff.label(), rd.reads_after_eof
            ),
            detail(case, entry, start, json!({"reads_after_eof": rd.reads_after_eof, "reads_after_eof_before_this_read": eof_before, "consumed": consumed, "result": got.describe()})),
        );
        return None;
    }
    // bounded consumption
    // An accepted PDU must end where its length field says (checked below).
    // A refusal may come after the reader took the fixed part of the type it
    // expected (at most 32 octets), but never more than the announced PDU.
    let bound = if got.is_err() { consumption_bound(entry, avail).max(32) } else { consumption_bound(entry, avail) };
    if consumed > bound {
        ctx.violation(
            &format!("C07:overread:{}", eff.label()),
            &format!("{} took {} octets from the stream, the PDU it was reading is {} octets long", eff.label(), consumed, bound),
            detail(case, entry, start, json!({"consumed": consumed, "bound": bound, "result": got.describe()})),
        );
        return None;
    }
    match &got {
        Got::Err(kind, _) => {
            mon.err_reads += 1;
            if mon.err_reads % 64 == 1 {
                ctx.obs(&format!("error_kind_sampled:{:?}", kind), 1);
            }
            match exp {
                Expect::Pdu(_) | Expect::ErrorHeader if case.pristine => {
                    ctx.violation(
                        &format!("C07:rejected-own-pdu:{}", eff.label()),
                        &format!("{} refused a PDU the library itself wrote: {}", eff.label(), got.describe()),
                        detail(case, entry, start, json!({"result": got.describe(), "consumed": consumed})),
                    );
                }
                Expect::Pdu(_) | Expect::ErrorHeader => mon.wf_refused += 1,
                Expect::Open(_) => mon.eod_gt2_refused += 1,
                _ => {}
            }
            None
        }
        Got::NotHandled(_) => None,
        ok => {
            mon.ok_reads += 1;
            let expected_len = match exp {
                Expect::Err(reason) => {
                    ctx.violation(
                        &format!("C07:accepted-damaged-stream:{}:{}", eff.label(), reason),
                        &format!("{} returned {} although the stream is damaged ({})", eff.label(), ok.describe(), reason),
                        detail(case, entry, start, json!({"result": ok.describe(), "consumed": consumed, "available": avail.len()})),
                    );
                    return None;
                }
                Expect::Pdu(n) => n,
                Expect::Open(n) => {
                    mon.eod_gt2_accepted += 1;
                    n
                }
                Expect::ErrorHeader => 8,
                Expect::NotHandled => return None,
            };
            if !case.pristine {
                mon.wf_accepted += 1;
            }
            if exp == Expect::ErrorHeader {
                match ok {
                    Got::ErrorHeader(h) => {
                        let same = write(&Lib::Header(*h)).map(|b| b[..] == avail[..8]).unwrap_or(false);
                        if !same || consumed != 8 {
                            ctx.violation(
                                &format!("C07:error-header-differs:{}", eff.label()),
                                "try_read returned an Error PDU header that is not the one on the wire, or took more than the header",
                                detail(case, entry, start, json!({"result": ok.describe(), "consumed": consumed})),
                            );
                        }
                    }
                    _ => {
                        ctx.violation(
                            &format!("C07:accepted-damaged-stream:{}:type-not-taken-by-reader", eff.label()),
                            &format!("{} returned {} for an Error PDU header", eff.label(), ok.describe()),
                            detail(case, entry, start, json!({"result": ok.describe(), "consumed": consumed})),
                        );
                    }
                }
                return None;
            }
            if consumed != expected_len {
                ctx.violation(
                    &format!("C07:consumed-differs-from-length-field:{}", eff.label()),
                    &format!("{} returned Ok after taking {} octets, the header's length field says {}", eff.label(), consumed, expected_len),
                    detail(case, entry, start, json!({"result": ok.describe(), "consumed": consumed, "length_field": expected_len})),
                );
                return None;
            }
            match ok {
                Got::Pdu(lib) => {
                    let back = catch(|| write(lib));
                    let wire = &avail[..expected_len];
                    match back {
                        Ok(Some(b)) if b[..] == *wire => {}
                        Ok(other) => {
                            ctx.violation(
                                &format!("C07:read-back-octets-differ:{}", eff.label()),
                                &format!("the value {} returned does not write back to the octets it was read from", eff.label()),
                                detail(case, entry, start, json!({"result": ok.describe(), "rewritten": other.map(|b| hex_capped(&b, 512)), "wire": hex_capped(wire, 512)})),
                            );
                            return None;
                        }
                        Err(text) => {
                            ctx.violation(
                                &format!("C07:panic:write-after-{}:{}", eff.label(), panic_location(&text)),
                                &format!("writing the value returned by {} panicked: {}", eff.label(), text),
                                detail(case, entry, start, json!({"panic": text})),
                            );
                            return None;
                        }
                    }
                    if let Some(orig) = original {
                        if case.pristine && !matches!(lib, Lib::Sq(..) | Lib::Header(_)) && lib != orig {
                            ctx.violation(
                                &format!("C07:read-back-value-differs:{}", eff.label()),
                                &format!("{} returned a value that is not equal to the one written", eff.label()),
                                detail(case, entry, start, json!({"read": format!("{:?}", lib), "written": format!("{:?}", orig)})),
                            );
                            return None;
                        }
                    }
                    Some(lib.clone())
                }
                Got::Skipped => Some(Lib::Error(pdu::Error::default())),
                Got::Unsupported => {
                    ctx.obs("payload_read_returned_unsupported", 1);
                    None
                }
                _ => None,
            }
        }
    }
}

//------------ accessors against the model -----------------------------------

fn mismatch(ctx: &mut Ctx, m: &Pdu, what: &str, got: String, want: String, via: &str) {
    ctx.violation(
        &format!("C07:field-differs:{}:{}", m.name(), what),
        &format!("{} of {} {} is {}, written was {}", what, m.name(), via, got, want),
        json!({"model": m.to_json(), "wire_hex": hex_capped(&m.encode(), 512), "field": what, "observed": got, "expected": want, "via": via}),
    );
}

macro_rules! field {
    ($ctx:expr, $m:expr, $via:expr, $what:expr, $got:expr, $want:expr) => {{
        let g = $got;
        let w = $want;
        if g != w {
            mismatch($ctx, $m, $what, format!("{:?}", g), format!("{:?}", w), $via);
        }
    }};
}

/// Compares what the library's accessors say about `lib` with the model.
fn check_accessors(ctx: &mut Ctx, m: &Pdu, lib: &Lib, via: &str) {
    let bytes = write(lib).unwrap_or_default();
    match (m, lib) {
        (Pdu::SerialNotify { v, session, serial }, Lib::SerialNotify(x)) => {
            field!(ctx, m, via, "version", x.version(), *v);
            field!(ctx, m, via, "session", x.session(), *session);
            field!(ctx, m, via, "serial", be32(&bytes, 8), Some(*serial));
        }
        (Pdu::SerialQuery { v, session, serial }, Lib::SerialQuery(x)) => {
            field!(ctx, m, via, "version", x.version(), *v);
            field!(ctx, m, via, "session", x.session(), *session);
            field!(ctx, m, via, "serial", be32(&bytes, 8), Some(*serial));
        }
        (Pdu::SerialQuery { serial, session, v }, Lib::Sq(h, p)) => {
            field!(ctx, m, via, "version", h.version(), *v);
            field!(ctx, m, via, "session", h.session(), *session);
            field!(ctx, m, via, "serial", u32::from(p.serial()), *serial);
        }
        (Pdu::ResetQuery { v }, Lib::ResetQuery(x)) => {
            field!(ctx, m, via, "version", x.version(), *v);
            field!(ctx, m, via, "session", x.session(), 0u16);
        }
        (Pdu::CacheReset { v }, Lib::CacheReset(x)) => {
            field!(ctx, m, via, "version", x.version(), *v);
            field!(ctx, m, via, "session", x.session(), 0u16);
        }
        (Pdu::CacheResponse { v, session }, Lib::CacheResponse(x)) => {
            field!(ctx, m, via, "version", x.version(), *v);
            field!(ctx, m, via, "session", x.session(), *session);
        }
        (Pdu::V4 { v, flags, plen, mlen, addr, asn, .. }, Lib::Payload(p @ pdu::Payload::V4(x))) => {
            field!(ctx, m, via, "version", p.version(), *v);
            field!(ctx, m, via, "flags", p.flags(), *flags);
            field!(ctx, m, via, "prefix_len", x.prefix_len(), *plen);
            field!(ctx, m, via, "max_len", x.max_len(), *mlen);
            field!(ctx, m, via, "prefix", u32::from(x.prefix()), *addr);
            field!(ctx, m, via, "asn", x.asn().into_u32(), *asn);
        }
        (Pdu::V6 { v, flags, plen, mlen, addr, asn, .. }, Lib::Payload(p @ pdu::Payload::V6(x))) => {
            field!(ctx, m, via, "version", p.version(), *v);
            field!(ctx, m, via, "flags", p.flags(), *flags);
            field!(ctx, m, via, "prefix_len", x.prefix_len(), *plen);
            field!(ctx, m, via, "max_len", x.max_len(), *mlen);
            field!(ctx, m, via, "prefix", u128::from(x.prefix()), *addr);
            field!(ctx, m, via, "asn", x.asn().into_u32(), *asn);
        }
        (Pdu::RouterKey { v, flags, ski, asn, info, .. }, Lib::Payload(p @ pdu::Payload::RouterKey(x))) => {
            field!(ctx, m, via, "version", p.version(), *v);
            field!(ctx, m, via, "flags", p.flags(), *flags);
            field!(ctx, m, via, "key_identifier", x.key_identifier(), *ski);
            field!(ctx, m, via, "asn", x.asn().into_u32(), *asn);
            field!(ctx, m, via, "key_info", hex_capped(x.key_info().as_slice(), 64), hex_capped(info, 64));
            field!(ctx, m, via, "key_info_len", x.key_info().as_slice().len(), info.len());
            field!(ctx, m, via, "size", x.size() as usize, 32 + info.len());
        }
        (Pdu::Aspa { v, flags, customer, providers, .. }, Lib::Payload(p @ pdu::Payload::Aspa(x))) => {
            field!(ctx, m, via, "version", p.version(), *v);
            field!(ctx, m, via, "flags", p.flags(), *flags);
            field!(ctx, m, via, "customer", x.customer().into_u32(), *customer);
            let got: Vec<u32> = x.providers().iter().map(|a| a.into_u32()).collect();
            field!(ctx, m, via, "provider_count", got.len(), providers.len());
            field!(ctx, m, via, "asn_count", x.providers().asn_count() as usize, providers.len());
            if got != *providers {
                let at = got.iter().zip(providers.iter()).position(|(a, b)| a != b);
                mismatch(ctx, m, "providers", format!("differs at index {:?}", at), "equal lists".into(), via);
            }
            field!(ctx, m, via, "size", x.size() as usize, 12 + 4 * providers.len());
        }
        (Pdu::EndOfData { v, session, serial, refresh, retry, expire }, Lib::Eod(x)) => {
            field!(ctx, m, via, "version", x.version(), *v);
            field!(ctx, m, via, "session", x.session(), *session);
            field!(ctx, m, via, "serial", u32::from(x.serial()), *serial);
            field!(ctx, m, via, "state.session", x.state().session(), *session);
            field!(ctx, m, via, "state.serial", u32::from(x.state().serial()), *serial);
            let t = x.timing().map(|t| (t.refresh, t.retry, t.expire));
            if *v == 0 {
                field!(ctx, m, via, "timing", t, None::<(u32, u32, u32)>);
            } else {
                field!(ctx, m, via, "timing", t, Some((*refresh, *retry, *expire)));
            }
        }
        (Pdu::Error { .. }, Lib::Error(_)) => {}
        _ => {
            ctx.violation(
                &format!("C07:read-back-kind-differs:{}", m.name()),
                &format!("{} came back as a different kind of value {}", m.name(), via),
                json!({"model": m.to_json(), "value": format!("{:?}", lib).chars().take(300).collect::<String>(), "via": via}),
            );
        }
    }
}

/// `to_payload` of a payload PDU against the model.
fn check_to_payload(ctx: &mut Ctx, m: &Pdu, p: &pdu::Payload, original: Option<&item::Payload>, via: &str) {
    let res = match catch(|| p.to_payload()) {
        Ok(r) => r,
        Err(text) => {
            ctx.violation(
                &format!("C07:panic:to_payload:{}", panic_location(&text)),
                &format!("to_payload panicked: {}", text),
                json!({"model": m.to_json(), "wire_hex": hex_capped(&m.encode(), 512)}),
            );
            return;
        }
    };
    let flags = match m {
        Pdu::V4 { flags, .. } | Pdu::V6 { flags, .. } | Pdu::RouterKey { flags, .. } | Pdu::Aspa { flags, .. } => *flags,
        _ => return,
    };
    let want_action = if flags & 1 == 1 { item::Action::Announce } else { item::Action::Withdraw };
    let (max, plen, mlen) = match m {
        Pdu::V4 { plen, mlen, .. } => (32u8, *plen, *mlen),
        Pdu::V6 { plen, mlen, .. } => (128u8, *plen, *mlen),
        _ => (0, 0, 0),
    };
    let lengths_valid = plen <= max && mlen <= max && plen <= mlen;
    let (action, got) = match res {
        Ok(x) => x,
        Err(_) => {
            if original.is_some() {
                ctx.violation(
                    &format!("C07:to_payload-refuses-own-item:{}", m.name()),
                    "to_payload returned an error for a PDU made from a valid payload item",
                    json!({"model": m.to_json(), "via": via}),
                );
            } else if matches!(m, Pdu::V4 { .. } | Pdu::V6 { .. }) && !lengths_valid {
                ctx.obs("to_payload_refused_invalid_lengths", 1);
            } else {
                ctx.obs("to_payload_refused_raw_pdu", 1);
            }
            return;
        }
    };
    ctx.obs("to_payload_ok", 1);
    if flags <= 1 {
        field!(ctx, m, via, "action", action, want_action);
    } else {
        ctx.obs("flags_above_1_seen_by_to_payload", 1);
    }
    match (m, &got) {
        (Pdu::V4 { addr, asn, .. }, item::Payload::Origin(o)) => {
            if !lengths_valid {
                ctx.violation(
                    "C07:to_payload-accepts-impossible-prefix-lengths:Ipv4Prefix",
                    "to_payload produced a route origin from an IPv4 PDU whose prefix length / max length cannot exist",
                    json!({"model": m.to_json(), "item": format!("{:?}", o)}),
                );
                return;
            }
            let masked = if plen == 0 { 0 } else { addr & (u32::MAX << (32 - plen as u32)) };
            field!(ctx, m, via, "item.prefix_len", o.prefix.prefix_len(), plen);
            field!(ctx, m, via, "item.max_len", o.prefix.resolved_max_len(), mlen);
            field!(ctx, m, via, "item.asn", o.asn.into_u32(), *asn);
            field!(ctx, m, via, "item.addr", o.prefix.addr(), IpAddr::V4(masked.into()));
        }
        (Pdu::V6 { addr, asn, .. }, item::Payload::Origin(o)) => {
            if !lengths_valid {
                ctx.violation(
                    "C07:to_payload-accepts-impossible-prefix-lengths:Ipv6Prefix",
                    "to_payload produced a route origin from an IPv6 PDU whose prefix length / max length cannot exist",
                    json!({"model": m.to_json(), "item": format!("{:?}", o)}),
                );
                return;
            }
            let masked = if plen == 0 { 0 } else { addr & (u128::MAX << (128 - plen as u32)) };
            field!(ctx, m, via, "item.prefix_len", o.prefix.prefix_len(), plen);
            field!(ctx, m, via, "item.max_len", o.prefix.resolved_max_len(), mlen);
            field!(ctx, m, via, "item.asn", o.asn.into_u32(), *asn);
            field!(ctx, m, via, "item.addr", o.prefix.addr(), IpAddr::V6(masked.into()));
        }
        (Pdu::RouterKey { ski, asn, info, .. }, item::Payload::RouterKey(k)) => {
            field!(ctx, m, via, "item.key_identifier", hex(k.key_identifier.as_slice()), hex(ski));
            field!(ctx, m, via, "item.asn", k.asn.into_u32(), *asn);
            field!(ctx, m, via, "item.key_info", hex_capped(k.key_info.as_slice(), 64), hex_capped(info, 64));
            field!(ctx, m, via, "item.key_info_len", k.key_info.as_slice().len(), info.len());
        }
        (Pdu::Aspa { customer, providers, .. }, item::Payload::Aspa(a)) => {
            field!(ctx, m, via, "item.customer", a.customer.into_u32(), *customer);
            let got: Vec<u32> = a.providers.iter().map(|x| x.into_u32()).collect();
            // a withdrawal is keyed by the customer; the provider list may be dropped
            let ok = got == *providers || (action == item::Action::Withdraw && got.is_empty());
            if !ok {
                mismatch(ctx, m, "item.providers", format!("{} providers, first {:?}", got.len(), got.first()), format!("{} providers, first {:?}", providers.len(), providers.first()), via);
            }
        }
        _ => {
            ctx.violation(
                &format!("C07:to_payload-kind-differs:{}", m.name()),
                "to_payload produced an item of a different kind",
                json!({"model": m.to_json(), "item": format!("{:?}", got).chars().take(300).collect::<String>()}),
            );
            return;
        }
    }
    if let Some(orig) = original {
        let same = got == *orig
            || match (orig, &got) {
                (item::Payload::Aspa(o), item::Payload::Aspa(g)) => action == item::Action::Withdraw && *g == o.withdraw(),
                _ => false,
            };
        if !same {
            ctx.violation(
                &format!("C07:item-differs-after-round-trip:{}", m.name()),
                "the payload item obtained from the PDU read back is not equal to the item that was written",
                json!({"model": m.to_json(), "written": format!("{:?}", orig).chars().take(300).collect::<String>(), "read": format!("{:?}", got).chars().take(300).collect::<String>(), "via": via}),
            );
        }
    }
}

//------------ entries for a model value -------------------------------------

fn entries_for(m: &Pdu) -> Vec<Entry> {
    let k = Kind::of(m);
    let mut v = Vec::new();
    if k.has_read() {
        v.push(Entry::Typed(k));
    }
    if k.has_try_read() {
        v.push(Entry::Try(k));
    }
    if matches!(k, Kind::V4 | Kind::V6 | Kind::RouterKey | Kind::Aspa | Kind::EodV0 | Kind::EodV1) {
        v.push(Entry::PayloadRead);
    }
    v.push(Entry::HeaderPayload(k));
    if matches!(k, Kind::EodV0 | Kind::EodV1) {
        v.push(Entry::HeaderPayload(Kind::Eod));
    }
    v.push(Entry::Dispatch);
    if k == Kind::SerialQuery {
        v.push(Entry::SqPayload);
    }
    v
}

/// The entry a reader that knows what comes next would use.
fn typed_entry(m: &Pdu) -> Entry {
    let k = Kind::of(m);
    if k.has_read() {
        Entry::Typed(k)
    } else {
        Entry::HeaderPayload(k)
    }
}

fn is_payload_seq_member(m: &Pdu) -> bool {
    matches!(m, Pdu::V4 { .. } | Pdu::V6 { .. } | Pdu::RouterKey { .. } | Pdu::Aspa { .. } | Pdu::EndOfData { .. })
}

//------------ round trip -----------------------------------------------------

const TRAILER: [u8; 16] = [0x01, 0x02, 0x00, 0x00, 0x00, 0x00, 0x00, 0x08, 0xEE, 0xEE, 0xEE, 0xEE, 0xEE, 0xEE, 0xEE, 0xEE];

/// Builds, writes, checks the written octets and reads back through every
/// entry point. Returns the library value and its octets.
fn roundtrip(ctx: &mut Ctx, mon: &mut Mon, m: &Pdu) -> Option<(Lib, Vec<u8>)> {
    let built = catch(|| {
        let (lib, it) = build(m);
        let w = write(&lib);
        (lib, it, w)
    });
    let (lib, it, w) = match built {
        Ok(x) => x,
        Err(text) => {
            ctx.violation(
                &format!("C07:panic:construct-or-write:{}:{}", m.name(), panic_location(&text)),
                &format!("constructing or writing {} panicked: {}", m.name(), text),
                json!({"model": m.to_json()}),
            );
            return None;
        }
    };
    let w = match w {
        Some(w) => w,
        None => {
            ctx.violation(&format!("C07:write-failed:{}", m.name()), "write into a Vec returned an error", json!({"model": m.to_json()}));
            return None;
        }
    };
    mon.evals += 1;
    // the same value written into a sink that takes only a few octets per call
    // must put the same octets on the wire
    if w.len() <= 4096 {
        for max in [1usize, 7, 64] {
            if max >= w.len() && max != 1 {
                continue;
            }
            mon.evals += 1;
            let short = catch(|| crate::c07_lib::write_short(&lib, max));
            match short {
                Ok(Some(s)) if s == w => {}
                Ok(other) => {
                    ctx.violation(
                        &format!("C07:short-writes-change-octets:{}", m.name()),
                        &format!("{} written into a sink accepting {} octets per call: {} octets arrive instead of {}", m.name(), max, other.as_ref().map(|o| o.len() as i64).unwrap_or(-1), w.len()),
                        json!({"model": m.to_json(), "max_per_call": max, "written_hex": hex_capped(&w, 256), "short_hex": other.map(|o| hex_capped(&o, 256))}),
                    );
                    break;
                }
                Err(text) => {
                    ctx.violation(
                        &format!("C07:panic:write-short:{}:{}", m.name(), panic_location(&text)),
                        &format!("writing {} into a slow sink panicked: {}", m.name(), text),
                        json!({"model": m.to_json(), "max_per_call": max}),
                    );
                    break;
                }
            }
        }
    }
    // the length field and the octets written
    let field = be32(&w, 4);
    if field != Some(w.len() as u32) {
        ctx.violation(
            &format!("C07:length-field-differs-from-octets-written:{}", m.name()),
            &format!("{}: length field {:?}, {} octets written", m.name(), field, w.len()),
            json!({"model": m.to_json(), "written_hex": hex_capped(&w, 512), "length_field": field, "octets_written": w.len()}),
        );
    }
    if let Some(s) = size_of(&lib) {
        if s as usize != w.len() {
            ctx.violation(
                &format!("C07:size-differs-from-octets-written:{}", m.name()),
                &format!("{}: size() = {}, {} octets written", m.name(), s, w.len()),
                json!({"model": m.to_json(), "size": s, "octets_written": w.len()}),
            );
        }
    }
    if let Some(s) = as_ref_len(&lib) {
        if s != w.len() {
            ctx.violation(
                &format!("C07:as_ref-len-differs-from-octets-written:{}", m.name()),
                &format!("{}: as_ref().len() = {}, {} octets written", m.name(), s, w.len()),
                json!({"model": m.to_json(), "as_ref_len": s, "octets_written": w.len()}),
            );
        }
    }
    // the documents' layout
    let want = m.encode();
    if w != want {
        let at = w.iter().zip(want.iter()).position(|(a, b)| a != b).unwrap_or(w.len().min(want.len()));
        ctx.violation(
            &format!("C07:written-octets-differ-from-rfc-layout:{}", m.name()),
            &format!("{} is not laid out as RFC 6810/8210 prescribe (first difference at octet {})", m.name(), at),
            json!({"model": m.to_json(), "written_hex": hex_capped(&w, 512), "expected_hex": hex_capped(&want, 512), "first_difference": at}),
        );
    }
    check_accessors(ctx, m, &lib, "as constructed");
    if let Lib::Payload(p) = &lib {
        check_to_payload(ctx, m, p, it.as_ref(), "as constructed");
    }
    // read back: once with more data behind the PDU, once with the stream ending right after it
    let mut stream = w.clone();
    stream.extend_from_slice(&TRAILER);
    let describe = || json!({"kind": "round trip", "model": m.to_json()});
    let chunk = Chunking::AllAtOnce;
    for entry in entries_for(m) {
        for limit in [stream.len(), w.len()] {
            let case = Case { describe: &describe, stream: &stream, limit, chunking: &chunk, pristine: true };
            let mut rd = TruncatingReader::new(&stream, limit, chunk.clone());
            mon.class(ctx, m.name(), Kind::of(m) as u8, m.version(), Damage::Intact, &chunk, entry);
            let back = read_and_judge(ctx, mon, &case, &mut rd, entry, Some(&lib));
            if limit == w.len() && rd.reads_after_eof > 0 {
                ctx.obs("intact_pdu_read_touched_eof", 1);
            }
            match back {
                Some(b) => {
                    if limit == stream.len() && !matches!(b, Lib::Error(_)) {
                        let via = format!("read back via {}", entry.label());
                        check_accessors(ctx, m, &b, &via);
                        if let Lib::Payload(p) = &b {
                            check_to_payload(ctx, m, p, it.as_ref(), &via);
                        }
                    }
                }
                None => {
                    // a violation was recorded by read_and_judge (pristine streams must read back)
                }
            }
        }
    }
    if ctx.wants_sample("round-trip") {
        let lenf = field;
        ctx.sample("round-trip", || json!({"model": m.to_json(), "written_hex": hex_capped(&w, 96), "length_field": lenf, "octets_written": w.len(), "read_back_equal_via": entries_for(m).iter().map(|e| e.label()).collect::<Vec<_>>()}));
    }
    Some((lib, w))
}

//------------ truncation enumeration ----------------------------------------

/// Truncation lengths to try for a stream: all of them up to `all_up_to`
/// octets, otherwise a boundary-dense subset.
fn cut_points(len: usize, bounds: &[usize], all_up_to: usize, r: &mut Rng) -> Vec<usize> {
    if len <= all_up_to {
        return (0..len).collect();
    }
    let mut v: Vec<usize> = (0..64.min(len)).collect();
    for b in bounds {
        for d in 0..6usize {
            if *b >= d {
                v.push(b - d);
            }
            v.push(b + d);
            v.push(b + 8 + d);
            v.push(b + 32 + d);
        }
    }
    for edge in [1023usize, 1024, 1025, 1031, 1032, 1033, 2048, 4096, 65535, 65536] {
        v.push(edge);
    }
    for _ in 0..48 {
        v.push(r.usize_below(len));
    }
    v.retain(|x| *x < len);
    v.sort();
    v.dedup();
    v
}

/// Feeds `stream[..cut]` for every cut in `cuts` to the readers in
/// `entries` (one per PDU of the stream, used in order).
#[allow(clippy::too_many_arguments)]
fn truncations(
    ctx: &mut Ctx,
    mon: &mut Mon,
    models: &[&Pdu],
    libs: &[&Lib],
    stream: &[u8],
    bounds: &[usize],
    entries: &[Entry],
    chunking: &Chunking,
    cuts: &[usize],
) {
    let describe = || json!({"kind": "truncated stream", "pdus": models.iter().map(|m| m.to_json()).collect::<Vec<_>>(), "pdu_boundaries": bounds});
    for &cut in cuts {
        let case = Case { describe: &describe, stream, limit: cut, chunking, pristine: true };
        let mut rd = TruncatingReader::new(stream, cut, chunking.clone());
        for (i, entry) in entries.iter().enumerate() {
            if rd.consumed() != bounds[i] {
                break;
            }
            let m = models[i];
            let damage = if cut >= bounds[i + 1] { Damage::Intact } else { Damage::Truncated { kept: cut - bounds[i], of: bounds[i + 1] - bounds[i] } };
            mon.class(ctx, m.name(), Kind::of(m) as u8, m.version(), damage, chunking, *entry);
            let back = read_and_judge(ctx, mon, &case, &mut rd, *entry, Some(libs[i]));
            if back.is_none() {
                if cut < bounds[i + 1] && mon.want_trunc_sample {
                    mon.want_trunc_sample = ctx.wants_sample("truncation");
                }
                if cut < bounds[i + 1] && mon.want_trunc_sample {
                    let e = *entry;
                    let reads = rd.reads_after_eof;
                    let taken = rd.consumed();
                    ctx.sample("truncation", || json!({"pdus": models.iter().map(|m| m.name()).collect::<Vec<_>>(), "stream_len": stream.len(), "cut_at": cut, "delivery": chunking.label(), "entry": e.label(), "outcome": "Err", "reads_after_eof": reads, "octets_taken": taken}));
                }
                break;
            }
        }
    }
}

//------------ header corruption ---------------------------------------------

fn corrupt_one(ctx: &mut Ctx, mon: &mut Mon, m: &Pdu, w: &[u8], at: usize, new: &[u8], damage: Damage, entries: &[Entry], chunking: &Chunking, extra_entries: &[Entry]) {
    let mut stream = w.to_vec();
    stream[at..at + new.len()].copy_from_slice(new);
    stream.extend_from_slice(&TRAILER);
    let unchanged = stream[..w.len()] == *w;
    let describe = || {
        json!({"kind": "header field overwritten", "model": m.to_json(), "field_offset": at, "new_value_hex": hex(new), "original_hex": hex_capped(w, 256)})
    };
    let case = Case { describe: &describe, stream: &stream, limit: stream.len(), chunking, pristine: unchanged };
    let hv = stream[0];
    for entry in entries.iter().chain(extra_entries.iter()) {
        let mut rd = TruncatingReader::new(&stream, stream.len(), chunking.clone());
        mon.class(ctx, m.name(), Kind::of(m) as u8, hv, if unchanged { Damage::Intact } else { damage }, chunking, *entry);
        let errs_before = mon.err_reads;
        let _ = read_and_judge(ctx, mon, &case, &mut rd, *entry, None);
        if !unchanged && mon.want_corrupt_sample {
            mon.want_corrupt_sample = ctx.wants_sample("header-corruption");
        }
        if !unchanged && mon.want_corrupt_sample {
            let e = *entry;
            let refused = mon.err_reads > errs_before;
            let taken = rd.consumed();
            let (_, dtext) = damage.class();
            ctx.sample("header-corruption", || json!({"pdu": m.name(), "change": dtext, "header_hex": hex(&stream[..8]), "entry": e.label(), "outcome": if refused { "Err" } else { "Ok" }, "octets_taken": taken}));
        }
    }
}

/// Every type octet, every version octet, a boundary set of lengths.
fn corruptions(ctx: &mut Ctx, mon: &mut Mon, m: &Pdu, w: &[u8], cap: u32, reduced: u8, chunking: &Chunking) {
    let entries = entries_for(m);
    // readers of other types pointed at this stream are covered by the type change
    let types: Vec<u8> = match reduced {
        0 => (0..=255).collect(),
        1 => vec![0, 1, 2, 3, 4, 5, 6, 7, 8, 9, 10, 11, 12, 0x80, 0xFF],
        _ => vec![5, 10, if m.type_code() == 11 { 9 } else { 11 }, 0xFF],
    };
    for t in types {
        // when the type octet names another known type, its own readers are asked too
        let mut extra: Vec<Entry> = Vec::new();
        if let Some(k) = dispatch_kind(t) {
            if k.has_read() && k.type_code() != m.type_code() {
                extra.push(Entry::Typed(k));
            }
            if t == 7 && m.type_code() != 7 {
                extra.push(Entry::Typed(Kind::EodV0));
                extra.push(Entry::Typed(Kind::EodV1));
            }
        }
        if !entries.contains(&Entry::PayloadRead) {
            extra.push(Entry::PayloadRead);
        }
        corrupt_one(ctx, mon, m, w, 1, &[t], Damage::Type(t), &entries, chunking, &extra);
    }
    let versions: Vec<u8> = match reduced {
        0 => (0..=255).collect(),
        1 => vec![0, 1, 2, 3, 0x7F, 0xFF],
        _ => vec![(m.version() + 1) % 3, 3],
    };
    for v in versions {
        corrupt_one(ctx, mon, m, w, 0, &[v], Damage::Version(v), &entries, chunking, &[]);
    }
    let truth = w.len() as u32;
    let lens: Vec<u32> = match reduced {
        0 => length_set(truth, cap),
        1 => vec![0, 7, 8, 9, 11, 12, 13, truth.saturating_sub(1), truth + 1, truth + 4, 1033.min(cap), truth + (1 << 10), truth + (1 << 16), truth + (1 << 18)],
        _ => vec![7, truth.saturating_sub(1), truth + 4],
    };
    for l in lens {
        corrupt_one(ctx, mon, m, w, 4, &l.to_be_bytes(), Damage::Length { announced: l, truth }, &entries, chunking, &[]);
    }
}

//------------ run ------------------------------------------------------------

pub fn run(ctx: &mut Ctx) {
    let mut mon = Mon { evals: 0, seen: HashSet::new(), ok_reads: 0, err_reads: 0, eof_reads_max: 0, pendings: 0, polls: 0, wf_refused: 0, wf_accepted: 0, eod_gt2_refused: 0, eod_gt2_accepted: 0, want_trunc_sample: true, want_corrupt_sample: true };
    let miri = ctx.stage == Stage::Miri;
    // literal cases: libFuzzer artifact / seed corpus of the fuzz stage
    if let Some(case) = ctx.case.clone() {
        run_case(ctx, &mut mon, &case);
        ctx.evals(mon.evals);
        ctx.obs("reads_ok", mon.ok_reads);
        ctx.obs("reads_err", mon.err_reads);
        return;
    }
    let mut rng = ctx.rng("values");
    let mut rng_io = ctx.rng("delivery");

    if miri {
        // every PDU type, one value each, all truncations, reduced header changes
        for which in 0..KINDS {
            if !ctx.mine(which) {
                continue;
            }
            let mut r = Rng::derive(ctx.seed, &["C07", "miri-value"], &[which]);
            let m = gen_pdu(&mut r, which, Size::Tiny);
            ctx.breadcrumb(&format!("miri {:?}", m));
            let Some((lib, w)) = roundtrip(ctx, &mut mon, &m) else { continue };
            let bounds = [0, w.len()];
            let all: Vec<usize> = (0..w.len()).collect();
            let main = typed_entry(&m);
            let script = random_script(&mut r);
            if ctx.tier == Tier::Thorough {
                for entry in entries_for(&m) {
                    truncations(ctx, &mut mon, &[&m], &[&lib], &w, &bounds, &[entry], &Chunking::AllAtOnce, &all);
                }
                truncations(ctx, &mut mon, &[&m], &[&lib], &w, &bounds, &[main], &Chunking::ByteWise, &all);
                truncations(ctx, &mut mon, &[&m], &[&lib], &w, &bounds, &[Entry::Dispatch], &script, &all);
                corruptions(ctx, &mut mon, &m, &w, 2048, 1, &Chunking::AllAtOnce);
            } else {
                // all truncations once per delivery pattern, spread over the entry points
                truncations(ctx, &mut mon, &[&m], &[&lib], &w, &bounds, &[main], &Chunking::AllAtOnce, &all);
                truncations(ctx, &mut mon, &[&m], &[&lib], &w, &bounds, &[Entry::Dispatch], &Chunking::ByteWise, &all);
                let third = if entries_for(&m).contains(&Entry::PayloadRead) { Entry::PayloadRead } else { Entry::HeaderPayload(Kind::of(&m)) };
                truncations(ctx, &mut mon, &[&m], &[&lib], &w, &bounds, &[third], &script, &all);
                corruptions(ctx, &mut mon, &m, &w, 2048, 2, &Chunking::AllAtOnce);
            }
        }
    } else {
        let values = ctx.stage_budget((600 * KINDS, 600_000), 40_000, 0, 0);
        let large_every = 48;
        let corrupt_every = match (ctx.stage, ctx.tier) {
            (Stage::Native, Tier::Quick) => 4,
            (Stage::Native, Tier::Thorough) => 10,
            _ => 12,
        };
        let cap: u32 = if ctx.stage == Stage::Native { 0x0100_0004 } else { 0x1_0004 };
        let mut recent: Vec<(Pdu, Lib, Vec<u8>)> = Vec::new();
        let seq_budget = ctx.stage_budget((400, 60_000), 2_000, 0, 0);
        let mut seqs_done = 0u64;
        for i in 0..values {
            let which = i % KINDS;
            let round = i / KINDS;
            let size = if (which == 9 || which == 11) && round % large_every == large_every - 1 { Size::Large } else { Size::Normal };
            let m = gen_pdu(&mut rng, which, size);
            if i % 256 == 0 {
                ctx.breadcrumb(&format!("value {} {:?}", i, m.to_json()));
            }
            let Some((lib, w)) = roundtrip(ctx, &mut mon, &m) else { continue };
            let bounds = [0, w.len()];
            // every truncation length, three delivery patterns
            let full_fault = ctx.tier == Tier::Quick || round % 4 == 0 || ctx.stage != Stage::Native;
            if full_fault {
                let cuts_all = cut_points(w.len(), &bounds, 4096, &mut rng_io);
                for entry in entries_for(&m) {
                    truncations(ctx, &mut mon, &[&m], &[&lib], &w, &bounds, &[entry], &Chunking::AllAtOnce, &cuts_all);
                }
                let cuts_bw = cut_points(w.len(), &bounds, 160, &mut rng_io);
                let cuts_sc = cut_points(w.len(), &bounds, 600, &mut rng_io);
                let script = random_script(&mut rng_io);
                for entry in [typed_entry(&m), Entry::Dispatch] {
                    truncations(ctx, &mut mon, &[&m], &[&lib], &w, &bounds, &[entry], &Chunking::ByteWise, &cuts_bw);
                    truncations(ctx, &mut mon, &[&m], &[&lib], &w, &bounds, &[entry], &script, &cuts_sc);
                }
                if entries_for(&m).contains(&Entry::PayloadRead) {
                    truncations(ctx, &mut mon, &[&m], &[&lib], &w, &bounds, &[Entry::PayloadRead], &Chunking::ByteWise, &cuts_bw);
                    truncations(ctx, &mut mon, &[&m], &[&lib], &w, &bounds, &[Entry::PayloadRead], &script, &cuts_sc);
                }
            }
            if round % corrupt_every == 0 {
                let chunking = match round / corrupt_every % 3 {
                    0 => Chunking::AllAtOnce,
                    1 => random_script(&mut rng_io),
                    _ => Chunking::AllAtOnce,
                };
                corruptions(ctx, &mut mon, &m, &w, cap, 0, &chunking);
            }
            // two- and three-PDU streams out of the most recent small values
            if w.len() <= 300 {
                recent.push((m, lib, w));
                if recent.len() > 3 {
                    recent.remove(0);
                }
            }
            if seqs_done < seq_budget && recent.len() >= 2 && (ctx.tier == Tier::Thorough || i % 8 == 7) {
                let n = if recent.len() >= 3 && rng_io.bool() { 3 } else { 2 };
                let mut order: Vec<usize> = (recent.len() - n..recent.len()).collect();
                rng_io.shuffle(&mut order);
                let models: Vec<&Pdu> = order.iter().map(|j| &recent[*j].0).collect();
                let libs: Vec<&Lib> = order.iter().map(|j| &recent[*j].1).collect();
                let mut stream = Vec::new();
                let mut bnds = vec![0usize];
                for j in &order {
                    stream.extend_from_slice(&recent[*j].2);
                    bnds.push(stream.len());
                }
                let cuts: Vec<usize> = (0..stream.len()).collect();
                let typed: Vec<Entry> = models.iter().map(|m| typed_entry(m)).collect();
                let disp: Vec<Entry> = models.iter().map(|_| Entry::Dispatch).collect();
                let script = random_script(&mut rng_io);
                for chunking in [Chunking::AllAtOnce, Chunking::ByteWise, script] {
                    if chunking == Chunking::ByteWise && stream.len() > 200 {
                        continue;
                    }
                    truncations(ctx, &mut mon, &models, &libs, &stream, &bnds, &typed, &chunking, &cuts);
                    truncations(ctx, &mut mon, &models, &libs, &stream, &bnds, &disp, &chunking, &cuts);
                    if models.iter().all(|m| is_payload_seq_member(m)) {
                        let pr: Vec<Entry> = models.iter().map(|_| Entry::PayloadRead).collect();
                        truncations(ctx, &mut mon, &models, &libs, &stream, &bnds, &pr, &chunking, &cuts);
                    }
                }
                seqs_done += 1;
                ctx.obs(&format!("sequences_of_{}_pdus", n), 1);
            }
        }
        // announced lengths up to 2^32-1: native only, one shard, a handful of reads
        if ctx.stage == Stage::Native && ctx.shard == 0 {
            huge_lengths(ctx, &mut mon);
        }
    }

    // the readers one level up: Client::step and the server's connection task
    c07_conn::run_conn(ctx);
    // version negotiation histories against a scripted peer
    c07_nego::run_nego_workload(ctx);
    // streams that stay open and silent (PDU readers by hand, the client under a paused clock)
    c07_silent::run_silent(ctx);

    ctx.evals(mon.evals);
    ctx.obs("reads_ok", mon.ok_reads);
    ctx.obs("wellformed_after_header_change_accepted", mon.wf_accepted);
    ctx.obs("wellformed_after_header_change_but_refused", mon.wf_refused);
    ctx.obs("eod_version_gt2_accepted", mon.eod_gt2_accepted);
    ctx.obs("eod_version_gt2_refused", mon.eod_gt2_refused);
    ctx.obs("reads_err", mon.err_reads);
    ctx.obs("reader_polls", mon.polls);
    ctx.obs("reader_pending_returned", mon.pendings);
    ctx.obs_max("reads_after_eof_in_one_stream", mon.eof_reads_max as u64);
    if mon.err_reads == 0 {
        ctx.notes.push("C07: no damaged stream was refused in this shard (nothing observed on the fault side)".into());
    }
}

/// Headers announcing 2^31 .. 2^32-1 octets on a short stream. The library
/// allocates the announced length for router keys and ASPA, so this runs
/// once per check in the native stage only.
fn huge_lengths(ctx: &mut Ctx, mon: &mut Mon) {
    let mut r = Rng::derive(ctx.seed, &["C07", "huge"], &[]);
    let chunk = Chunking::AllAtOnce;
    for which in [0u64, 2, 4, 5, 7, 9, 10, 11] {
        let m = gen_pdu(&mut r, which, Size::Tiny);
        let w = m.encode();
        for l in [0x7FFF_FFFFu32, 0x8000_0000, 0xFFFF_FFFC, 0xFFFF_FFFF] {
            ctx.breadcrumb(&format!("huge length {} on {}", l, m.name()));
            let entries: Vec<Entry> = entries_for(&m).into_iter().filter(|e| !matches!(e, Entry::Try(_))).collect();
            corrupt_one(ctx, mon, &m, &w, 4, &l.to_be_bytes(), Damage::Length { announced: l, truth: w.len() as u32 }, &entries, &chunk, &[]);
        }
    }
    ctx.obs("huge_length_headers", 32);
}

//------------ libFuzzer target c07_pdu / literal cases -----------------------

/// Announced lengths above this are not handed to the library by the fuzz
/// target (the library allocates the announced size for router keys and ASPA;
/// the native stage tries the huge announcements once per check instead).
pub const FUZZ_LENGTH_CAP: u32 = 1 << 20;

/// PDUs read from one fuzz input at most (the same entry point is used again
/// while it returns PDUs, like a client reading a payload sequence).
const FUZZ_MAX_PDUS: usize = 48;

/// Every read entry point the monitor drives, in a fixed order: the first
/// octet of a fuzz input indexes this table (modulo its length).
pub fn fuzz_entries() -> Vec<Entry> {
    const ALL: [Kind; 13] = [
        Kind::SerialNotify, Kind::SerialQuery, Kind::ResetQuery, Kind::CacheResponse, Kind::V4, Kind::V6, Kind::EodV0,
        Kind::EodV1, Kind::Eod, Kind::CacheReset, Kind::RouterKey, Kind::Error, Kind::Aspa,
    ];
    let mut v = vec![Entry::PayloadRead, Entry::Dispatch, Entry::HeaderOnly, Entry::SqPayload];
    v.extend(ALL.iter().map(|k| Entry::HeaderPayload(*k)));
    v.extend(ALL.iter().filter(|k| k.has_read()).map(|k| Entry::Typed(*k)));
    v.extend(ALL.iter().filter(|k| k.has_try_read()).map(|k| Entry::Try(*k)));
    v
}

/// Delivery pattern selected by the second octet of a fuzz input.
fn fuzz_chunking(sel: u8) -> Chunking {
    match sel % 4 {
        0 | 1 => Chunking::AllAtOnce,
        2 => Chunking::ByteWise,
        // a script is a pure function of the octet (at most 9 polls per octet delivered)
        _ => random_script(&mut Rng::new(0xC07 + (sel >> 2) as u64)),
    }
}

/// Splits a fuzz input into (entry, delivery, stream).
fn fuzz_split(data: &[u8]) -> Option<(Entry, Chunking, &[u8])> {
    if data.len() < 2 {
        return None;
    }
    let entries = fuzz_entries();
    Some((entries[data[0] as usize % entries.len()], fuzz_chunking(data[1]), &data[2..]))
}

/// Judges one fuzz input: the stream is everything after the two selector
/// octets and ends there; the selected entry point reads PDU after PDU until
/// it refuses, the stream is used up, or a header announces more than
/// `FUZZ_LENGTH_CAP` octets. Every read goes through `read_and_judge`, i.e. the
/// damage oracle of the native stage (no panic, completion within the poll
/// budget, at most two reads after the end of the stream, bounded consumption,
/// never `Ok` for a stream that ends inside the PDU / a type the reader does
/// not take / a length no PDU of the type can have; an accepted PDU ends where
/// its length field says and writes back to the octets read).
fn judge_fuzz_input(ctx: &mut Ctx, mon: &mut Mon, data: &[u8]) {
    let Some((entry, chunking, stream)) = fuzz_split(data) else { return };
    let describe = || json!({"kind": "libFuzzer input (c07_pdu)", "input_len": stream.len() + 2});
    let case = Case { describe: &describe, stream, limit: stream.len(), chunking: &chunking, pristine: false };
    let mut rd = TruncatingReader::new(stream, stream.len(), chunking.clone());
    for _ in 0..FUZZ_MAX_PDUS {
        let at = rd.consumed();
        if let Some(h) = parse_header(&stream[at.min(stream.len())..]) {
            if h.length > FUZZ_LENGTH_CAP {
                break;
            }
        }
        let back = read_and_judge(ctx, mon, &case, &mut rd, entry, None);
        if back.is_none() || rd.consumed() == at || rd.consumed() >= stream.len() {
            break;
        }
    }
}

fn fresh_mon() -> Mon {
    Mon { evals: 0, seen: HashSet::new(), ok_reads: 0, err_reads: 0, eof_reads_max: 0, pendings: 0, polls: 0, wf_refused: 0, wf_accepted: 0, eod_gt2_refused: 0, eod_gt2_accepted: 0, want_trunc_sample: false, want_corrupt_sample: false }
}

/// One libFuzzer execution of target `c07_pdu`. A library panic propagates
/// (libFuzzer aborts on it); any other finding of the oracle panics with a
/// message that starts with the violation signature, so the crash artifact
/// replays natively through `vcheck C07 --case` under the same name.
pub fn fuzz_one(group: &str, data: &[u8]) {
    let _ = group; // one group: "pdu"
    let mut ctx = Ctx::new("C07", Tier::Thorough, Stage::Native, 0, 0, 1);
    let mut mon = fresh_mon();
    judge_fuzz_input(&mut ctx, &mut mon, data);
    if ctx.violation_count() > 0 {
        let out = ctx.finish();
        let v = &out["violations"][0];
        panic!("{} -- {}", v["sig"].as_str().unwrap_or("C07:fuzz:unnamed"), v["desc"].as_str().unwrap_or(""));
    }
}

/// Seed corpus of target `c07_pdu`: PDUs of every type from the module's
/// generator, as laid out by the independent encoder, under every entry point
/// that takes them and under the three delivery patterns; two- and three-PDU
/// streams for the sequence readers; a few truncated and length-damaged ones.
fn write_corpus(ctx: &mut Ctx, dir: &str) {
    let gdir = std::path::PathBuf::from(dir).join("c07_pdu");
    let _ = std::fs::create_dir_all(&gdir);
    let entries = fuzz_entries();
    let index_of = |e: Entry| entries.iter().position(|x| *x == e).unwrap_or(0) as u8;
    let mut rng = ctx.rng("corpus");
    let mut written = 0u64;
    let mut put = |sel: u8, delivery: u8, stream: &[u8]| {
        if stream.len() + 2 > 4096 {
            return;
        }
        let mut bytes = vec![sel, delivery];
        bytes.extend_from_slice(stream);
        if std::fs::write(gdir.join(format!("{:016x}", crate::core::fnv64(&bytes))), &bytes).is_ok() {
            written += 1;
        }
    };
    let mut recent: Vec<Vec<u8>> = Vec::new();
    for i in 0..(8 * KINDS) {
        let m = gen_pdu(&mut rng, i % KINDS, Size::Normal);
        let w = m.encode();
        if w.len() > 1500 {
            continue;
        }
        for (j, entry) in entries_for(&m).into_iter().enumerate() {
            // delivery octet: 0 all at once, 2 byte-wise, 3+4k scripts
            let delivery = match (i as usize + j) % 4 {
                0 | 1 => 0u8,
                2 => 2,
                _ => 3 + 4 * (rng.below(64) as u8),
            };
            put(index_of(entry), delivery, &w);
        }
        match i % 4 {
            0 if w.len() > 9 => {
                let cut = rng.range(1, w.len() as u64 - 1) as usize;
                put(index_of(typed_entry(&m)), 0, &w[..cut]);
            }
            1 => {
                let mut d = w.clone();
                let l = *rng.pick(&length_set(w.len() as u32, 0x1_0004));
                d[4..8].copy_from_slice(&l.to_be_bytes());
                put(index_of(Entry::Dispatch), 0, &d);
            }
            _ => {}
        }
        if is_payload_seq_member(&m) && w.len() <= 300 {
            recent.push(w);
        }
        if recent.len() >= 3 {
            let stream: Vec<u8> = recent.concat();
            put(index_of(Entry::PayloadRead), 0, &stream);
            put(index_of(Entry::Dispatch), 3 + 4 * (rng.below(64) as u8), &stream);
            put(index_of(Entry::HeaderOnly), 0, &stream);
            recent.clear();
        }
    }
    ctx.obs("fuzz_corpus_files_written", written);
    ctx.evals(written);
    ctx.sig("corpus-written");
    ctx.sig("corpus");
}

fn run_case(ctx: &mut Ctx, mon: &mut Mon, case: &Value) {
    if let Some(dir) = case["write_corpus"].as_str() {
        write_corpus(ctx, dir);
        return;
    }
    if case["fuzz_target"].as_str().is_some() {
        let raw = crate::core::unhex(case["hex"].as_str().unwrap_or(""));
        judge_fuzz_input(ctx, mon, &raw);
        ctx.sig("replay");
        if let Some((entry, chunking, _)) = fuzz_split(&raw) {
            ctx.sig(&format!("replay|{}|{}", entry.label(), chunking.label()));
        }
        return;
    }
    ctx.notes.push("C07: case file of unknown shape".into());
}
