//! C09 helpers: model values of the three RRDP file kinds, value generators
//! and an XML writer that is independent of the library's (used for foreign
//! but valid documents, for prefixes of hostile streams and as mutation
//! seeds). Nothing here calls into rpki-rs.

use crate::core::Rng;

pub type H32 = [u8; 32];

pub const NS: &str = "http://www.ripe.net/rpki/rrdp";

/// Every octet `uri::check_uri_ascii` permits (RFC 3986 characters minus the
/// ones the crate documents as forbidden).
pub const URI_CHARS: &[u8] =
    b"!$%&'()*+,-./0123456789:;=ABCDEFGHIJKLMNOPQRSTUVWXYZ_abcdefghijklmnopqrstuvwxyz~";

#[derive(Clone, Copy, Debug, PartialEq, Eq)]
pub enum Kind {
    Notification,
    Snapshot,
    Delta,
}

impl Kind {
    pub fn name(self) -> &'static str {
        match self {
            Kind::Notification => "notification",
            Kind::Snapshot => "snapshot",
            Kind::Delta => "delta",
        }
    }
    pub const ALL: [Kind; 3] = [Kind::Notification, Kind::Snapshot, Kind::Delta];
}

//------------ Models --------------------------------------------------------

#[derive(Clone, Debug, PartialEq, Eq)]
pub struct MNotif {
    pub session: [u8; 16],
    pub serial: u64,
    pub snapshot: (String, H32),
    pub deltas: Vec<(u64, String, H32)>,
}

#[derive(Clone, Debug, PartialEq, Eq)]
pub struct MSnap {
    pub session: [u8; 16],
    pub serial: u64,
    pub elements: Vec<(String, Vec<u8>)>,
}

#[derive(Clone, Debug, PartialEq, Eq)]
pub enum MEl {
    Publish(String, Vec<u8>),
    Update(String, H32, Vec<u8>),
    Withdraw(String, H32),
}

impl MEl {
    pub fn kind_char(&self) -> char {
        match self {
            MEl::Publish(..) => 'P',
            MEl::Update(..) => 'U',
            MEl::Withdraw(..) => 'W',
        }
    }
    pub fn uri(&self) -> &str {
        match self {
            MEl::Publish(u, _) | MEl::Update(u, _, _) | MEl::Withdraw(u, _) => u,
        }
    }
}

#[derive(Clone, Debug, PartialEq, Eq)]
pub struct MDelta {
    pub session: [u8; 16],
    pub serial: u64,
    pub elements: Vec<MEl>,
}

//------------ Field generators ----------------------------------------------

pub fn gen_session(rng: &mut Rng) -> [u8; 16] {
    match rng.below(8) {
        0 => [0u8; 16],
        1 => [0xff; 16],
        2 => {
            // a well-formed version 4 UUID
            let mut b = [0u8; 16];
            b.copy_from_slice(&rng.bytes(16));
            b[6] = (b[6] & 0x0f) | 0x40;
            b[8] = (b[8] & 0x3f) | 0x80;
            b
        }
        _ => {
            let mut b = [0u8; 16];
            b.copy_from_slice(&rng.bytes(16));
            b
        }
    }
}

pub fn gen_serial(rng: &mut Rng) -> u64 {
    match rng.below(12) {
        0 => 0,
        1 => 1,
        2 => u64::MAX,
        3 => u64::MAX - 1,
        4 => 1 << 32,
        5 => (1 << 32) - 1,
        6 => 1 << 63,
        7 => (1 << 63) - 1,
        8 => rng.below(100_000),
        9 => 10u64.pow(rng.below(20) as u32),
        _ => rng.next_u64(),
    }
}

pub fn gen_hash(rng: &mut Rng) -> H32 {
    let mut h = [0u8; 32];
    match rng.below(8) {
        0 => {}
        1 => h = [0xff; 32],
        2 => {
            for (i, b) in h.iter_mut().enumerate() {
                *b = (i as u8) * 8 + 7; // hex digits of every value incl. a-f
            }
        }
        _ => h.copy_from_slice(&rng.bytes(32)),
    }
    h
}

fn seg_chars() -> Vec<u8> {
    URI_CHARS.iter().copied().filter(|c| *c != b'/').collect()
}

fn gen_segment(rng: &mut Rng, len: usize) -> String {
    let chars = seg_chars();
    // bias towards the XML-special ones
    const SPECIAL: &[u8] = b"&';=&'";
    let mut s = String::with_capacity(len);
    for _ in 0..len.max(1) {
        let c = if rng.chance(1, 5) { *rng.pick(SPECIAL) } else { *rng.pick(&chars) };
        s.push(c as char);
    }
    if s == "." || s == ".." {
        s.push('x');
    }
    s
}

fn gen_scheme(rng: &mut Rng, lower: &str) -> String {
    match rng.below(10) {
        0 => lower.to_ascii_uppercase(),
        1 => lower
            .chars()
            .enumerate()
            .map(|(i, c)| if i % 2 == 0 { c.to_ascii_uppercase() } else { c })
            .collect(),
        _ => lower.to_string(),
    }
}

pub fn gen_authority(rng: &mut Rng) -> String {
    match rng.below(6) {
        0 => "rrdp.example.net".to_string(),
        1 => "RRDP.Example.NET:8443".to_string(),
        2 => "h".to_string(),
        _ => {
            let n = rng.range(1, 24) as usize;
            gen_segment(rng, n)
        }
    }
}

/// An rsync URI the crate's constructor accepts: non-empty authority and
/// module, a path (possibly empty), no empty / dot segments.
pub fn gen_rsync(rng: &mut Rng, long_ok: bool) -> String {
    let mut s = gen_scheme(rng, "rsync://");
    s.push_str(&gen_authority(rng));
    s.push('/');
    let n = rng.range(1, 12) as usize;
    s.push_str(&gen_segment(rng, n));
    s.push('/');
    match rng.below(10) {
        0 => {} // empty path
        1 => {
            // every permitted character
            s.push_str(std::str::from_utf8(&seg_chars()).unwrap());
            s.push_str("/x.cer");
        }
        2 if long_ok => {
            let n = rng.range(500, 4000) as usize;
            s.push_str(&gen_segment(rng, n));
        }
        _ => {
            let segs = rng.range(1, 4);
            for i in 0..segs {
                if i > 0 {
                    s.push('/');
                }
                let n = rng.range(1, 16) as usize;
                s.push_str(&gen_segment(rng, n));
            }
            if rng.chance(1, 6) {
                s.push('/');
            }
        }
    }
    s
}

/// An https URI. `authority` fixes the authority text (for origin checks).
pub fn gen_https(rng: &mut Rng, authority: Option<&str>, long_ok: bool) -> String {
    let mut s = gen_scheme(rng, "https://");
    match authority {
        Some(a) => s.push_str(a),
        None => s.push_str(&gen_authority(rng)),
    }
    match rng.below(10) {
        0 => {} // no path at all
        1 => s.push('/'),
        2 => {
            s.push('/');
            s.push_str(std::str::from_utf8(URI_CHARS).unwrap());
        }
        3 if long_ok => {
            s.push('/');
            let n = rng.range(1000, 4000) as usize;
            for _ in 0..n {
                s.push(*rng.pick(URI_CHARS) as char);
            }
        }
        _ => {
            s.push('/');
            let n = rng.range(1, 60) as usize;
            for _ in 0..n {
                let c = if rng.chance(1, 6) { *rng.pick(b"&';=/") } else { *rng.pick(URI_CHARS) };
                s.push(c as char);
            }
        }
    }
    s
}

pub fn uri_class(s: &str) -> String {
    let mut c = String::new();
    if s.contains('&') {
        c.push('&');
    }
    if s.contains('\'') {
        c.push('\'');
    }
    if s.contains('=') {
        c.push('=');
    }
    if s.contains(';') {
        c.push(';');
    }
    if s.len() > 400 {
        c.push('L');
    }
    if s.as_bytes()[0].is_ascii_uppercase() {
        c.push('S');
    }
    c
}

/// Object content. `cap` bounds the length (64 KiB in the full workload).
pub fn gen_data(rng: &mut Rng, cap: usize) -> Vec<u8> {
    let len = match rng.below(16) {
        0 => 0,
        1 => 1,
        2 => 2,
        3 => 3,
        4 => 4,
        5 => 256, // all byte values, see below
        6 => *rng.pick(&[766usize, 767, 768, 769, 1022, 1023, 1024, 1025, 3071, 3072, 3073, 4095, 4096, 4097]),
        7 => cap,
        8 => cap.saturating_sub(rng.range(1, 3) as usize),
        9 | 10 => rng.range(0, cap as u64) as usize,
        _ => rng.range(0, 600) as usize,
    }
    .min(cap);
    if len == 256 {
        let mut v: Vec<u8> = (0..=255u8).collect();
        if rng.bool() {
            v.reverse();
        }
        return v;
    }
    match rng.below(6) {
        0 => vec![0u8; len],
        1 => vec![0xff; len],
        2 => (0..len).map(|i| (i % 251) as u8).collect(),
        _ => rng.bytes(len),
    }
}

pub fn data_class(d: &[u8]) -> &'static str {
    match d.len() {
        0 => "0",
        1 => "1",
        2 => "2",
        3 => "3",
        4..=255 => "<256",
        256..=4095 => "<4K",
        4096..=65535 => "<64K",
        _ => "64K",
    }
}

pub fn count_class(n: usize) -> &'static str {
    match n {
        0 => "0",
        1 => "1",
        2..=3 => "2-3",
        4..=20 => "4-20",
        21..=299 => "21-299",
        _ => "300",
    }
}

/// Number of elements: 0..=300 with the boundaries frequent.
pub fn gen_count(rng: &mut Rng, max: usize) -> usize {
    let n = match rng.below(10) {
        0 => 0,
        1 => 1,
        2 => 2,
        3 => 3,
        4 => 300,
        5 => rng.range(21, 299) as usize,
        _ => rng.range(0, 20) as usize,
    };
    n.min(max)
}

pub struct SizePlan {
    pub max_elements: usize,
    pub data_cap: usize,
    pub long_uris: bool,
}

pub fn gen_notif(rng: &mut Rng, plan: &SizePlan) -> MNotif {
    let n = gen_count(rng, plan.max_elements);
    let auth = gen_authority(rng);
    let same_origin = rng.bool();
    let mut deltas = Vec::with_capacity(n);
    let base_serial = gen_serial(rng);
    for i in 0..n {
        let serial = match rng.below(4) {
            0 => gen_serial(rng),
            _ => base_serial.wrapping_sub(i as u64),
        };
        let a = if same_origin { Some(auth.as_str()) } else { None };
        deltas.push((serial, gen_https(rng, a, plan.long_uris), gen_hash(rng)));
    }
    MNotif {
        session: gen_session(rng),
        serial: base_serial,
        snapshot: (gen_https(rng, Some(&auth), plan.long_uris), gen_hash(rng)),
        deltas,
    }
}

pub fn gen_snap(rng: &mut Rng, plan: &SizePlan) -> MSnap {
    let n = gen_count(rng, plan.max_elements);
    let mut elements = Vec::with_capacity(n);
    for _ in 0..n {
        elements.push((gen_rsync(rng, plan.long_uris), gen_data(rng, plan.data_cap)));
    }
    MSnap { session: gen_session(rng), serial: gen_serial(rng), elements }
}

pub fn gen_delta(rng: &mut Rng, plan: &SizePlan) -> MDelta {
    let n = gen_count(rng, plan.max_elements);
    let mut elements = Vec::with_capacity(n);
    // order policy: random interleaving, or grouped runs
    let policy = rng.below(4);
    for i in 0..n {
        let k = match policy {
            0 => (i * 3 / n.max(1)) as u64,       // P…U…W…
            1 => 2 - (i * 3 / n.max(1)) as u64,   // W…U…P…
            _ => rng.below(3),
        };
        let uri = gen_rsync(rng, plan.long_uris);
        elements.push(match k {
            0 => MEl::Publish(uri, gen_data(rng, plan.data_cap)),
            1 => MEl::Update(uri, gen_hash(rng), gen_data(rng, plan.data_cap)),
            _ => MEl::Withdraw(uri, gen_hash(rng)),
        });
    }
    MDelta { session: gen_session(rng), serial: gen_serial(rng), elements }
}

//------------ Independent encoders ------------------------------------------

pub fn b64(data: &[u8]) -> String {
    const T: &[u8; 64] = b"ABCDEFGHIJKLMNOPQRSTUVWXYZabcdefghijklmnopqrstuvwxyz0123456789+/";
    let mut s = String::with_capacity(data.len().div_ceil(3) * 4);
    for c in data.chunks(3) {
        let n = (c[0] as u32) << 16 | (*c.get(1).unwrap_or(&0) as u32) << 8 | *c.get(2).unwrap_or(&0) as u32;
        s.push(T[(n >> 18) as usize & 63] as char);
        s.push(T[(n >> 12) as usize & 63] as char);
        s.push(if c.len() > 1 { T[(n >> 6) as usize & 63] as char } else { '=' });
        s.push(if c.len() > 2 { T[n as usize & 63] as char } else { '=' });
    }
    s
}

pub fn hex32(h: &H32) -> String {
    crate::core::hex(h)
}

pub fn uuid_text(b: &[u8; 16]) -> String {
    let h = crate::core::hex(b);
    format!("{}-{}-{}-{}-{}", &h[0..8], &h[8..12], &h[12..16], &h[16..20], &h[20..32])
}

#[derive(Clone, Debug)]
pub struct Style {
    pub decl: u8,
    pub prefix_ns: bool,
    pub quote: u8,
    pub attr_ws: u8,
    pub shuffle_attrs: bool,
    pub empty_style: u8,
    pub comments: bool,
    pub b64_wrap: u8,
    pub amp_style: u8,
    pub child_sep: u8,
    pub trailing: u8,
    pub upper_hex: bool,
}

impl Style {
    /// The plain style: what a typical publication server writes.
    pub fn plain() -> Self {
        Style {
            decl: 0,
            prefix_ns: false,
            quote: 0,
            attr_ws: 0,
            shuffle_attrs: false,
            empty_style: 0,
            comments: false,
            b64_wrap: 0,
            amp_style: 0,
            child_sep: 1,
            trailing: 0,
            upper_hex: false,
        }
    }

    pub fn random(rng: &mut Rng) -> Self {
        Style {
            decl: rng.below(4) as u8,
            prefix_ns: rng.chance(1, 4),
            quote: rng.below(3) as u8,
            attr_ws: rng.below(3) as u8,
            shuffle_attrs: rng.bool(),
            empty_style: rng.below(3) as u8,
            comments: rng.chance(1, 3),
            b64_wrap: rng.below(4) as u8,
            amp_style: rng.below(3) as u8,
            child_sep: rng.below(3) as u8,
            trailing: rng.below(3) as u8,
            upper_hex: rng.chance(1, 4),
        }
    }

    pub fn describe(&self) -> String {
        format!(
            "decl{} ns{} q{} ws{} sh{} e{} c{} b{} a{} s{} t{} H{}",
            self.decl,
            self.prefix_ns as u8,
            self.quote,
            self.attr_ws,
            self.shuffle_attrs as u8,
            self.empty_style,
            self.comments as u8,
            self.b64_wrap,
            self.amp_style,
            self.child_sep,
            self.trailing,
            self.upper_hex as u8
        )
    }
}

#[derive(Clone, Debug, Default)]
pub struct ChildMark {
    /// Offset of `<` of the child's start tag.
    pub start: usize,
    /// For children with a separate start tag: offset just after its `>`.
    pub after_start_tag: Option<usize>,
    /// Offset just after the child's last byte.
    pub end: usize,
    pub name: &'static str,
}

#[derive(Clone, Debug, Default)]
pub struct Marks {
    pub root_start: usize,
    pub after_root_tag: usize,
    pub children: Vec<ChildMark>,
    pub end: usize,
}

pub struct Doc {
    pub bytes: Vec<u8>,
    pub marks: Marks,
}

struct W<'a> {
    out: Vec<u8>,
    st: &'a Style,
    rng: &'a mut Rng,
    marks: Marks,
}

impl W<'_> {
    fn name(&self, local: &str) -> String {
        if self.st.prefix_ns {
            format!("r:{}", local)
        } else {
            local.to_string()
        }
    }

    fn esc(&mut self, v: &str, quote: u8) -> String {
        let mut s = String::with_capacity(v.len() + 8);
        for c in v.chars() {
            match c {
                '&' => s.push_str(match self.st.amp_style {
                    0 => "&amp;",
                    1 => "&#38;",
                    _ => "&#x26;",
                }),
                '<' => s.push_str("&lt;"),
                '"' if quote == b'"' => s.push_str("&quot;"),
                '\'' if quote == b'\'' => s.push_str(if self.rng.bool() { "&apos;" } else { "&#39;" }),
                c => s.push(c),
            }
        }
        s
    }

    fn prolog(&mut self) {
        match self.st.decl {
            1 => self.out.extend_from_slice(b"<?xml version=\"1.0\" encoding=\"UTF-8\"?>\n"),
            2 => self
                .out
                .extend_from_slice(b"<?xml version='1.0' encoding='us-ascii' standalone='yes'?>\n<!-- generated -->\n"),
            3 => self.out.extend_from_slice(b"<!DOCTYPE rrdp>\n\n"),
            _ => {}
        }
    }

    /// Writes `<name attrs` and the closing. Returns (start, after `>` of the
    /// start tag if it is not an empty-element tag).
    fn open(&mut self, local: &'static str, mut attrs: Vec<(String, String)>, empty: bool) -> (usize, Option<usize>) {
        let start = self.out.len();
        let name = self.name(local);
        self.out.push(b'<');
        self.out.extend_from_slice(name.as_bytes());
        if self.st.shuffle_attrs {
            self.rng.shuffle(&mut attrs);
        }
        for (k, v) in attrs {
            let q = match self.st.quote {
                0 => b'"',
                1 => b'\'',
                _ => {
                    if self.rng.bool() {
                        b'"'
                    } else {
                        b'\''
                    }
                }
            };
            match self.st.attr_ws {
                0 => self.out.push(b' '),
                1 => self.out.extend_from_slice(b"\n      "),
                _ => self.out.extend_from_slice(b" \t\r\n "),
            }
            self.out.extend_from_slice(k.as_bytes());
            if self.st.attr_ws == 2 {
                self.out.extend_from_slice(b" = ");
            } else {
                self.out.push(b'=');
            }
            self.out.push(q);
            let e = self.esc(&v, q);
            self.out.extend_from_slice(e.as_bytes());
            self.out.push(q);
        }
        if empty {
            match self.st.empty_style {
                0 => self.out.extend_from_slice(b"/>"),
                1 => self.out.extend_from_slice(b" />"),
                _ => {
                    self.out.push(b'>');
                    let after = self.out.len();
                    self.close(local);
                    return (start, Some(after));
                }
            }
            (start, None)
        } else {
            if self.st.attr_ws == 2 {
                self.out.push(b' ');
            }
            self.out.push(b'>');
            (start, Some(self.out.len()))
        }
    }

    fn close(&mut self, local: &str) {
        let name = self.name(local);
        self.out.extend_from_slice(b"</");
        self.out.extend_from_slice(name.as_bytes());
        if self.st.attr_ws == 2 {
            self.out.push(b' ');
        }
        self.out.push(b'>');
    }

    fn sep(&mut self) {
        match self.st.child_sep {
            0 => {}
            1 => self.out.extend_from_slice(b"\n  "),
            _ => self.out.extend_from_slice(b"\r\n\t \n"),
        }
        if self.st.comments && self.rng.chance(1, 3) {
            self.out.extend_from_slice(b"<!-- a <comment> & more -->");
            if self.st.child_sep > 0 {
                self.out.push(b'\n');
            }
        }
    }

    fn root_attrs(&self, session: &[u8; 16], serial: u64) -> Vec<(String, String)> {
        let ns_attr = if self.st.prefix_ns { "xmlns:r" } else { "xmlns" };
        vec![
            (ns_attr.to_string(), NS.to_string()),
            ("version".to_string(), "1".to_string()),
            ("session_id".to_string(), uuid_text(session)),
            ("serial".to_string(), serial.to_string()),
        ]
    }

    fn hash_text(&self, h: &H32) -> String {
        let s = hex32(h);
        if self.st.upper_hex {
            s.to_ascii_uppercase()
        } else {
            s
        }
    }

    fn content_b64(&mut self, data: &[u8]) {
        let text = b64(data);
        match self.st.b64_wrap {
            0 => self.out.extend_from_slice(text.as_bytes()),
            1 | 2 => {
                let (w, nl): (usize, &[u8]) = if self.st.b64_wrap == 1 { (64, b"\n") } else { (76, b"\r\n") };
                self.out.extend_from_slice(nl);
                for line in text.as_bytes().chunks(w) {
                    self.out.extend_from_slice(b"    ");
                    self.out.extend_from_slice(line);
                    self.out.extend_from_slice(nl);
                }
            }
            _ => {
                self.out.push(b'\n');
                let b = text.as_bytes();
                let mut i = 0;
                while i < b.len() {
                    let n = (self.rng.range(1, 97) as usize).min(b.len() - i);
                    self.out.extend_from_slice(&b[i..i + n]);
                    self.out.extend_from_slice(*self.rng.pick(&[&b" "[..], b"\n", b"\t", b"\r\n", b"  \n  "]));
                    i += n;
                }
            }
        }
    }

    fn publish(&mut self, uri: &str, hash: Option<&H32>, data: &[u8]) {
        self.sep();
        let mut attrs = vec![("uri".to_string(), uri.to_string())];
        if let Some(h) = hash {
            attrs.push(("hash".to_string(), self.hash_text(h)));
        }
        if data.is_empty() && self.rng.bool() {
            let (start, after) = self.open("publish", attrs, true);
            self.marks.children.push(ChildMark { start, after_start_tag: after, end: self.out.len(), name: "publish" });
            return;
        }
        let (start, after) = self.open("publish", attrs, false);
        self.content_b64(data);
        self.close("publish");
        self.marks.children.push(ChildMark { start, after_start_tag: after, end: self.out.len(), name: "publish" });
    }

    fn empty_child(&mut self, local: &'static str, attrs: Vec<(String, String)>) {
        self.sep();
        let (start, after) = self.open(local, attrs, true);
        self.marks.children.push(ChildMark { start, after_start_tag: after, end: self.out.len(), name: local });
    }

    fn finish(mut self, root: &'static str) -> Doc {
        if self.st.child_sep > 0 {
            self.out.push(b'\n');
        }
        self.close(root);
        self.marks.end = self.out.len();
        match self.st.trailing {
            1 => self.out.extend_from_slice(b"\n"),
            2 => self.out.extend_from_slice(b"\n<!-- end -->\n"),
            _ => {}
        }
        Doc { bytes: self.out, marks: self.marks }
    }

    fn begin(&mut self, root: &'static str, session: &[u8; 16], serial: u64) {
        self.prolog();
        let attrs = self.root_attrs(session, serial);
        let (start, after) = self.open(root, attrs, false);
        self.marks.root_start = start;
        self.marks.after_root_tag = after.unwrap();
    }
}

pub fn write_notif(m: &MNotif, st: &Style, rng: &mut Rng) -> Doc {
    let mut w = W { out: Vec::new(), st, rng, marks: Marks::default() };
    w.begin("notification", &m.session, m.serial);
    let h = w.hash_text(&m.snapshot.1);
    w.empty_child("snapshot", vec![("uri".into(), m.snapshot.0.clone()), ("hash".into(), h)]);
    for (serial, uri, hash) in &m.deltas {
        let h = w.hash_text(hash);
        w.empty_child(
            "delta",
            vec![("serial".into(), serial.to_string()), ("uri".into(), uri.clone()), ("hash".into(), h)],
        );
    }
    w.finish("notification")
}

pub fn write_snap(m: &MSnap, st: &Style, rng: &mut Rng) -> Doc {
    let mut w = W { out: Vec::new(), st, rng, marks: Marks::default() };
    w.begin("snapshot", &m.session, m.serial);
    for (uri, data) in &m.elements {
        w.publish(uri, None, data);
    }
    w.finish("snapshot")
}

pub fn write_delta(m: &MDelta, st: &Style, rng: &mut Rng) -> Doc {
    let mut w = W { out: Vec::new(), st, rng, marks: Marks::default() };
    w.begin("delta", &m.session, m.serial);
    for el in &m.elements {
        match el {
            MEl::Publish(uri, data) => w.publish(uri, None, data),
            MEl::Update(uri, hash, data) => w.publish(uri, Some(hash), data),
            MEl::Withdraw(uri, hash) => {
                let h = w.hash_text(hash);
                w.empty_child("withdraw", vec![("uri".into(), uri.clone()), ("hash".into(), h)]);
            }
        }
    }
    w.finish("delta")
}

//------------ Hostile tails -------------------------------------------------

/// Where in a document the endless part starts.
#[derive(Clone, Copy, Debug, PartialEq, Eq)]
pub enum Pos {
    /// Before / in place of the root element.
    Root,
    /// In place of child `i` (i == number of children: before the root's end tag).
    Child(usize),
    /// Inside the `publish` child `i`, directly after its start tag.
    Text(usize),
    /// After the root's end tag.
    Trailing,
}

impl Pos {
    pub fn class(self) -> &'static str {
        match self {
            Pos::Root => "root",
            Pos::Child(0) => "first-child",
            Pos::Child(_) => "later-child",
            Pos::Text(_) => "publish-text",
            Pos::Trailing => "after-root",
        }
    }
}

pub const HOSTILE_CLASSES: &[&str] = &[
    "attr-value",
    "attr-value-apos",
    "attr-value-entities",
    "attr-value-unknown-entities",
    "attr-name",
    "attrs-many",
    "ws-in-tag",
    "ws-after-eq",
    "elem-name",
    "end-tag-name",
    "whitespace",
    "spaces",
    "text",
    "text-lines",
    "text-entities",
    "text-charrefs",
    "comment",
    "comments-run",
    "pi",
    "doctype",
    "doctype-entities",
    "xml-decl",
    "xml-decl-run",
    "pi-run",
    "cdata",
    "nesting",
    "nesting-known",
];

/// (intro, unit) of a hostile class for an element context. `elem_open` is
/// `<name attr="v"…` of a plausible element at that position without the
/// closing `>`, `open_attr` the same followed by ` known="` + a value prefix.
pub fn hostile_tail(class: &str, elem_open: &str, open_attr: &str) -> (Vec<u8>, Vec<u8>) {
    let (intro, unit): (String, &str) = match class {
        "attr-value" => (open_attr.to_string(), "a"),
        "attr-value-apos" => (open_attr.replacen("=\"", "='", 1).replace('"', "'"), "a"),
        "attr-value-entities" => (open_attr.to_string(), "&amp;"),
        "attr-value-unknown-entities" => (open_attr.to_string(), "&lol9;"),
        "attr-name" => (format!("{} ", elem_open), "a"),
        "attrs-many" => (elem_open.to_string(), " a=\"b\""),
        "ws-in-tag" => (format!("{} ", elem_open), " \n"),
        "ws-after-eq" => (format!("{} zz=", elem_open), " "),
        "elem-name" => ("<".to_string(), "a"),
        "end-tag-name" => ("</".to_string(), "a"),
        "whitespace" => (String::new(), " \n\t\r"),
        "spaces" => (String::new(), " "),
        "text" => (String::new(), "QUJD"),
        "text-lines" => (String::new(), "QUJDQUJDQUJDQUJD\n"),
        "text-entities" => (String::new(), "&amp;"),
        "text-charrefs" => (String::new(), "&#65;"),
        "comment" => ("<!--".to_string(), "a "),
        "comments-run" => (String::new(), "<!--x-->"),
        "pi" => ("<?pi ".to_string(), "a"),
        "doctype" => ("<!DOCTYPE ".to_string(), "a"),
        "doctype-entities" => ("<!DOCTYPE lolz [".to_string(), "<!ENTITY lol \"lollollol\">"),
        "xml-decl" => ("<?xml version=\"1.0\" ".to_string(), "a"),
        // complete declarations / processing instructions, again and again
        "xml-decl-run" => (String::new(), "<?xml version=\"1.0\"?>"),
        "pi-run" => (String::new(), "<?p x?>\n"),
        "cdata" => ("<![CDATA[".to_string(), "a"),
        "nesting" => (String::new(), "<a>"),
        "nesting-known" => (String::new(), ""),
        _ => panic!("unknown hostile class {}", class),
    };
    if class == "nesting-known" {
        return (Vec::new(), format!("{}>", elem_open).into_bytes());
    }
    (intro.into_bytes(), unit.as_bytes().to_vec())
}

/// Element context for a hostile tail at `pos` of a document of `kind`.
pub fn elem_context(kind: Kind, pos: Pos, rng: &mut Rng) -> (String, String) {
    let hash = "00".repeat(32);
    let root_open = |name: &str| {
        format!(
            "<{} xmlns=\"{}\" version=\"1\" session_id=\"{}\"",
            name,
            NS,
            uuid_text(&[7u8; 16])
        )
    };
    match (kind, pos) {
        (_, Pos::Root) | (_, Pos::Trailing) => {
            let open = root_open(kind.name());
            let attr = format!("{} serial=\"1", open);
            (open, attr)
        }
        (Kind::Notification, Pos::Child(i)) => {
            if i == 0 || rng.chance(1, 4) {
                let open = format!("<snapshot hash=\"{}\"", hash);
                let attr = format!("{} uri=\"https://h.example/", open);
                (open, attr)
            } else {
                let open = format!("<delta serial=\"5\" hash=\"{}\"", hash);
                let attr = format!("{} uri=\"https://h.example/", open);
                (open, attr)
            }
        }
        (Kind::Delta, Pos::Child(_)) if rng.bool() => {
            let open = format!("<withdraw hash=\"{}\"", hash);
            let attr = format!("{} uri=\"rsync://h.example/m/", open);
            (open, attr)
        }
        _ => {
            let open = "<publish".to_string();
            let attr = format!("{} uri=\"rsync://h.example/m/", open);
            (open, attr)
        }
    }
}
