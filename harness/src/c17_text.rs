//! C17 part 7 — the decimal text of serial numbers through every door that
//! reads it, in canonical and in decorated spellings.
//!
//! The statement obliges: value -> decimal text -> the same value. That is
//! demanded here through every reader of the text (`FromStr`, serde over
//! serde_json's three string deliveries and over the token format of the
//! harness in both kinds of format, `CrlEntry::from_str` with and without a
//! revocation time).
//!
//! The statement does not say which *other* texts must be refused (DESIGN
//! 12.4: leniency of a constructor is recorded, not reported). So for the
//! decorated spellings of a number n (sign, leading zeros, blanks, digit
//! separators, other scripts, ...) acceptance is only counted, per class, per
//! door and per magnitude. What is judged is numeric faithfulness: where a
//! spelling is accepted and has one conventional reading as a number (an
//! optional '+', leading zeros, ASCII blanks around the digits), the serial
//! that comes out must be n: a text must never turn into another number. A
//! numeral with a minus sign denotes no serial at all (other than -0), so a
//! value coming out of it is necessarily another number.

use super::{big_decimal, serial_class, serial_values, serial_values_small};
use crate::core::{hex, Ctx, Stage};
use crate::serde_tok::{from_tok, to_tok, De, Strings, Tok};
use rpki::repository::crl::CrlEntry;
use rpki::repository::x509::Serial;
use serde_json::json;
use std::collections::BTreeMap;
use std::str::FromStr;

#[derive(Clone, Copy, PartialEq, Eq, Debug)]
enum Reading {
    /// the canonical decimal text itself
    Canonical,
    /// one conventional reading: the same number
    Same,
    /// a negative number (no serial unless the number is zero)
    Negative,
    /// not a conventional numeral, or several readings: recorded only
    Unclear,
}

struct Spelling {
    class: &'static str,
    reading: Reading,
    make: fn(&str) -> String,
}

fn with_separator(d: &str, sep: char) -> String {
    // groups of three from the right, as people write large numbers
    let mut out = String::new();
    for (i, ch) in d.chars().enumerate() {
        if i > 0 && (d.len() - i) % 3 == 0 {
            out.push(sep);
        }
        out.push(ch);
    }
    if !out.contains(sep) {
        out.insert(0, sep);
    }
    out
}

fn other_script(d: &str, zero: u32) -> String {
    d.chars().map(|c| char::from_u32(zero + (c as u32 - '0' as u32)).unwrap_or(c)).collect()
}

const SPELLINGS: &[Spelling] = &[
    Spelling { class: "canonical", reading: Reading::Canonical, make: |d| d.to_string() },
    Spelling { class: "plus-sign", reading: Reading::Same, make: |d| format!("+{d}") },
    Spelling { class: "leading-zero", reading: Reading::Same, make: |d| format!("0{d}") },
    Spelling { class: "three-leading-zeros", reading: Reading::Same, make: |d| format!("000{d}") },
    Spelling { class: "sixty-leading-zeros", reading: Reading::Same, make: |d| format!("{}{d}", "0".repeat(60)) },
    Spelling { class: "plus-sign-and-leading-zeros", reading: Reading::Same, make: |d| format!("+00{d}") },
    Spelling { class: "leading-space", reading: Reading::Same, make: |d| format!(" {d}") },
    Spelling { class: "trailing-space", reading: Reading::Same, make: |d| format!("{d} ") },
    Spelling { class: "leading-tab", reading: Reading::Same, make: |d| format!("\t{d}") },
    Spelling { class: "trailing-newline", reading: Reading::Same, make: |d| format!("{d}\n") },
    Spelling { class: "blanks-around", reading: Reading::Same, make: |d| format!("  {d}  ") },
    Spelling { class: "space-then-plus-sign", reading: Reading::Same, make: |d| format!(" +{d}") },
    Spelling { class: "minus-sign", reading: Reading::Negative, make: |d| format!("-{d}") },
    Spelling { class: "minus-sign-and-leading-zero", reading: Reading::Negative, make: |d| format!("-0{d}") },
    Spelling { class: "plus-sign-after", reading: Reading::Unclear, make: |d| format!("{d}+") },
    Spelling { class: "two-plus-signs", reading: Reading::Unclear, make: |d| format!("++{d}") },
    Spelling { class: "plus-then-minus", reading: Reading::Unclear, make: |d| format!("+-{d}") },
    Spelling { class: "plus-sign-then-space", reading: Reading::Unclear, make: |d| format!("+ {d}") },
    Spelling { class: "underscore-groups", reading: Reading::Unclear, make: |d| with_separator(d, '_') },
    Spelling { class: "comma-groups", reading: Reading::Unclear, make: |d| with_separator(d, ',') },
    Spelling { class: "decimal-point", reading: Reading::Unclear, make: |d| format!("{d}.0") },
    Spelling { class: "exponent", reading: Reading::Unclear, make: |d| format!("{d}e0") },
    Spelling { class: "hex-prefix", reading: Reading::Unclear, make: |d| format!("0x{d}") },
    Spelling { class: "trailing-nul", reading: Reading::Unclear, make: |d| format!("{d}\0") },
    Spelling { class: "trailing-letter", reading: Reading::Unclear, make: |d| format!("{d}a") },
    Spelling { class: "space-inside", reading: Reading::Unclear, make: |d| with_separator(d, ' ') },
    Spelling { class: "arabic-indic-digits", reading: Reading::Unclear, make: |d| other_script(d, 0x0660) },
    Spelling { class: "fullwidth-digits", reading: Reading::Unclear, make: |d| other_script(d, 0xff10) },
    Spelling { class: "fullwidth-plus-sign", reading: Reading::Unclear, make: |d| format!("\u{ff0b}{d}") },
    Spelling { class: "unicode-minus-sign", reading: Reading::Unclear, make: |d| format!("\u{2212}{d}") },
    Spelling { class: "no-break-space-before", reading: Reading::Unclear, make: |d| format!("\u{a0}{d}") },
];

/// Texts that do not depend on a number.
const LONE: &[(&str, &str)] = &[("", "empty"), ("+", "lone-plus-sign"), ("-", "lone-minus-sign"), (" ", "lone-space"), ("+0", "plus-zero"), ("-0", "minus-zero"), ("00", "two-zeros"), ("@", "lone-at-sign")];

#[derive(Clone, Copy, PartialEq, Eq, Debug)]
enum Got {
    Value([u8; 20]),
    Refused,
    Panicked,
}

struct DoorSpec {
    name: String,
    /// signature part: stable, no transport parameters beyond the kind
    class: &'static str,
    read: Box<dyn Fn(&str) -> Result<Option<Serial>, String>>,
}

fn doors(ctx: &Ctx) -> Vec<DoorSpec> {
    let mut v: Vec<DoorSpec> = Vec::new();
    let mut add = |name: String, class: &'static str, f: Box<dyn Fn(&str) -> Option<Serial>>| {
        v.push(DoorSpec { name, class, read: Box::new(move |t: &str| crate::core::catch(|| f(t))) });
    };
    add("Serial::from_str".into(), "from_str", Box::new(|t| Serial::from_str(t).ok()));
    add("serde_json::from_str".into(), "serde-json-str", Box::new(|t| serde_json::from_str::<Serial>(&serde_json::to_string(t).unwrap_or_default()).ok()));
    let few = ctx.is_miri();
    if !few {
        add("serde_json::from_reader".into(), "serde-json-reader", Box::new(|t| serde_json::from_reader::<_, Serial>(serde_json::to_string(t).unwrap_or_default().as_bytes()).ok()));
        add("serde_json::from_value".into(), "serde-json-value", Box::new(|t| serde_json::from_value::<Serial>(serde_json::Value::String(t.to_string())).ok()));
    }
    for hr in [true, false] {
        for strings in [Strings::Borrowed, Strings::Transient, Strings::Owned] {
            if few && !(!hr && strings == Strings::Owned) {
                continue;
            }
            let cfg = De { human_readable: hr, strings, structs_as_seq: false };
            let class = match (hr, strings) {
                (true, Strings::Borrowed) => "token-format-readable-borrowed",
                (true, Strings::Transient) => "token-format-readable-transient",
                (true, Strings::Owned) => "token-format-readable-owned",
                (false, Strings::Borrowed) => "token-format-compact-borrowed",
                (false, Strings::Transient) => "token-format-compact-transient",
                (false, Strings::Owned) => "token-format-compact-owned",
            };
            add(format!("token format {}", cfg.describe()), class, Box::new(move |t| from_tok::<Serial>(&Tok::Str(t.to_string()), cfg).ok()));
        }
    }
    add("CrlEntry::from_str(serial@time)".into(), "crl-entry-with-time", Box::new(|t| CrlEntry::from_str(&format!("{t}@2024-02-29T12:00:00Z")).ok().map(|e| e.user_certificate)));
    if !ctx.is_miri() {
        // reads the clock for the revocation time (not for any verdict)
        add("CrlEntry::from_str(serial)".into(), "crl-entry-without-time", Box::new(|t| CrlEntry::from_str(t).ok().map(|e| e.user_certificate)));
    }
    v
}

fn magnitude(v: &[u8; 20]) -> &'static str {
    if v[..12].iter().all(|&b| b == 0) {
        "below-2^64"
    } else if v[..4].iter().all(|&b| b == 0) {
        "2^64..2^128"
    } else {
        "2^128-and-above"
    }
}

#[derive(Default)]
struct Counts {
    accepted: u64,
    refused: u64,
    by_magnitude: BTreeMap<&'static str, (u64, u64)>,
    doors_disagree: u64,
}

pub fn part_serial_text(ctx: &mut Ctx) {
    let dense = matches!(ctx.stage, Stage::Native | Stage::Asan);
    let nshards = ctx.nshards.max(1);
    let doors = doors(ctx);
    let mut rng = ctx.rng("serial-text");
    let boundary = if dense { serial_values(ctx, 0) } else { serial_values_small(ctx, 0) };
    let mut values: Vec<[u8; 20]> = boundary.into_iter().filter(|v| v[0] & 0x80 == 0).enumerate().filter(|(i, _)| (*i as u64) % nshards == ctx.shard).map(|(_, v)| v).collect();
    if !dense {
        // interpreter stages: one seed-chosen number per shard and nothing else
        values.clear();
    }
    for i in 0..ctx.stage_budget((24_000, 600_000), 1_200, 4, 4) {
        let mut v = [0u8; 20];
        // magnitudes around the widths of the machine integers are as frequent as the rest
        let len = match i % 4 {
            0 => 1 + rng.usize_below(8),
            1 => 8 + rng.usize_below(9),
            2 => 16 + rng.usize_below(5),
            _ => 1 + rng.usize_below(20),
        };
        let r = rng.bytes(len);
        v[20 - len..].copy_from_slice(&r);
        v[0] &= 0x7f;
        values.push(v);
    }

    let mut evals = 0u64;
    let mut counts: BTreeMap<&'static str, Counts> = BTreeMap::new();
    let mut door_accepts: BTreeMap<(&'static str, &'static str), u64> = BTreeMap::new();
    let mut sampled: BTreeMap<&'static str, u8> = BTreeMap::new();
    let mut canonical_ok = 0u64;

    for v in &values {
        let Ok(s) = Serial::from_array(*v) else { continue };
        let is_zero = v.iter().all(|&b| b == 0);
        let digits = big_decimal(v);
        let mag = magnitude(v);
        // the text the library prints is a canonical spelling as well (for zero it may be the empty string: 12.4)
        let shown = s.to_string();
        for (si, sp) in SPELLINGS.iter().enumerate() {
            // interpreter stages: the canonical text and every third spelling, other ones in every shard
            if !dense && si != 0 && si % 3 != (ctx.shard as usize + ctx.seed as usize) % 3 {
                continue;
            }
            let text = (sp.make)(&digits);
            let mut texts = vec![text];
            if sp.reading == Reading::Canonical && shown != digits {
                texts.push(shown.clone());
            }
            for text in texts {
                let mut got: Vec<Got> = Vec::with_capacity(doors.len());
                let mut panic_text = String::new();
                for d in &doors {
                    got.push(match (d.read)(&text) {
                        Ok(Some(x)) => Got::Value(x.into_array()),
                        Ok(None) => Got::Refused,
                        Err(t) => {
                            panic_text = t;
                            Got::Panicked
                        }
                    });
                }
                evals += got.len() as u64;
                let lit = |door: &DoorSpec, g: &Got| {
                    json!({
                        "number_octets": hex(v),
                        "number_decimal": digits,
                        "text": text,
                        "spelling": sp.class,
                        "door": door.name,
                        "result": match g {
                            Got::Value(x) => json!({"accepted_as_octets": hex(x), "accepted_as_decimal": big_decimal(x)}),
                            Got::Refused => json!("refused"),
                            Got::Panicked => json!("panicked"),
                        },
                    })
                };
                // one report per text and kind of trouble, under the first reader that shows it (FromStr
                // comes first: what all readers share is reported there, a reader's own trouble under its name)
                let mut reported: Vec<&'static str> = Vec::new();
                for (d, g) in doors.iter().zip(got.iter()) {
                    if let Got::Value(_) = g {
                        *door_accepts.entry((sp.class, d.class)).or_insert(0) += 1;
                    }
                    let kind = match (sp.reading, g) {
                        (_, Got::Panicked) => "panic",
                        (Reading::Canonical, Got::Refused) => "refused",
                        (Reading::Negative, Got::Value(x)) if !is_zero || x.iter().any(|&b| b != 0) => "negative",
                        (Reading::Canonical | Reading::Same, Got::Value(x)) if x != v => "other-number",
                        _ => "",
                    };
                    if !kind.is_empty() {
                        if reported.contains(&kind) {
                            continue;
                        }
                        reported.push(kind);
                    }
                    match (sp.reading, g) {
                        (_, Got::Panicked) => {
                            ctx.violation(&format!("C17:panic:serial-text:{}:{}", d.class, crate::core::panic_location(&panic_text)), &format!("panic while reading the text of a serial number: {panic_text}"), lit(d, g));
                        }
                        (Reading::Canonical, Got::Refused) => {
                            ctx.violation(
                                &format!("C17:serial:text:canonical-text-refused:{}", d.class),
                                &format!("{} refuses '{}', the decimal text of a serial number", d.name, text),
                                lit(d, g),
                            );
                        }
                        (Reading::Canonical, Got::Value(x)) if x != v => {
                            ctx.violation(
                                &format!("C17:serial:text:canonical-text-gives-another-number:{}", d.class),
                                &format!("{} reads '{}' as {}", d.name, text, big_decimal(x)),
                                lit(d, g),
                            );
                        }
                        (Reading::Canonical, Got::Value(_)) => canonical_ok += 1,
                        (Reading::Same, Got::Value(x)) if x != v => {
                            ctx.violation(
                                &format!("C17:serial:text:accepted-numeral-gives-another-number:{}:{}", sp.class, d.class),
                                &format!("{} accepts {:?} ({}) and reads it as {}, the numeral says {}", d.name, text, sp.class, big_decimal(x), digits),
                                lit(d, g),
                            );
                        }
                        (Reading::Negative, Got::Value(x)) if !is_zero || x.iter().any(|&b| b != 0) => {
                            ctx.violation(
                                &format!("C17:serial:text:negative-numeral-gives-a-serial:{}:{}", sp.class, d.class),
                                &format!("{} accepts {:?}, a negative number, and reads it as serial {}", d.name, text, big_decimal(x)),
                                lit(d, g),
                            );
                        }
                        _ => {}
                    }
                }
                // recorded: acceptance of the spelling by FromStr, per magnitude; whether the doors agree
                let first = got[0];
                let c = counts.entry(sp.class).or_default();
                let m = c.by_magnitude.entry(mag).or_insert((0, 0));
                if matches!(first, Got::Value(_)) {
                    c.accepted += 1;
                    m.0 += 1;
                } else {
                    c.refused += 1;
                    m.1 += 1;
                }
                if got.iter().any(|g| matches!(g, Got::Value(_)) != matches!(first, Got::Value(_))) {
                    c.doors_disagree += 1;
                }
                ctx.sig(&format!("serial-text {} {} {} -> {}", sp.class, mag, serial_class(v), if matches!(first, Got::Value(_)) { "accepted" } else { "refused" }));
                if sp.reading != Reading::Canonical && matches!(first, Got::Value(_)) {
                    let n = sampled.entry(sp.class).or_insert(0);
                    if *n < 1 {
                        *n += 1;
                        let g = first;
                        ctx.sample("serial-text-accepted-spelling", || lit(&doors[0], &g));
                    }
                }
            }
        }

        // the writers: the token the Serialize side produces is read back over every transport
        for hr in [true, false] {
            match to_tok(&s, hr) {
                Ok(tok) => {
                    let as_text = matches!(&tok, Tok::Str(t) if *t == digits || *t == shown);
                    ctx.obs(if as_text { "serial_serialized_as_its_decimal_text" } else { "serial_serialized_as_something_else" }, 1);
                    for cfg in De::all(hr) {
                        if cfg.structs_as_seq {
                            continue;
                        }
                        evals += 1;
                        match crate::core::catch(|| from_tok::<Serial>(&tok, cfg)) {
                            Ok(Ok(x)) if x == s => {}
                            other => {
                                ctx.violation(
                                    &format!("C17:serial:serde-roundtrip:token-format-{}-{}", if hr { "readable" } else { "compact" }, format!("{:?}", cfg.strings).to_lowercase()),
                                    "a serial number serialised into the token format does not read back as itself",
                                    json!({"number_octets": hex(v), "number_decimal": digits, "token": format!("{:?}", tok), "transport": cfg.describe(), "result": format!("{:?}", other.map(|r| r.map(|x| hex(&x.into_array())).map_err(|e| e.0)))}),
                                );
                            }
                        }
                    }
                }
                Err(e) => {
                    ctx.violation("C17:serial:serde-roundtrip:serialize-fails", "a serial number cannot be serialised", json!({"number_octets": hex(v), "human_readable": hr, "error": e.0}));
                }
            }
        }
    }

    // texts that do not belong to a number: recorded only (a value coming out of a lone sign is counted)
    if ctx.shard == 0 {
        for (text, class) in LONE {
            for d in &doors {
                evals += 1;
                match (d.read)(text) {
                    Ok(Some(x)) => {
                        ctx.obs(&format!("serial_text_lone_accepted:{class}"), 1);
                        ctx.sample("serial-text-lone", || json!({"text": text, "door": d.name, "accepted_as_decimal": big_decimal(&x.into_array())}));
                    }
                    Ok(None) => ctx.obs(&format!("serial_text_lone_refused:{class}"), 1),
                    Err(t) => {
                        ctx.violation(&format!("C17:panic:serial-text:{}:{}", d.class, crate::core::panic_location(&t)), "panic while reading a text as a serial number", json!({"text": text, "door": d.name}));
                    }
                }
            }
        }
    }

    ctx.evals(evals);
    ctx.obs("serial_text_numbers", values.len() as u64);
    ctx.obs("serial_text_canonical_read_back", canonical_ok);
    for (class, c) in &counts {
        if *class == "canonical" {
            continue;
        }
        // (a class that is missing from one of the two lists has a count of zero there)
        if c.accepted > 0 {
            ctx.obs(&format!("serial_text_accepted:{class}"), c.accepted);
        }
        if c.refused > 0 {
            ctx.obs(&format!("serial_text_refused:{class}"), c.refused);
        }
        if c.doors_disagree > 0 {
            ctx.obs(&format!("serial_text_doors_disagree:{class}"), c.doors_disagree);
        }
        // acceptance that depends on how large the number is: nothing the statement forbids, but worth a line
        let some_accept = c.by_magnitude.values().any(|m| m.0 > 0);
        let some_refuse = c.by_magnitude.values().any(|m| m.1 > 0);
        if some_accept && some_refuse {
            let parts: Vec<String> = c.by_magnitude.iter().map(|(m, (a, r))| format!("{m}: {a} accepted / {r} refused")).collect();
            for (m, (a, r)) in &c.by_magnitude {
                ctx.obs(&format!("serial_text_acceptance_by_magnitude:{class}:{m}:accepted"), *a);
                ctx.obs(&format!("serial_text_acceptance_by_magnitude:{class}:{m}:refused"), *r);
            }
            if ctx.shard == 0 {
                ctx.notes.push(format!("C17: Serial::from_str accepts the spelling '{class}' for some numbers and refuses it for others ({}); recorded, the statement does not say which texts other than the decimal text must be refused", parts.join("; ")));
            }
        }
    }
    // per door only where a door differs from FromStr
    for ((class, door), n) in &door_accepts {
        let by_from_str = counts.get(class).map(|c| c.accepted).unwrap_or(0);
        if *class != "canonical" && *door != "from_str" && *n != by_from_str {
            ctx.obs(&format!("serial_text_accepted_through:{class}:{door}"), *n);
        }
    }
    for (class, c) in &counts {
        // a door that refuses what FromStr accepts does not show in the map above
        if c.accepted > 0 {
            for d in &doors {
                if d.class != "from_str" && !door_accepts.contains_key(&(*class, d.class)) {
                    ctx.obs(&format!("serial_text_accepted_through:{class}:{}", d.class), 0);
                }
            }
        }
    }
}
