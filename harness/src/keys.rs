//! PoolSigner: an implementation of the crate's public `Signer` trait over a
//! pool of RSA-2048 keys that are generated once and cached on disk (PKCS#8),
//! so that workloads do not pay 30–80 ms (7 s under valgrind) per key.
//! Also gives raw access to the key pairs so that the independent CMS / X.509
//! assembler can sign with aws-lc-rs directly, without the library.

use aws_lc_rs::encoding::{AsDer, Pkcs8V1Der, PublicKeyX509Der};
use aws_lc_rs::rand::{SecureRandom, SystemRandom};
use aws_lc_rs::signature::KeyPair as _;
use aws_lc_rs::{rsa, signature};
use rpki::crypto::keys::{PublicKey, PublicKeyFormat};
use rpki::crypto::signature::{Signature, SignatureAlgorithm};
use rpki::crypto::signer::{KeyError, Signer, SigningAlgorithm, SigningError};
use std::cell::Cell;
use std::io;
use std::path::PathBuf;

pub struct PoolKey {
    pub pair: rsa::KeyPair,
    pub info: PublicKey,
    /// DER of SubjectPublicKeyInfo
    pub spki: Vec<u8>,
}

impl PoolKey {
    /// PKCS#1 v1.5 / SHA-256 signature, straight from aws-lc-rs.
    pub fn sign_raw(&self, data: &[u8]) -> Vec<u8> {
        let rng = SystemRandom::new();
        let mut sig = vec![0; self.pair.public_modulus_len()];
        self.pair
            .sign(&signature::RSA_PKCS1_SHA256, &rng, data, &mut sig)
            .expect("rsa sign");
        sig
    }
}

pub struct PoolSigner {
    pub keys: Vec<PoolKey>,
    next_one_off: Cell<usize>,
    rng: SystemRandom,
    /// number of signatures made (for evidence)
    pub signatures: Cell<u64>,
}

fn key_dir() -> PathBuf {
    let mut p = PathBuf::from(env!("CARGO_MANIFEST_DIR"));
    p.pop();
    p.push(".build");
    p.push("keys");
    p
}

fn load_or_generate(idx: usize) -> rsa::KeyPair {
    let dir = key_dir();
    let path = dir.join(format!("rsa2048-{}.p8", idx));
    if let Ok(data) = std::fs::read(&path) {
        if let Ok(k) = rsa::KeyPair::from_pkcs8(&data) {
            return k;
        }
    }
    let k = rsa::KeyPair::generate(rsa::KeySize::Rsa2048).expect("rsa keygen");
    let der: Pkcs8V1Der = k.as_der().expect("pkcs8");
    let _ = std::fs::create_dir_all(&dir);
    // write atomically: several shards may race here, any winner is fine
    let tmp = dir.join(format!("rsa2048-{}.p8.tmp{}", idx, std::process::id()));
    if std::fs::write(&tmp, der.as_ref()).is_ok() {
        let _ = std::fs::rename(&tmp, &path);
    }
    // re-read so that all shards agree on the key when they raced
    if let Ok(data) = std::fs::read(&path) {
        if let Ok(k2) = rsa::KeyPair::from_pkcs8(&data) {
            return k2;
        }
    }
    k
}

impl PoolSigner {
    /// A pool with `n` keys (key ids 0..n).
    pub fn new(n: usize) -> Self {
        let mut keys = Vec::with_capacity(n);
        for i in 0..n {
            let pair = load_or_generate(i);
            let spki: PublicKeyX509Der = pair.public_key().as_der().expect("spki");
            let spki = spki.as_ref().to_vec();
            let info = PublicKey::decode(spki.as_slice()).expect("decode spki");
            keys.push(PoolKey { pair, info, spki });
        }
        PoolSigner {
            keys,
            next_one_off: Cell::new(0),
            rng: SystemRandom::new(),
            signatures: Cell::new(0),
        }
    }

    pub fn len(&self) -> usize {
        self.keys.len()
    }

    pub fn is_empty(&self) -> bool {
        self.keys.is_empty()
    }

    pub fn key(&self, idx: usize) -> &PoolKey {
        &self.keys[idx % self.keys.len()]
    }

    pub fn info(&self, idx: usize) -> PublicKey {
        self.key(idx).info.clone()
    }

    /// Fixes which pool key the next `sign_one_off` uses.
    pub fn set_next_one_off(&self, idx: usize) {
        self.next_one_off.set(idx)
    }
}

impl Signer for PoolSigner {
    type KeyId = usize;
    type Error = io::Error;

    fn create_key(&self, algorithm: PublicKeyFormat) -> Result<usize, io::Error> {
        if algorithm != PublicKeyFormat::Rsa {
            return Err(io::Error::other("invalid algorithm"));
        }
        let i = self.next_one_off.get();
        self.next_one_off.set(i + 1);
        Ok(i % self.keys.len())
    }

    fn get_key_info(&self, key: &usize) -> Result<PublicKey, KeyError<io::Error>> {
        self.keys.get(*key).map(|k| k.info.clone()).ok_or(KeyError::KeyNotFound)
    }

    fn destroy_key(&self, key: &usize) -> Result<(), KeyError<io::Error>> {
        if *key < self.keys.len() {
            Ok(())
        } else {
            Err(KeyError::KeyNotFound)
        }
    }

    fn sign<Alg: SignatureAlgorithm, D: AsRef<[u8]> + ?Sized>(
        &self,
        key: &usize,
        algorithm: Alg,
        data: &D,
    ) -> Result<Signature<Alg>, SigningError<io::Error>> {
        let k = self.keys.get(*key).ok_or(SigningError::KeyNotFound)?;
        if !matches!(algorithm.signing_algorithm(), SigningAlgorithm::RsaSha256) {
            return Err(SigningError::IncompatibleKey);
        }
        self.signatures.set(self.signatures.get() + 1);
        Ok(Signature::new(algorithm, k.sign_raw(data.as_ref()).into()))
    }

    fn sign_one_off<Alg: SignatureAlgorithm, D: AsRef<[u8]> + ?Sized>(
        &self,
        algorithm: Alg,
        data: &D,
    ) -> Result<(Signature<Alg>, PublicKey), io::Error> {
        if !matches!(algorithm.signing_algorithm(), SigningAlgorithm::RsaSha256) {
            return Err(io::Error::other("invalid algorithm"));
        }
        let i = self.next_one_off.get();
        self.next_one_off.set(i + 1);
        let k = self.key(i);
        self.signatures.set(self.signatures.get() + 1);
        Ok((Signature::new(algorithm, k.sign_raw(data.as_ref()).into()), k.info.clone()))
    }

    fn rand(&self, target: &mut [u8]) -> Result<(), io::Error> {
        self.rng.fill(target).map_err(|_| io::Error::other("rng error"))
    }
}

/// SHA-256 straight from aws-lc-rs (oracle side).
pub fn sha256(data: &[u8]) -> Vec<u8> {
    aws_lc_rs::digest::digest(&aws_lc_rs::digest::SHA256, data).as_ref().to_vec()
}

/// SHA-1 straight from aws-lc-rs (oracle side; key identifiers).
pub fn sha1(data: &[u8]) -> Vec<u8> {
    aws_lc_rs::digest::digest(&aws_lc_rs::digest::SHA1_FOR_LEGACY_USE_ONLY, data)
        .as_ref()
        .to_vec()
}

/// A P-256 public key (for BGPsec router certificates) as SubjectPublicKeyInfo DER.
pub fn p256_spki() -> Vec<u8> {
    let rng = SystemRandom::new();
    let pkcs8 = signature::EcdsaKeyPair::generate_pkcs8(&signature::ECDSA_P256_SHA256_ASN1_SIGNING, &rng)
        .expect("p256 keygen");
    let pair = signature::EcdsaKeyPair::from_pkcs8(&signature::ECDSA_P256_SHA256_ASN1_SIGNING, pkcs8.as_ref())
        .expect("p256 load");
    let point = pair.public_key().as_ref().to_vec();
    // SEQUENCE { SEQUENCE { ecPublicKey, secp256r1 }, BIT STRING point }
    let mut alg = vec![0x06, 0x07, 0x2A, 0x86, 0x48, 0xCE, 0x3D, 0x02, 0x01];
    alg.extend_from_slice(&[0x06, 0x08, 0x2A, 0x86, 0x48, 0xCE, 0x3D, 0x03, 0x01, 0x07]);
    let alg = crate::der::tlv(0x30, &alg);
    let mut bits = vec![0u8];
    bits.extend_from_slice(&point);
    let bits = crate::der::tlv(0x03, &bits);
    let mut body = alg;
    body.extend_from_slice(&bits);
    crate::der::tlv(0x30, &body)
}

#[cfg(test)]
mod test {
    use super::*;
    use rpki::crypto::signature::RpkiSignatureAlgorithm;

    #[test]
    fn pool_sign_verify() {
        let pool = PoolSigner::new(2);
        let sig = pool.sign(&1, RpkiSignatureAlgorithm::default(), b"foobar").unwrap();
        pool.info(1).verify(b"foobar", &sig).unwrap();
        assert!(pool.info(0).verify(b"foobar", &sig).is_err());
        assert_eq!(pool.info(1).key_identifier().as_slice(), &sha1(pool.info(1).bits())[..]);
        let spki = p256_spki();
        let k = PublicKey::decode(spki.as_slice()).unwrap();
        assert!(k.allow_router_cert());
    }
}
