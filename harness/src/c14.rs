//! C14 — stub (monitor not built yet).
use crate::core::Ctx;

pub fn run(ctx: &mut Ctx) {
    ctx.notes.push("C14: monitor not built yet".into());
}
