//! C14 — manifest entries cannot name anything outside the publication point.
//!
//! Workload: manifest eContent assembled with the independent DER/BER writer
//! (`crate::der`): hostile and valid file names of every shape, hash BIT
//! STRINGs of 0..64 octets with 0..7 unused bits, 0..2000 entries, times in
//! both orders, manifest numbers at the boundaries, a few structural defects
//! and BER-only encodings. Every eContent is decoded directly
//! (`ManifestContent::take_from` in DER and BER mode) and, in the native and
//! ASan stages, inside a complete signed manifest: a CMS SignedData assembled
//! here (not by the library's encoder), signed with aws-lc-rs directly, with
//! an EE certificate issued through the library's `TbsCert` under the key pool.
//!
//! Oracle (written from the property statement, for every manifest that
//! decodes): every listed name matches `[A-Za-z0-9_-]+\.[A-Za-z]{3}` (an empty
//! stem is only counted); `iter().count() == len()` and the iterator yields
//! the entries that were encoded; `iter_uris(base)` completes without panic
//! for a set of rsync bases and every URI is `directory-form(base) + name`,
//! directly inside that directory, its `parent()` is the directory and it
//! re-parses to an equal URI; this-update <= next-update; `ManifestHash::verify`
//! is Ok exactly when the listed octets equal SHA-256(data) (aws-lc-rs
//! directly). Rejected manifests are fine; reasons are counted.
//!
//! Second workload (section "names related to the object, content handed back
//! by validation"): per case an EE certificate with chosen URIs and validity
//! window; the file list contains the manifest's own file name, the CRL's and
//! the issuer certificate's (every position, repeated, case variants, one-edit
//! neighbours, other URI parts), the window lies before / around / inside /
//! after thisUpdate..nextUpdate. Every entry point that hands out a
//! `ManifestContent` - decode (strict / relaxed), Deref / AsRef / Borrow /
//! Clone, re-encoding, serde transports, `validate_at` / `validate`,
//! `SignedObject::decode_content` / `process` - is held to the same laws, with
//! the EE certificate's own URIs among the bases; the entry point is part of
//! the violation signature.
//!
//! Third workload (`c14_doors.rs`): the same hostile manifest from the
//! independent encoder through every door that creates a `Manifest` /
//! `ManifestContent` from octets or from a serde transport (`take_from` DER /
//! BER, `Manifest::decode` strict / relaxed, `SignedObject::decode` +
//! `decode_content`, `<Manifest as Deserialize>` via serde_json and every
//! transport of `serde_tok`); whatever a door hands out is held to the laws
//! above, the door is part of the violation signature.

use crate::core::{catch, hex, panic_location, Ctx, Rng, Stage, Tier};
use crate::der;
use crate::keys::{sha1, sha256, PoolSigner};
use crate::serde_tok;
use bcder::encode::Values as _;
use bcder::Mode;
use bytes::Bytes;
use rpki::crypto::DigestAlgorithm;
use rpki::repository::cert::{KeyUsage, Overclaim, ResourceCert, TbsCert};
use rpki::repository::manifest::{Manifest, ManifestContent, ManifestHash};
use rpki::repository::sigobj::SignedObject;
use rpki::repository::tal::TalInfo;
use rpki::repository::x509::{Serial, Time, Validity};
use rpki::uri::Rsync;
use serde_json::{json, Value};
use std::str::FromStr;

#[path = "c14_doors.rs"]
mod doors;

//------------ name oracle ---------------------------------------------------

#[derive(Clone, Copy, Debug, PartialEq, Eq)]
enum NameVerdict {
    /// `[A-Za-z0-9_-]+\.[A-Za-z]{3}`
    Ok,
    /// `\.[A-Za-z]{3}`: forbidden by RFC 9286, not clearly by the statement.
    EmptyStem,
    Bad(&'static str),
}

fn stem_char(c: u8) -> bool {
    c.is_ascii_alphanumeric() || c == b'-' || c == b'_'
}

/// The grammar of the property statement, written without looking at the
/// library: stem characters, one dot, exactly three letters.
fn judge_name(n: &[u8]) -> NameVerdict {
    let dots: Vec<usize> = n.iter().enumerate().filter(|(_, c)| **c == b'.').map(|(i, _)| i).collect();
    let matches_with_stem = |min_stem: usize| -> bool {
        if dots.len() != 1 {
            return false;
        }
        let p = dots[0];
        let (stem, ext) = (&n[..p], &n[p + 1..]);
        stem.len() >= min_stem && stem.iter().all(|c| stem_char(*c)) && ext.len() == 3 && ext.iter().all(|c| c.is_ascii_alphabetic())
    };
    if matches_with_stem(1) {
        return NameVerdict::Ok;
    }
    if matches_with_stem(0) {
        return NameVerdict::EmptyStem;
    }
    // why not (only used to key the violation signature)
    let why = if n.is_empty() {
        "empty"
    } else if n.contains(&b'/') {
        "slash"
    } else if n.iter().any(|c| *c >= 0x80) {
        "non-ascii"
    } else if n.iter().any(|c| *c < 0x20 || *c == 0x7F) {
        "control-char"
    } else if n.contains(&b'\\') {
        "backslash"
    } else if n.contains(&b'%') {
        "percent"
    } else if n.contains(&b' ') {
        "space"
    } else if dots.is_empty() {
        "no-dot"
    } else if dots.len() > 1 {
        "multiple-dots"
    } else {
        let p = dots[0];
        let (stem, ext) = (&n[..p], &n[p + 1..]);
        if !stem.iter().all(|c| stem_char(*c)) {
            "stem-char"
        } else if ext.len() != 3 {
            "ext-length"
        } else {
            "ext-non-letter"
        }
    };
    NameVerdict::Bad(why)
}

//------------ name generator ------------------------------------------------

const STEM_ALL: &[u8] = b"abcdefghijklmnopqrstuvwxyzABCDEFGHIJKLMNOPQRSTUVWXYZ0123456789-_";
const STEM_LOWER: &[u8] = b"abcdefghijklmnopqrstuvwxyz0123456789";
const LETTERS: &[u8] = b"abcdefghijklmnopqrstuvwxyzABCDEFGHIJKLMNOPQRSTUVWXYZ";
const KNOWN_EXT: &[&[u8]] = &[b"roa", b"cer", b"crl", b"mft", b"gbr", b"asa", b"sig", b"tak"];
/// The hostile alphabet of the design: `/ . \ % space NUL`, bytes >= 0x80, and
/// ordinary name characters so that near-valid strings come up.
const HOSTILE: &[u8] = b"/.\\% \0\x80\xff\xc3\xa9ab9-_Z.r/..o\t\r\n:~+*?#@";

fn rand_from(rng: &mut Rng, alphabet: &[u8], len: usize) -> Vec<u8> {
    (0..len).map(|_| *rng.pick(alphabet)).collect()
}

fn rand_ext(rng: &mut Rng) -> Vec<u8> {
    if rng.chance(2, 3) {
        rng.pick(KNOWN_EXT).to_vec()
    } else {
        rand_from(rng, LETTERS, 3)
    }
}

const VALID_SHAPES: &[&str] = &[
    "valid:plain",
    "valid:mixed-case-dash-underscore",
    "valid:single-char-stem",
    "valid:long-stem",
    "valid:max-1100",
    "valid:dashes-only-stem",
    "valid:digits-only-stem",
    "valid:upper-ext",
    "valid:hash-like-stem",
];

fn gen_valid(rng: &mut Rng, shape: &'static str, small: bool) -> Vec<u8> {
    let mut n = match shape {
        "valid:plain" => {
            let l = rng.range(1, 20) as usize;
            rand_from(rng, STEM_LOWER, l)
        }
        "valid:mixed-case-dash-underscore" => {
            if rng.chance(1, 4) {
                b"A-_9".to_vec()
            } else {
                let l = rng.range(1, 24) as usize;
                rand_from(rng, STEM_ALL, l)
            }
        }
        "valid:single-char-stem" => rand_from(rng, STEM_ALL, 1),
        "valid:long-stem" => {
            let hi = if small { 130 } else { 1000 };
            let l = rng.range(60, hi) as usize;
            rand_from(rng, STEM_ALL, l)
        }
        "valid:max-1100" => rand_from(rng, STEM_ALL, 1096),
        "valid:dashes-only-stem" => {
            let l = rng.range(1, 8) as usize;
            rand_from(rng, b"-_", l)
        }
        "valid:digits-only-stem" => {
            let l = rng.range(1, 12) as usize;
            rand_from(rng, b"0123456789", l)
        }
        "valid:upper-ext" => {
            let l = rng.range(1, 12) as usize;
            rand_from(rng, STEM_ALL, l)
        }
        _ => {
            // 27-character base64url-ish key identifier stems as used in the wild
            rand_from(rng, STEM_ALL, 27)
        }
    };
    n.push(b'.');
    match shape {
        "valid:upper-ext" => n.extend_from_slice(if rng.bool() { b"CER" } else { b"RoA" }),
        "valid:mixed-case-dash-underscore" if n == b"A-_9." => n.extend_from_slice(b"CER"),
        _ => n.extend(rand_ext(rng)),
    }
    n
}

const HOSTILE_SHAPES: &[&str] = &[
    "slash-inside",       // a/b.roa
    "slash-leading",      // /a.roa
    "slash-trailing",     // a.roa/
    "dotdot-prefix",      // ../x.cer
    "dotdot-only",        // ..
    "dot-only",           // .
    "dotdot-inside",      // a/../b.roa
    "double-dot",         // a..roa
    "two-dots",           // a.b.roa
    "trailing-dot",       // a.roa.
    "ext-2",              // a.ro
    "ext-1",              // a.r
    "ext-0",              // a.
    "ext-4",              // a.roaa
    "ext-digit",          // a.r0a
    "ext-dash",           // a.r-a
    "ext-underscore",     // a.r_a
    "no-dot",             // aroa
    "empty",              //
    "backslash",          // a\b.roa
    "percent-encoded",    // a%2fb.roa , %2e%2e%2fx.cer
    "space-inside",       // a b.roa
    "space-edge",         // " a.roa" / "a.roa "
    "nul-inside",         // a\0.roa
    "nul-after-ext",      // a.roa\0
    "high-byte",          // a\x80.roa
    "utf8",               // é.roa
    "control",            // a\r\n.roa
    "punctuation",        // a+b.roa a~b.roa a:b.roa ...
    "random-hostile",     // random over the hostile alphabet, 0..1100
    "long-with-slash",    // 1100 bytes with one slash
    "long-ext",           // a.<1000 letters>
    "near-valid-stem",    // valid name with one stem byte replaced
    "near-valid-ext",     // valid name with one extension byte replaced
    "absolute-uri",       // rsync://evil/m/x.roa
    "empty-stem",         // .roa (observation class, not hostile per statement)
];

fn gen_hostile(rng: &mut Rng, shape: &'static str, small: bool) -> Vec<u8> {
    let stem = |rng: &mut Rng| {
        let l = rng.range(1, 8) as usize;
        rand_from(rng, STEM_ALL, l)
    };
    let ext = |rng: &mut Rng| rand_ext(rng);
    let cat = |parts: &[&[u8]]| der::concat(parts);
    match shape {
        "slash-inside" => cat(&[&stem(rng), b"/", &stem(rng), b".", &ext(rng)]),
        "slash-leading" => cat(&[b"/", &stem(rng), b".", &ext(rng)]),
        "slash-trailing" => cat(&[&stem(rng), b".", &ext(rng), b"/"]),
        "dotdot-prefix" => {
            let ups = rng.range(1, 4) as usize;
            let mut v = Vec::new();
            for _ in 0..ups {
                v.extend_from_slice(b"../");
            }
            v.extend(cat(&[&stem(rng), b".", &ext(rng)]));
            v
        }
        "dotdot-only" => b"..".to_vec(),
        "dot-only" => b".".to_vec(),
        "dotdot-inside" => cat(&[&stem(rng), b"/../", &stem(rng), b".", &ext(rng)]),
        "double-dot" => cat(&[&stem(rng), b"..", &ext(rng)]),
        "two-dots" => cat(&[&stem(rng), b".", &stem(rng), b".", &ext(rng)]),
        "trailing-dot" => cat(&[&stem(rng), b".", &ext(rng), b"."]),
        "ext-2" => cat(&[&stem(rng), b".", &rand_from(rng, LETTERS, 2)]),
        "ext-1" => cat(&[&stem(rng), b".", &rand_from(rng, LETTERS, 1)]),
        "ext-0" => cat(&[&stem(rng), b"."]),
        "ext-4" => cat(&[&stem(rng), b".", &rand_from(rng, LETTERS, 4)]),
        "ext-digit" => {
            let mut e = ext(rng);
            e[rng.usize_below(3)] = *rng.pick(b"0123456789");
            cat(&[&stem(rng), b".", &e])
        }
        "ext-dash" => {
            let mut e = ext(rng);
            e[rng.usize_below(3)] = b'-';
            cat(&[&stem(rng), b".", &e])
        }
        "ext-underscore" => {
            let mut e = ext(rng);
            e[rng.usize_below(3)] = b'_';
            cat(&[&stem(rng), b".", &e])
        }
        "no-dot" => cat(&[&stem(rng), &ext(rng)]),
        "empty" => Vec::new(),
        "backslash" => {
            if rng.bool() {
                cat(&[&stem(rng), b"\\", &stem(rng), b".", &ext(rng)])
            } else {
                cat(&[b"..\\", &stem(rng), b".", &ext(rng)])
            }
        }
        "percent-encoded" => {
            if rng.bool() {
                cat(&[&stem(rng), b"%2f", &stem(rng), b".", &ext(rng)])
            } else {
                cat(&[b"%2e%2e%2f", &stem(rng), b".", &ext(rng)])
            }
        }
        "space-inside" => cat(&[&stem(rng), b" ", &stem(rng), b".", &ext(rng)]),
        "space-edge" => {
            if rng.bool() {
                cat(&[b" ", &stem(rng), b".", &ext(rng)])
            } else {
                cat(&[&stem(rng), b".", &ext(rng), b" "])
            }
        }
        "nul-inside" => cat(&[&stem(rng), b"\0", b".", &ext(rng)]),
        "nul-after-ext" => cat(&[&stem(rng), b".", &ext(rng), b"\0"]),
        "high-byte" => {
            let b = [rng.range(0x80, 0xFF) as u8];
            if rng.bool() {
                cat(&[&stem(rng), &b, b".", &ext(rng)])
            } else {
                let mut e = ext(rng);
                e[rng.usize_below(3)] = b[0];
                cat(&[&stem(rng), b".", &e])
            }
        }
        "utf8" => cat(&[&stem(rng), "é".as_bytes(), b".", &ext(rng)]),
        "control" => {
            let c: &[u8] = *rng.pick(&[&b"\r\n"[..], b"\t", b"\n", b"\x7f", b"\x1b"]);
            cat(&[&stem(rng), c, &stem(rng), b".", &ext(rng)])
        }
        "punctuation" => {
            let c = [*rng.pick(b"+~:*?#@!$&'()=,;<>[]^`{|}\"")];
            cat(&[&stem(rng), &c, &stem(rng), b".", &ext(rng)])
        }
        "random-hostile" => {
            let hi = if small { 40 } else { 1100 };
            let l = if rng.chance(3, 4) { rng.range(0, 12) } else { rng.range(0, hi) } as usize;
            rand_from(rng, HOSTILE, l)
        }
        "long-with-slash" => {
            let total = if small { 120 } else { 1100 };
            let mut v = rand_from(rng, STEM_ALL, total - 4);
            let p = rng.usize_below(v.len());
            v[p] = b'/';
            v.extend_from_slice(b".roa");
            v
        }
        "long-ext" => {
            let l = if small { 60 } else { rng.range(5, 1000) as usize };
            cat(&[&stem(rng), b".", &rand_from(rng, LETTERS, l)])
        }
        "near-valid-stem" => {
            let mut v = gen_valid(rng, "valid:plain", small);
            let p = rng.usize_below(v.len() - 4);
            v[p] = *rng.pick(b"/.\\% \0\x80\xff+~:");
            v
        }
        "near-valid-ext" => {
            let mut v = gen_valid(rng, "valid:plain", small);
            let l = v.len();
            let p = l - 1 - rng.usize_below(3);
            v[p] = *rng.pick(b"/.\\% \0\x80\xff0-_9");
            v
        }
        "absolute-uri" => cat(&[b"rsync://evil.example/m/", &stem(rng), b".", &ext(rng)]),
        _ => cat(&[b".", &ext(rng)]), // empty-stem
    }
}

//------------ times ---------------------------------------------------------

const TS_MIN: i64 = -62_135_596_800; // 0001-01-01T00:00:00Z
const TS_MAX: i64 = 253_402_300_799; // 9999-12-31T23:59:59Z

/// Days since 1970-01-01 to proleptic Gregorian (y, m, d). (H. Hinnant's algorithm.)
fn civil_from_days(z: i64) -> (i64, u32, u32) {
    let z = z + 719_468;
    let era = if z >= 0 { z } else { z - 146_096 } / 146_097;
    let doe = z - era * 146_097;
    let yoe = (doe - doe / 1460 + doe / 36_524 - doe / 146_096) / 365;
    let y = yoe + era * 400;
    let doy = doe - (365 * yoe + yoe / 4 - yoe / 100);
    let mp = (5 * doy + 2) / 153;
    let d = (doy - (153 * mp + 2) / 5 + 1) as u32;
    let m = if mp < 10 { mp + 3 } else { mp - 9 } as u32;
    (if m <= 2 { y + 1 } else { y }, m, d)
}

fn civil(ts: i64) -> (i64, u32, u32, u32, u32, u32) {
    let days = ts.div_euclid(86_400);
    let rem = ts.rem_euclid(86_400);
    let (y, m, d) = civil_from_days(days);
    (y, m, d, (rem / 3600) as u32, (rem % 3600 / 60) as u32, (rem % 60) as u32)
}

#[derive(Clone, Debug)]
struct TimeSpec {
    ts: i64,
    utc: bool,
    /// textual defect, None = well-formed
    defect: Option<&'static str>,
}

impl TimeSpec {
    fn text(&self) -> String {
        let (y, mo, d, h, mi, s) = civil(self.ts);
        let mut t = if self.utc {
            format!("{:02}{:02}{:02}{:02}{:02}{:02}Z", y % 100, mo, d, h, mi, s)
        } else {
            format!("{:04}{:02}{:02}{:02}{:02}{:02}Z", y, mo, d, h, mi, s)
        };
        match self.defect {
            None => {}
            Some("no-z") => {
                t.pop();
            }
            Some("fraction") => {
                t.pop();
                t.push_str(".5Z");
            }
            Some("offset") => {
                t.pop();
                t.push_str("+0000");
            }
            Some("month-13") => {
                let p = if self.utc { 2 } else { 4 };
                t.replace_range(p..p + 2, "13");
            }
            Some("day-00") => {
                let p = if self.utc { 4 } else { 6 };
                t.replace_range(p..p + 2, "00");
            }
            Some("feb-30") => {
                let p = if self.utc { 2 } else { 4 };
                t.replace_range(p..p + 4, "0230");
            }
            Some("hour-24") => {
                let p = if self.utc { 6 } else { 8 };
                t.replace_range(p..p + 2, "24");
            }
            Some("sec-61") => {
                let p = if self.utc { 10 } else { 12 };
                t.replace_range(p..p + 2, "61");
            }
            Some("short") => {
                t.truncate(t.len() - 3);
                t.push('Z');
            }
            Some("letters") => {
                let p = if self.utc { 2 } else { 4 };
                t.replace_range(p..p + 2, "Ja");
            }
            Some(_) => {
                t.clear();
            }
        }
        t
    }

    fn encode(&self) -> Vec<u8> {
        let t = self.text();
        if self.utc {
            der::utctime(&t)
        } else {
            der::gentime(&t)
        }
    }
}

const TIME_DEFECTS: &[&str] = &[
    "no-z", "fraction", "offset", "month-13", "day-00", "feb-30", "hour-24", "sec-61", "short", "letters", "empty",
];

const TIME_ANCHORS: &[i64] = &[
    TS_MIN,
    TS_MAX,
    0,
    -1,
    946_684_799,   // 1999-12-31T23:59:59
    946_684_800,   // 2000-01-01
    951_782_400,   // 2000-02-29
    1_709_251_199, // 2024-02-29T23:59:59
    2_147_483_647, // 2038-01-19T03:14:07
    2_147_483_648,
    2_524_607_999, // 2049-12-31T23:59:59 (UTCTime pivot)
    2_524_608_000, // 2050-01-01
    -631_152_000,  // 1950-01-01 (UTCTime pivot)
    -631_152_001,
    4_102_444_800, // 2100-01-01
    1_700_000_000,
];

fn gen_ts(rng: &mut Rng) -> i64 {
    match rng.below(4) {
        0 => {
            let a = *rng.pick(TIME_ANCHORS);
            (a + rng.range(0, 4) as i64 - 2).clamp(TS_MIN, TS_MAX)
        }
        1 => TS_MIN + rng.below((TS_MAX - TS_MIN) as u64 + 1) as i64,
        _ => 1_500_000_000 + rng.below(400_000_000) as i64, // 2017..2030
    }
}

//------------ case model ----------------------------------------------------

#[derive(Clone, Copy, Debug, PartialEq, Eq)]
enum NameEnc {
    Primitive,
    /// BER constructed IA5String of k OCTET STRING segments
    Segments(usize),
    /// other universal tag
    Tag(u8),
}

#[derive(Clone, Copy, Debug, PartialEq, Eq)]
enum HashEnc {
    BitString,
    /// a structural defect name
    Defect(&'static str),
}

#[derive(Clone, Copy, Debug, PartialEq, Eq)]
enum HashRel {
    Random,
    Match,
    BitFlip,
    Truncated,
    Extended,
    Empty,
    OtherData,
}

impl HashRel {
    fn label(self) -> &'static str {
        match self {
            HashRel::Random => "random",
            HashRel::Match => "match",
            HashRel::BitFlip => "one-bit-different",
            HashRel::Truncated => "truncated-prefix",
            HashRel::Extended => "match-plus-extra-octets",
            HashRel::Empty => "empty",
            HashRel::OtherData => "hash-of-other-data",
        }
    }
}

#[derive(Clone, Debug)]
struct Entry {
    name: Vec<u8>,
    shape: &'static str,
    name_enc: NameEnc,
    hash: Vec<u8>,
    unused: u8,
    hash_enc: HashEnc,
    /// data the hash is related to (None under Miri / for random hashes)
    data: Option<Vec<u8>>,
    rel: HashRel,
    /// entry-level structure: None, or a defect name
    defect: Option<&'static str>,
    indefinite: bool,
}

#[derive(Clone, Debug)]
struct Case {
    plan: &'static str,
    /// shape of the name the case is about
    focus: &'static str,
    focus_pos: &'static str,
    version: &'static str, // absent | explicit-0 | explicit-1 | explicit-0-ber-indef
    number: Vec<u8>,       // INTEGER content octets
    number_class: &'static str,
    this_update: TimeSpec,
    next_update: TimeSpec,
    time_order: &'static str,
    alg: &'static str,
    entries: Vec<Entry>,
    structure: Option<&'static str>,
    ber: Option<&'static str>,
    /// set by the object workload: EE certificate window and URIs, the instant
    /// of validation, the relation of the planted names (literal, for details)
    object: Option<Value>,
}

fn count_class(n: usize) -> &'static str {
    match n {
        0 => "0",
        1 => "1",
        2..=10 => "2-10",
        11..=100 => "11-100",
        101..=500 => "101-500",
        _ => "501-2000",
    }
}

fn hash_class(h: usize) -> &'static str {
    match h {
        0 => "0",
        1..=31 => "1-31",
        32 => "32",
        _ => "33-64",
    }
}

fn gen_count(rng: &mut Rng, stage: Stage) -> usize {
    let r = rng.below(1000);
    if stage == Stage::Miri {
        return match r {
            0..=99 => 0,
            100..=399 => 1,
            400..=899 => rng.range(2, 6) as usize,
            _ => rng.range(7, 14) as usize,
        };
    }
    match r {
        0..=59 => 0,
        60..=299 => 1,
        300..=749 => rng.range(2, 10) as usize,
        750..=959 => rng.range(11, 100) as usize,
        960..=993 => rng.range(101, 500) as usize,
        _ => rng.range(501, 2000) as usize,
    }
}

const NUMBER_CLASSES: &[&str] = &[
    "0", "1", "127", "128", "255", "256", "2^63", "2^64-1", "2^159-1", "2^159", "2^160-1", "2^160", "negative",
    "non-minimal", "empty-integer", "random-8", "random-20",
];

fn gen_number(rng: &mut Rng) -> (Vec<u8>, &'static str) {
    let class: &'static str = if rng.chance(1, 2) { *rng.pick(&["1", "random-8", "127", "256"]) } else { *rng.pick(NUMBER_CLASSES) };
    let content: Vec<u8> = match class {
        "0" => vec![0],
        "1" => vec![1],
        "127" => vec![0x7F],
        "128" => vec![0, 0x80],
        "255" => vec![0, 0xFF],
        "256" => vec![1, 0],
        "2^63" => {
            let mut v = vec![0, 0x80];
            v.extend_from_slice(&[0; 7]);
            v
        }
        "2^64-1" => {
            let mut v = vec![0];
            v.extend_from_slice(&[0xFF; 8]);
            v
        }
        "2^159-1" => {
            let mut v = vec![0x7F];
            v.extend_from_slice(&[0xFF; 19]);
            v
        }
        "2^159" => {
            let mut v = vec![0, 0x80];
            v.extend_from_slice(&[0; 19]);
            v
        }
        "2^160-1" => {
            let mut v = vec![0];
            v.extend_from_slice(&[0xFF; 20]);
            v
        }
        "2^160" => {
            let mut v = vec![1];
            v.extend_from_slice(&[0; 20]);
            v
        }
        "negative" => vec![0xFF],
        "non-minimal" => vec![0, 0x01],
        "empty-integer" => vec![],
        "random-8" => {
            let mut v = rng.bytes(8);
            v[0] &= 0x7F;
            if v[0] == 0 {
                v[0] = 1;
            }
            v
        }
        _ => {
            let mut v = rng.bytes(20);
            v[0] &= 0x7F;
            if v[0] == 0 {
                v[0] = 1;
            }
            v
        }
    };
    (content, class)
}

fn number_valid(class: &str) -> bool {
    // non-negative, at most 20 content octets (RFC 9286 / RFC 5280 "up to 20
    // octets"), minimally encoded
    !matches!(class, "2^159" | "2^160-1" | "2^160" | "negative" | "non-minimal" | "empty-integer")
}

fn gen_hash(rng: &mut Rng, with_data: bool, defects: bool) -> (Vec<u8>, u8, Option<Vec<u8>>, HashRel) {
    if with_data {
        let dl = *rng.pick(&[0usize, 1, 3, 55, 56, 63, 64, 65, 119, 200]);
        let data = rng.bytes(dl);
        let sha = sha256(&data);
        let rel = *rng.pick(&[
            HashRel::Match,
            HashRel::Match,
            HashRel::Match,
            HashRel::BitFlip,
            HashRel::BitFlip,
            HashRel::Truncated,
            HashRel::Extended,
            HashRel::Empty,
            HashRel::OtherData,
        ]);
        let hash = match rel {
            HashRel::Match => sha,
            HashRel::BitFlip => {
                let mut h = sha;
                let bit = rng.usize_below(256);
                h[bit / 8] ^= 1 << (bit % 8);
                h
            }
            HashRel::Truncated => {
                let l = *rng.pick(&[1usize, 16, 20, 31]);
                sha[..l].to_vec()
            }
            HashRel::Extended => {
                let extra = *rng.pick(&[1usize, 16, 32]);
                let mut h = sha;
                h.extend(rng.bytes(extra));
                h
            }
            HashRel::Empty => Vec::new(),
            _ => {
                let mut other = data.clone();
                other.push(0);
                sha256(&other)
            }
        };
        // unused bits: 0 for most; sometimes the largest count the last octet allows
        let unused = if rng.chance(1, 6) && !hash.is_empty() {
            let tz = hash[hash.len() - 1].trailing_zeros().min(7) as u8;
            if tz > 0 { rng.range(1, tz as u64) as u8 } else { 0 }
        } else {
            0
        };
        return (hash, unused, Some(data), rel);
    }
    // length 0..64, boundary-dense
    let l = match rng.below(10) {
        0 => 0,
        1 => rng.range(1, 31) as usize,
        2 => rng.range(33, 64) as usize,
        3 => *rng.pick(&[1usize, 20, 31, 33, 48, 64]),
        _ => 32,
    };
    let mut hash = rng.bytes(l);
    let mut unused = 0u8;
    if rng.chance(1, 5) {
        unused = rng.range(0, 7) as u8;
        match hash.last_mut() {
            // DER wants the unused bits to be zero and none for an empty string;
            // comply unless the manifest was chosen to carry hash defects
            Some(last) => {
                if !(defects && rng.chance(1, 3)) {
                    *last &= !((1u16 << unused) - 1) as u8;
                }
            }
            None => {
                if !defects {
                    unused = 0;
                }
            }
        }
    }
    (hash, unused, None, HashRel::Random)
}

fn hash_der_valid(e: &Entry) -> bool {
    if e.hash_enc != HashEnc::BitString || e.unused > 7 {
        return false;
    }
    if e.hash.is_empty() {
        return e.unused == 0;
    }
    let mask = ((1u16 << e.unused) - 1) as u8;
    e.hash[e.hash.len() - 1] & mask == 0
}

fn mk_entry(rng: &mut Rng, name: Vec<u8>, shape: &'static str, with_data: bool, defects: bool) -> Entry {
    let (hash, unused, data, rel) = gen_hash(rng, with_data, defects);
    Entry { name, shape, name_enc: NameEnc::Primitive, hash, unused, hash_enc: HashEnc::BitString, data, rel, defect: None, indefinite: false }
}

const ENTRY_DEFECTS: &[&str] = &[
    "name-tag-utf8", "name-tag-printable", "name-tag-octet", "hash-octet-string", "hash-missing", "entry-extra-element",
    "entry-swapped", "hash-constructed", "hash-no-unused-octet", "hash-unused-8", "entry-is-set",
];
const OUTER_DEFECTS: &[&str] = &["filelist-missing", "filelist-is-set", "trailing-in-sequence", "outer-is-set", "truncated", "entry-not-sequence"];
const BER_SHAPES: &[&str] = &[
    "indefinite-outer", "indefinite-filelist", "indefinite-entry", "indefinite-all", "non-minimal-length", "segmented-name",
    "segmented-name-hostile-split", "indefinite-version",
];

fn gen_case(rng: &mut Rng, stage: Stage, sha_ok: bool) -> Case {
    let small = stage == Stage::Miri;
    let n = gen_count(rng, stage);
    let plan: &'static str = match rng.below(100) {
        0..=49 => "all-valid",
        50..=84 => "one-hostile",
        85..=89 => "mixed-random",
        90..=93 => "structure-defect",
        94..=96 => "ber-shape",
        _ => "field-defect",
    };
    let mut entries: Vec<Entry> = Vec::with_capacity(n);
    let data_budget = if sha_ok { 3 } else { 0 };
    let mut with_data_left = data_budget;
    let dup = rng.chance(1, 12);
    // non-DER hash bit strings (non-zero unused bits, unused bits on an empty
    // string) only in a share of the manifests: one such entry sinks the lot
    let hash_defects = rng.chance(1, 16);
    for i in 0..n {
        let shape: &'static str = if small && rng.chance(1, 2) { "valid:plain" } else { *rng.pick(VALID_SHAPES) };
        // long names only now and then, they dominate the cost otherwise
        let shape = if (shape == "valid:max-1100" || shape == "valid:long-stem") && !rng.chance(1, 8) { "valid:plain" } else { shape };
        let name = if dup && i > 0 && rng.chance(1, 3) { entries[0].name.clone() } else { gen_valid(rng, shape, small) };
        let with_data = with_data_left > 0 && rng.chance(1, 2);
        if with_data {
            with_data_left -= 1;
        }
        entries.push(mk_entry(rng, name, shape, with_data, hash_defects));
    }
    let mut focus: &'static str = entries.first().map(|e| e.shape).unwrap_or("no-entries");
    let mut focus_pos: &'static str = "-";
    let mut structure = None;
    let mut ber = None;
    match plan {
        "one-hostile" => {
            let shape: &'static str = *rng.pick(HOSTILE_SHAPES);
            let name = gen_hostile(rng, shape, small);
            let e = mk_entry(rng, name, shape, false, false);
            if entries.is_empty() {
                entries.push(e);
                focus_pos = "only";
            } else {
                let (pos, label) = match rng.below(3) {
                    0 => (0, "first"),
                    1 => (entries.len() - 1, "last"),
                    _ => (rng.usize_below(entries.len()), "middle"),
                };
                entries[pos] = e;
                focus_pos = if entries.len() == 1 { "only" } else { label };
            }
            focus = shape;
        }
        "mixed-random" => {
            for e in entries.iter_mut() {
                if rng.chance(1, 3) {
                    let shape: &'static str = *rng.pick(HOSTILE_SHAPES);
                    e.name = gen_hostile(rng, shape, small);
                    e.shape = shape;
                }
            }
            focus = "mixed";
        }
        "structure-defect" => {
            if !entries.is_empty() && rng.chance(2, 3) {
                let d: &'static str = *rng.pick(ENTRY_DEFECTS);
                let pos = rng.usize_below(entries.len());
                let e = &mut entries[pos];
                match d {
                    "name-tag-utf8" => e.name_enc = NameEnc::Tag(der::T_UTF8),
                    "name-tag-printable" => e.name_enc = NameEnc::Tag(der::T_PRINTABLE),
                    "name-tag-octet" => e.name_enc = NameEnc::Tag(der::T_OCTETSTRING),
                    "hash-octet-string" | "hash-constructed" | "hash-no-unused-octet" => e.hash_enc = HashEnc::Defect(d),
                    "hash-unused-8" => e.unused = 8 + rng.below(248) as u8,
                    _ => e.defect = Some(d),
                }
                structure = Some(d);
            } else {
                structure = Some(*rng.pick(OUTER_DEFECTS));
            }
        }
        "ber-shape" => {
            let b: &'static str = *rng.pick(BER_SHAPES);
            ber = Some(b);
            match b {
                "indefinite-entry" | "indefinite-all" => {
                    for e in entries.iter_mut() {
                        e.indefinite = true;
                    }
                }
                "segmented-name" => {
                    for e in entries.iter_mut() {
                        if e.name.len() >= 2 {
                            e.name_enc = NameEnc::Segments(rng.range(1, 3) as usize);
                        }
                    }
                }
                "segmented-name-hostile-split" => {
                    // a hostile name hidden across segment boundaries: "a" "/" "b.roa"
                    let shape: &'static str = *rng.pick(&["slash-inside", "dotdot-prefix", "double-dot", "ext-4", "ext-2"]);
                    let name = gen_hostile(rng, shape, small);
                    let mut e = mk_entry(rng, name, shape, false, false);
                    e.name_enc = NameEnc::Segments(3);
                    focus = shape;
                    focus_pos = "segmented";
                    if entries.is_empty() {
                        entries.push(e);
                    } else {
                        let pos = rng.usize_below(entries.len());
                        entries[pos] = e;
                    }
                }
                _ => {}
            }
        }
        _ => {}
    }
    // header fields
    let mut version: &'static str = match rng.below(20) {
        0 => "explicit-0",
        _ => "absent",
    };
    let (mut number, mut number_class) = gen_number(rng);
    if plan != "field-defect" && !number_valid(number_class) {
        number = vec![1];
        number_class = "1";
    }
    let t1 = gen_ts(rng);
    let (this_ts, next_ts, mut time_order): (i64, i64, &'static str) = match rng.below(40) {
        0..=3 => (t1, t1, "equal"),
        4..=5 => (t1, (t1 + 1).min(TS_MAX), "next-1s-later"),
        6..=28 => {
            let d = *rng.pick(&[3600i64, 86_400, 7 * 86_400, 366 * 86_400]);
            (t1, (t1 + d).min(TS_MAX), "next-later")
        }
        29..=36 => {
            let t2 = gen_ts(rng);
            (t1.min(t2), t1.max(t2), "next-later-random")
        }
        37 => ((t1 + 1).min(TS_MAX), t1, "this-1s-after-next"),
        _ => {
            let t2 = gen_ts(rng);
            (t1.max(t2), t1.min(t2), "this-after-next")
        }
    };
    if this_ts == next_ts && time_order != "equal" {
        time_order = "equal";
    }
    let enc_utc = |rng: &mut Rng, ts: i64| -> bool {
        let y = civil(ts).0;
        (1950..=2049).contains(&y) && rng.chance(1, 6)
    };
    let mut this_update = TimeSpec { ts: this_ts, utc: enc_utc(rng, this_ts), defect: None };
    let mut next_update = TimeSpec { ts: next_ts, utc: enc_utc(rng, next_ts), defect: None };
    let mut alg: &'static str = "sha256";
    if plan == "field-defect" {
        match rng.below(5) {
            0 => version = *rng.pick(&["explicit-1", "explicit-0", "version-not-tagged"]),
            1 => { /* number boundary classes already in */ }
            2 => {
                let d: &'static str = *rng.pick(TIME_DEFECTS);
                if rng.bool() {
                    this_update.defect = Some(d);
                } else {
                    next_update.defect = Some(d);
                }
            }
            3 => alg = *rng.pick(&["sha1", "sha512", "sha256-in-sequence", "missing"]),
            _ => {}
        }
    }
    if ber == Some("indefinite-version") {
        version = "explicit-0-ber-indef";
    }
    Case {
        plan,
        focus,
        focus_pos,
        version,
        number,
        number_class,
        this_update,
        next_update,
        time_order,
        alg,
        entries,
        structure,
        ber,
        object: None,
    }
}

//------------ encoder -------------------------------------------------------

fn wrap(tag: u8, body: &[u8], indefinite: bool, nonminimal: bool) -> Vec<u8> {
    if indefinite {
        der::tlv_indefinite(tag, body)
    } else if nonminimal {
        let mut out = vec![tag];
        out.extend(der::len_bytes_padded(body.len(), 3));
        out.extend_from_slice(body);
        out
    } else {
        der::tlv(tag, body)
    }
}

fn split_points(len: usize, k: usize) -> Vec<usize> {
    // k segments of near-equal size (some may be empty when len < k)
    (0..=k).map(|i| len * i / k).collect()
}

fn encode_entry(e: &Entry, nonminimal: bool) -> Vec<u8> {
    let name = match e.name_enc {
        NameEnc::Primitive => der::ia5(&e.name),
        NameEnc::Tag(t) => der::tlv(t, &e.name),
        NameEnc::Segments(k) => {
            let pts = split_points(e.name.len(), k.max(1));
            let mut body = Vec::new();
            for w in pts.windows(2) {
                body.extend(der::octets(&e.name[w[0]..w[1]]));
            }
            der::tlv(der::T_IA5 | 0x20, &body)
        }
    };
    let hash = match e.hash_enc {
        HashEnc::BitString => der::bitstring(e.unused, &e.hash),
        HashEnc::Defect("hash-octet-string") => der::octets(&e.hash),
        HashEnc::Defect("hash-constructed") => der::tlv(der::T_BITSTRING | 0x20, &der::bitstring(e.unused, &e.hash)),
        HashEnc::Defect(_) => der::tlv(der::T_BITSTRING, &[]),
    };
    let body = match e.defect {
        None => der::concat(&[&name, &hash]),
        Some("hash-missing") => name.clone(),
        Some("entry-extra-element") => der::concat(&[&name, &hash, &der::null()]),
        Some("entry-swapped") => der::concat(&[&hash, &name]),
        Some(_) => der::concat(&[&name, &hash]),
    };
    let tag = if e.defect == Some("entry-is-set") { der::T_SET } else { der::T_SEQUENCE };
    wrap(tag, &body, e.indefinite, nonminimal)
}

fn encode_case(c: &Case) -> Vec<u8> {
    let nonminimal = c.ber == Some("non-minimal-length");
    let indef_outer = matches!(c.ber, Some("indefinite-outer") | Some("indefinite-all"));
    let indef_list = matches!(c.ber, Some("indefinite-filelist") | Some("indefinite-all"));
    let mut body = Vec::new();
    match c.version {
        "explicit-0" => body.extend(der::tlv(der::ctx(0), &der::uint(0))),
        "explicit-1" => body.extend(der::tlv(der::ctx(0), &der::uint(1))),
        "explicit-0-ber-indef" => body.extend(der::tlv_indefinite(der::ctx(0), &der::uint(0))),
        "version-not-tagged" => body.extend(der::uint(0)),
        _ => {}
    }
    body.extend(der::tlv(der::T_INTEGER, &c.number));
    body.extend(c.this_update.encode());
    body.extend(c.next_update.encode());
    match c.alg {
        "sha256" => body.extend(der::oid(der::OID_SHA256)),
        "sha1" => body.extend(der::oid(&[1, 3, 14, 3, 2, 26])),
        "sha512" => body.extend(der::oid(&[2, 16, 840, 1, 101, 3, 4, 2, 3])),
        "sha256-in-sequence" => body.extend(der::seq(&[&der::oid(der::OID_SHA256)])),
        _ => {}
    }
    let mut list = Vec::new();
    for e in &c.entries {
        list.extend(encode_entry(e, nonminimal));
    }
    if c.structure == Some("entry-not-sequence") {
        list.extend(der::ia5(b"x.roa"));
    }
    match c.structure {
        Some("filelist-missing") => {}
        Some("filelist-is-set") => body.extend(wrap(der::T_SET, &list, indef_list, nonminimal)),
        _ => body.extend(wrap(der::T_SEQUENCE, &list, indef_list, nonminimal)),
    }
    if c.structure == Some("trailing-in-sequence") {
        body.extend(der::null());
    }
    let tag = if c.structure == Some("outer-is-set") { der::T_SET } else { der::T_SEQUENCE };
    let mut out = wrap(tag, &body, indef_outer, nonminimal);
    if c.structure == Some("truncated") {
        let cut = 1 + (c.number.len() + c.entries.len()) % 7;
        let l = out.len().saturating_sub(cut);
        out.truncate(l);
    }
    out
}

/// What the statement's grammar says about the names of the case.
fn names_verdict(c: &Case) -> NameVerdict {
    let mut res = NameVerdict::Ok;
    for e in &c.entries {
        match judge_name(&e.name) {
            NameVerdict::Ok => {}
            NameVerdict::EmptyStem => {
                if res == NameVerdict::Ok {
                    res = NameVerdict::EmptyStem
                }
            }
            b => return b,
        }
    }
    res
}

/// First reason (in my model of RFC 9286 / DER) why a strict decoder would
/// refuse the case for something other than a name; None when there is none.
fn other_defect(c: &Case) -> Option<String> {
    if let Some(s) = c.structure {
        return Some(format!("structure:{s}"));
    }
    if let Some(b) = c.ber {
        return Some(format!("ber:{b}"));
    }
    if c.version != "absent" && c.version != "explicit-0" {
        return Some(format!("version:{}", c.version));
    }
    if !number_valid(c.number_class) {
        return Some(format!("number:{}", c.number_class));
    }
    if let Some(d) = c.this_update.defect.or(c.next_update.defect) {
        return Some(format!("time:{d}"));
    }
    if c.this_update.ts > c.next_update.ts {
        return Some("time:this-after-next".into());
    }
    if c.alg != "sha256" {
        return Some(format!("alg:{}", c.alg));
    }
    for e in &c.entries {
        if !hash_der_valid(e) {
            return Some("hash:der-invalid-bitstring".into());
        }
    }
    None
}

//------------ independent CMS wrapper ---------------------------------------

struct Cms {
    pool: PoolSigner,
    ee_cert: Vec<u8>,
    ski: Vec<u8>,
    ta: Option<ResourceCert>,
    ta_strict: Option<ResourceCert>,
}

fn cms_now() -> Time {
    Time::utc(2030, 6, 1, 0, 0, 0)
}

impl Cms {
    fn new(ctx: &mut Ctx) -> Option<Cms> {
        let pool = PoolSigner::new(2);
        let issuer = pool.info(0);
        let ee = pool.info(1);
        let validity = Validity::new(Time::utc(2020, 1, 1, 0, 0, 0), Time::utc(2040, 1, 1, 0, 0, 0));
        let repo = Rsync::from_str("rsync://example.net/repo/ca/").unwrap();
        let mft = Rsync::from_str("rsync://example.net/repo/ca/ca.mft").unwrap();
        let crl = Rsync::from_str("rsync://example.net/repo/ca/ca.crl").unwrap();
        let ta_uri = Rsync::from_str("rsync://example.net/repo/ta.cer").unwrap();
        // EE certificate (library builder, pool keys)
        let built = catch(|| {
            let mut tbs = TbsCert::new(Serial::from(7u64), issuer.to_subject_name(), validity, None, ee.clone(), KeyUsage::Ee, Overclaim::Refuse);
            tbs.set_authority_key_identifier(Some(issuer.key_identifier()));
            tbs.set_crl_uri(Some(crl.clone()));
            tbs.set_ca_issuer(Some(ta_uri.clone()));
            tbs.set_signed_object(Some(mft.clone()));
            tbs.set_v4_resources_inherit();
            tbs.set_v6_resources_inherit();
            tbs.set_as_resources_inherit();
            let ee_cert = tbs.into_cert(&pool, &0usize).map(|c| c.to_captured().into_bytes().to_vec());
            // self-signed CA certificate used as trust anchor for the validation observation
            let mut ca = TbsCert::new(Serial::from(1u64), issuer.to_subject_name(), validity, None, issuer.clone(), KeyUsage::Ca, Overclaim::Refuse);
            ca.set_basic_ca(Some(true));
            ca.set_ca_repository(Some(repo.clone()));
            ca.set_rpki_manifest(Some(mft.clone()));
            ca.build_v4_resource_blocks(|b| b.push(rpki::repository::resources::Prefix::new(0, 0)));
            ca.build_v6_resource_blocks(|b| b.push(rpki::repository::resources::Prefix::new(0, 0)));
            ca.build_as_resource_blocks(|b| b.push((rpki::repository::resources::Asn::MIN, rpki::repository::resources::Asn::MAX)));
            let ca = ca.into_cert(&pool, &0usize);
            (ee_cert, ca)
        });
        let (ee_cert, ca) = match built {
            Ok((Ok(ee_cert), ca)) => (ee_cert, ca.ok()),
            Ok((Err(e), _)) => {
                ctx.notes.push(format!("C14: could not issue the EE certificate for the signed-manifest path: {e}"));
                return None;
            }
            Err(p) => {
                ctx.notes.push(format!("C14: issuing the EE certificate panicked ({p}); signed-manifest path skipped"));
                return None;
            }
        };
        let tal = |strict: bool, ca: &Option<rpki::repository::cert::Cert>| -> Option<ResourceCert> {
            let ca = ca.clone()?;
            catch(|| ca.validate_ta_at(TalInfo::from_name("c14".into()).into_arc(), strict, cms_now()).ok()).ok().flatten()
        };
        let ta = tal(false, &ca);
        let ta_strict = tal(true, &ca);
        let ski = sha1(ee.bits());
        Some(Cms { pool, ee_cert, ski, ta, ta_strict })
    }

    /// RFC 6488 SignedData around `econtent`; all bytes from `crate::der`,
    /// signature from aws-lc-rs. Signed attributes are 107 octets.
    fn wrap(&self, econtent: &[u8], variant: &'static str) -> Vec<u8> {
        self.wrap_with(&self.ee_cert, econtent, variant)
    }

    /// The same around any EE certificate that carries pool key 1.
    fn wrap_with(&self, ee_cert: &[u8], econtent: &[u8], variant: &'static str) -> Vec<u8> {
        let ct_oid: &[u64] = if variant == "wrong-content-type" { der::OID_CT_ROA } else { der::OID_CT_MANIFEST };
        let digest = sha256(econtent);
        let attr = |oid: &[u64], value: Vec<u8>| der::seq(&[&der::oid(oid), &der::tlv(der::T_SET, &value)]);
        let attrs = vec![
            attr(der::OID_CONTENT_TYPE, der::oid(ct_oid)),
            attr(der::OID_SIGNING_TIME, der::utctime("250101000000Z")),
            attr(der::OID_MESSAGE_DIGEST, der::octets(&digest)),
        ];
        let set = der::set_of_sorted(&attrs); // 0x31 len body — what is signed
        let body = &set[2..];
        debug_assert!(set[1] < 0x80);
        let signature = self.pool.key(1).sign_raw(&set);
        let signed_attrs = der::tlv(der::ctx(0), body);
        let digest_alg = if variant == "digest-alg-null" {
            der::seq(&[&der::oid(der::OID_SHA256), &der::null()])
        } else {
            der::seq(&[&der::oid(der::OID_SHA256)])
        };
        let sig_alg_oid = if variant == "sha256-with-rsa" { der::OID_SHA256_WITH_RSA } else { der::OID_RSA_ENCRYPTION };
        let signer_info = der::seq(&[
            &der::uint(3),
            &der::tlv(der::ctx_prim(0), &self.ski),
            &digest_alg,
            &signed_attrs,
            &der::seq(&[&der::oid(sig_alg_oid), &der::null()]),
            &der::octets(&signature),
        ]);
        let econtent_os = if variant == "segmented-econtent" {
            // BER: constructed OCTET STRING in three segments (relaxed mode only)
            let pts = split_points(econtent.len(), 3);
            let mut b = Vec::new();
            for w in pts.windows(2) {
                b.extend(der::octets(&econtent[w[0]..w[1]]));
            }
            der::tlv(der::T_OCTETSTRING | 0x20, &b)
        } else {
            der::octets(econtent)
        };
        let encap = der::seq(&[&der::oid(ct_oid), &der::tlv(der::ctx(0), &econtent_os)]);
        let signed_data = der::seq(&[
            &der::uint(3),
            &der::tlv(der::T_SET, &digest_alg),
            &encap,
            &der::tlv(der::ctx(0), ee_cert),
            &der::tlv(der::T_SET, &signer_info),
        ]);
        der::seq(&[&der::oid(der::OID_SIGNED_DATA), &der::tlv(der::ctx(0), &signed_data)])
    }
}

const CMS_VARIANTS: &[&str] = &["plain", "plain", "plain", "plain", "digest-alg-null", "sha256-with-rsa", "segmented-econtent", "wrong-content-type"];

//------------ bases ---------------------------------------------------------

const BASES: &[(&str, &str)] = &[
    ("rsync://example.net/repo/", "module-root"),
    ("rsync://example.net/repo/ca", "one-level-no-slash"),
    ("rsync://example.net/repo/ca/", "one-level-slash"),
    ("rsync://EXAMPLE.net:873/Mod-1/a/b/c/d", "nested-no-slash"),
    ("rsync://rpki.example.org/m/x.y/z_1/~u/0/", "nested-slash"),
    ("rsync://h/m/ca.mft", "file-like-no-slash"),
    ("RSYNC://h/m/a.b/", "upper-scheme-dotted-dir"),
];

//------------ oracle on a decoded manifest ----------------------------------

/// Lossy text of a name, shortened for messages.
fn show(name: &[u8]) -> String {
    let t = String::from_utf8_lossy(name);
    if t.chars().count() <= 80 {
        t.to_string()
    } else {
        format!("{}… ({} octets)", t.chars().take(60).collect::<String>(), name.len())
    }
}

fn error_key(text: &str) -> String {
    let t = text.split(" (at position").next().unwrap_or(text);
    t.chars().take(70).collect()
}

fn case_detail(c: &Case, econtent: &[u8], path: &str) -> Value {
    let focus_name = c.entries.iter().find(|e| e.shape == c.focus).map(|e| hex(&e.name));
    json!({
        "path": path,
        "plan": c.plan,
        "focus_shape": c.focus,
        "focus_name_hex": focus_name,
        "entries": c.entries.len(),
        "time_order": c.time_order,
        "this_update": c.this_update.text(),
        "next_update": c.next_update.text(),
        "ber": c.ber,
        "structure": c.structure,
        "object": c.object,
        "econtent_hex": if econtent.len() <= 3000 { hex(econtent) } else { format!("{}… ({} octets)", hex(&econtent[..600]), econtent.len()) },
    })
}

struct Counters {
    evals: u64,
}

/// Which entry point handed the content over; part of the violation signature
/// for everything that is not the plain decode result (whose signatures stay as
/// they always were).
fn path_suffix(path: &str) -> &'static str {
    if let Some(door) = doors::suffix(path) {
        return door;
    }
    if path.contains("validated") {
        ":content-returned-by-validation"
    } else if path.contains("serde") {
        ":after-serde-round-trip"
    } else if path.contains("recaptured") || path.contains("reencoded") {
        ":after-re-encoding"
    } else if path.contains("sigobj") {
        ":via-signed-object"
    } else if path.contains("view") {
        ":through-a-view-or-clone"
    } else {
        ""
    }
}

/// All checks the statement makes about a decoded manifest.
fn check_content(ctx: &mut Ctx, k: &mut Counters, content: &ManifestContent, c: &Case, econtent: &[u8], path: &str, verify: bool) {
    check_content_ext(ctx, k, content, c, econtent, path, verify, &[], BASES.len())
}

/// The same with additional base URIs (tried first, all of them) and a bound on
/// the number of standard bases.
#[allow(clippy::too_many_arguments)]
fn check_content_ext(
    ctx: &mut Ctx,
    k: &mut Counters,
    content: &ManifestContent,
    c: &Case,
    econtent: &[u8],
    path: &str,
    verify: bool,
    extra_bases: &[(String, &'static str)],
    max_bases: usize,
) {
    let sfx = path_suffix(path);
    // (the door is part of the panic signatures as well; the older paths keep theirs)
    let door_sfx = doors::suffix(path).unwrap_or("");
    let limit = c.entries.len() + content.len() + 8;
    // --- names, len, entries
    let listed = ctx.no_panic(&format!("iter{door_sfx}"), || case_detail(c, econtent, path), || {
        content.iter().take(limit).map(|e| e.into_pair()).collect::<Vec<(Bytes, Bytes)>>()
    });
    let Some(listed) = listed else { return };
    k.evals += 1;
    if listed.len() != content.len() {
        ctx.violation(
            &format!("C14:len-differs-from-iter-count{sfx}"),
            &format!("len() = {} but iter() yields {}{} entries", content.len(), if listed.len() == limit { "at least " } else { "" }, listed.len()),
            case_detail(c, econtent, path),
        );
    }
    if content.is_empty() != (content.len() == 0) {
        ctx.obs("is_empty_disagrees_with_len", 1);
    }
    let mut empty_stems = 0u64;
    for (i, (name, _)) in listed.iter().enumerate() {
        k.evals += 1;
        match judge_name(name) {
            NameVerdict::Ok => {}
            NameVerdict::EmptyStem => {
                empty_stems += 1;
                ctx.sample("observation:empty-stem-accepted", || json!({"name": String::from_utf8_lossy(name), "index": i, "path": path, "note": "RFC 9286 forbids an empty stem; the statement's wording does not clearly; counted, not asserted"}));
            }
            NameVerdict::Bad(why) => {
                let mut d = case_detail(c, econtent, path);
                d["accepted_name_hex"] = json!(hex(name));
                d["accepted_name"] = json!(String::from_utf8_lossy(name));
                d["index"] = json!(i);
                ctx.violation(
                    &format!("C14:name-accepted:{why}{sfx}"),
                    &format!("decoded manifest lists the name {:?} which is not <stem>.<3 letters> ({why})", show(name)),
                    d,
                );
            }
        }
    }
    if empty_stems > 0 {
        ctx.obs("empty_stem_names_accepted", empty_stems);
    }
    // the iterator yields what was encoded (only comparable when the entry
    // structure itself was encoded regularly)
    let regular = c.entries.iter().all(|e| e.defect.is_none() && e.hash_enc == HashEnc::BitString) && c.structure.is_none();
    if regular {
        k.evals += 1;
        let same = listed.len() == c.entries.len() && listed.iter().zip(c.entries.iter()).all(|((n, h), e)| n.as_ref() == e.name.as_slice() && h.as_ref() == e.hash.as_slice());
        if !same && listed.len() == c.entries.len() {
            let idx = listed.iter().zip(c.entries.iter()).position(|((n, h), e)| n.as_ref() != e.name.as_slice() || h.as_ref() != e.hash.as_slice());
            let mut d = case_detail(c, econtent, path);
            d["index"] = json!(idx);
            ctx.violation(&format!("C14:iter-entry-differs-from-encoded{sfx}"), "iter() yields a name or hash different from the encoded entry", d);
        } else if !same {
            let mut d = case_detail(c, econtent, path);
            d["encoded_entries"] = json!(c.entries.len());
            d["yielded"] = json!(listed.len());
            ctx.violation(&format!("C14:iter-count-differs-from-encoded{sfx}"), "iter() yields a different number of entries than were encoded", d);
        }
    }
    // --- times
    k.evals += 1;
    let lib_order_ok = content.this_update() <= content.next_update();
    let enc_order_ok = c.this_update.ts <= c.next_update.ts;
    if !lib_order_ok || (!enc_order_ok && c.this_update.defect.is_none() && c.next_update.defect.is_none()) {
        ctx.violation(
            &format!("C14:this-update-after-next-update{sfx}"),
            &format!(
                "content reports this_update {} and next_update {} (encoded thisUpdate {}, nextUpdate {})",
                content.this_update().to_rfc3339(),
                content.next_update().to_rfc3339(),
                c.this_update.text(),
                c.next_update.text()
            ),
            {
                let mut d = case_detail(c, econtent, path);
                d["reported_this_update"] = json!(content.this_update().to_rfc3339());
                d["reported_next_update"] = json!(content.next_update().to_rfc3339());
                d
            },
        );
    }
    if c.this_update.defect.is_none() && c.next_update.defect.is_none() {
        if content.this_update().timestamp() != c.this_update.ts || content.next_update().timestamp() != c.next_update.ts {
            ctx.obs("decoded_time_differs_from_encoded", 1);
        }
    }
    // --- URIs
    let nb = if listed.len() > 100 { 2 } else { max_bases.min(BASES.len()) };
    let first = (econtent.len() + listed.len()) % BASES.len();
    let n_extra = if listed.len() > 100 { extra_bases.len().min(2) } else { extra_bases.len() };
    let rot = if extra_bases.is_empty() { 0 } else { econtent.len() % extra_bases.len() };
    let mut bases: Vec<(&str, &'static str)> = Vec::with_capacity(nb + n_extra);
    for j in 0..n_extra {
        let (t, s) = &extra_bases[(rot + j) % extra_bases.len()];
        bases.push((t.as_str(), *s));
    }
    for bi in 0..nb {
        bases.push(BASES[(first + bi) % BASES.len()]);
    }
    for (bi, (base_text, base_shape)) in bases.into_iter().enumerate() {
        let base = match Rsync::from_str(base_text) {
            Ok(b) => b,
            Err(_) => {
                ctx.obs("base_uri_rejected", 1);
                continue;
            }
        };
        let mut dir = base_text.as_bytes().to_vec();
        if !dir.ends_with(b"/") {
            dir.push(b'/');
        }
        let uris = ctx.no_panic(&format!("iter_uris{door_sfx}"), || {
            let mut d = case_detail(c, econtent, path);
            d["base"] = json!(base_text);
            d
        }, || content.iter_uris(&base).take(limit).collect::<Vec<(Rsync, ManifestHash)>>());
        let Some(uris) = uris else { continue };
        k.evals += 1;
        if uris.len() != content.len() {
            ctx.violation(
                &format!("C14:iter-uris-count-differs-from-len{sfx}"),
                &format!("iter_uris({base_text}) yields {} items, len() = {}, iter() yields {}", uris.len(), content.len(), listed.len()),
                {
                    let mut d = case_detail(c, econtent, path);
                    d["base"] = json!(base_text);
                    d
                },
            );
        }
        let dir_uri = Rsync::from_slice(&dir).ok();
        let auth_end = 8 + dir[8..].iter().position(|c| *c == b'/').unwrap_or(0);
        // item i of iter_uris belongs to item i of iter only when both have the
        // same number of items (a difference has been reported just above)
        let same_count = uris.len() == listed.len();
        for (i, (uri, mh)) in uris.iter().enumerate() {
            k.evals += 1;
            let got = uri.as_slice();
            let name: &[u8] = listed.get(i).map(|p| p.0.as_ref()).unwrap_or(b"");
            let fail = |ctx: &mut Ctx, sig: &str, what: &str| {
                let mut d = case_detail(c, econtent, path);
                d["base"] = json!(base_text);
                d["uri"] = json!(String::from_utf8_lossy(got));
                d["name"] = json!(String::from_utf8_lossy(name));
                d["index"] = json!(i);
                ctx.violation(&format!("{sig}{sfx}"), &format!("{what}: base {base_text}, name {:?}, uri {:?}", show(name), show(got)), d);
            };
            // directly inside the directory, judged on the bytes alone
            // (scheme and authority compare case-insensitively, the path exactly)
            let inside = got.len() > dir.len() && got[..auth_end].eq_ignore_ascii_case(&dir[..auth_end]) && got[auth_end..dir.len()] == dir[auth_end..] && {
                let rest = &got[dir.len()..];
                !rest.contains(&b'/') && rest != b"." && rest != b".."
            };
            if !inside {
                fail(ctx, "C14:uri-outside-base-directory", "iter_uris yielded a URI that is not directly inside the base directory");
                continue;
            }
            if same_count && &got[dir.len()..] != name {
                fail(ctx, "C14:uri-is-not-base-plus-name", "iter_uris yielded a URI whose last segment is not the listed name");
            }
            match (uri.parent(), &dir_uri) {
                (Some(p), Some(d)) if p == *d => {}
                _ => fail(ctx, "C14:uri-parent-is-not-base-directory", "parent() of a yielded URI is not the directory form of the base"),
            }
            match Rsync::from_slice(got) {
                Ok(again) if again == *uri && again.as_slice() == got => {}
                _ => fail(ctx, "C14:uri-does-not-reparse", "a yielded URI does not re-parse to an equal URI"),
            }
            if let Some((_, h)) = listed.get(i).filter(|_| same_count) {
                if mh.as_slice() != h.as_ref() {
                    fail(ctx, "C14:iter-uris-hash-differs", "iter_uris yields a hash different from iter()");
                }
            }
            // --- hash verification (first base only)
            // (only for an entry that is the encoded entry of the same index: when
            // the list differs from what was encoded that has been reported above,
            // and the relation between hash and data is not known any more)
            if verify && bi == 0 && regular && same_count {
                let aligned = |e: &Entry| listed.get(i).map(|(n, h)| n.as_ref() == e.name.as_slice() && h.as_ref() == e.hash.as_slice()).unwrap_or(false);
                if let Some(e) = c.entries.get(i).filter(|e| aligned(e)) {
                    if let Some(data) = &e.data {
                        k.evals += 1;
                        check_verify(ctx, mh, &e.hash, e.unused, data, e.rel, "manifest-entry");
                    }
                }
            }
        }
        ctx.sig(&format!("uris base={base_shape} n={} focus={}", count_class(listed.len()), c.focus));
        if !uris.is_empty() {
            ctx.sample("uris", || json!({"base": base_text, "first_uri": uris[0].0.as_str(), "entries": uris.len(), "path": path}));
        }
    }
}

/// `verify(data)` is Ok exactly when the listed octets are SHA-256(data).
fn check_verify(ctx: &mut Ctx, mh: &ManifestHash, listed: &[u8], unused: u8, data: &[u8], rel: HashRel, origin: &str) {
    let truth = sha256(data);
    let equal = listed == truth.as_slice();
    let got = catch(|| mh.verify(data).is_ok());
    let detail = || json!({"origin": origin, "hash_hex": hex(listed), "unused_bits": unused, "data_hex": hex(data), "sha256_of_data": hex(&truth), "relation": rel.label()});
    match got {
        Err(p) => {
            let sig = format!("C14:panic:hash-verify:{}", panic_location(&p));
            ctx.violation(&sig, &format!("ManifestHash::verify panicked: {p}"), detail());
        }
        Ok(true) if !equal => {
            ctx.violation(
                &format!("C14:hash-verify-accepts-mismatch:{}", rel.label()),
                "ManifestHash::verify returned Ok although the listed hash is not the SHA-256 of the data",
                detail(),
            );
        }
        Ok(false) if equal && unused == 0 => {
            ctx.violation("C14:hash-verify-rejects-match", "ManifestHash::verify returned Err although the listed hash is the SHA-256 of the data", detail());
        }
        Ok(false) if equal => ctx.obs("verify_rejects_match_with_unused_bits", 1),
        Ok(ok) => {
            ctx.obs(if ok { "verify_ok" } else { "verify_mismatch" }, 1);
        }
    }
    ctx.sig(&format!("verify origin={origin} rel={} hash={} data-len={} unused={}", rel.label(), hash_class(listed.len()), data.len(), unused.min(1)));
    if equal {
        ctx.sample("verify-ok", || detail());
    } else {
        ctx.sample("verify-mismatch", || detail());
    }
}

//------------ names related to the object, content handed back by validation --
//
// Second workload (native and ASan stages). The manifest is tied to its own
// signed object: the EE certificate is issued per case with chosen URIs (SIA
// signedObject, CRL distribution point, AIA caIssuers) and a chosen validity
// window, the file list contains names taken from those URIs, and the window is
// placed before / around / inside / after thisUpdate..nextUpdate. Every entry
// point that hands out a `ManifestContent` is then held to the same laws.

const DAY: i64 = 86_400;
const YEAR: i64 = 366 * DAY;
/// 2024-01-01 and 2124-01-01: the EE window of the cases that go through the
/// entry points reading the clock themselves (`validate`, `process`).
const WALL_NB: i64 = 1_704_067_200;
const WALL_NA: i64 = 4_859_740_800;

const REL_KINDS: &[&str] = &[
    "none",
    "self",
    "self",
    "self-only",
    "self-twice",
    "self-everywhere",
    "self-case-variant",
    "self+case-variant",
    "near-self",
    "crl",
    "crl-case-variant",
    "issuer",
    "self+crl",
    "self+crl+issuer",
    "uri-directory-segment",
    "uri-module",
    "uri-authority",
];

const WINDOW_KINDS: &[&str] = &[
    "covering",
    "equal",
    "inside",
    "before",
    "before-by-1s",
    "ends-at-this-update",
    "overlaps-start",
    "overlaps-end",
    "starts-at-next-update",
    "after-by-1s",
    "after",
    "single-instant-at-this-update",
    "wall-clock:manifest-inside-ee",
    "wall-clock:manifest-before-ee",
    "wall-clock:manifest-after-ee",
    "wall-clock:manifest-overlaps-ee-start",
    "wall-clock:manifest-overlaps-ee-end",
];

struct ObjSpec {
    rel: &'static str,
    pos: &'static str,
    window: &'static str,
    mft_uri: String,
    crl_uri: String,
    aia_uri: String,
    nb: i64,
    na: i64,
    /// instants inside the EE window at which validation is tried
    nows: Vec<(i64, &'static str)>,
    wall_clock: bool,
    /// names planted into the file list (literal, for the detail)
    planted: Vec<String>,
}

fn time_of(ts: i64) -> Time {
    Time::new(chrono::DateTime::<chrono::Utc>::from_timestamp(ts, 0).expect("timestamp in range"))
}

fn iso(ts: i64) -> String {
    let (y, mo, d, h, mi, s) = civil(ts);
    format!("{y:04}-{mo:02}-{d:02}T{h:02}:{mi:02}:{s:02}Z")
}

/// A valid name of moderate length for use as the last segment of a URI.
fn gen_segment(rng: &mut Rng, usual_ext: &[u8]) -> Vec<u8> {
    let shape: &'static str = *rng.pick(&[
        "valid:plain",
        "valid:plain",
        "valid:mixed-case-dash-underscore",
        "valid:single-char-stem",
        "valid:dashes-only-stem",
        "valid:digits-only-stem",
        "valid:upper-ext",
        "valid:hash-like-stem",
        "valid:long-stem",
    ]);
    let mut n = gen_valid(rng, shape, true);
    if rng.chance(3, 4) {
        let l = n.len();
        n[l - 3..].copy_from_slice(usual_ext);
        if rng.chance(1, 5) {
            for b in n[l - 3..].iter_mut() {
                if rng.bool() {
                    *b = b.to_ascii_uppercase();
                }
            }
        }
    }
    n
}

/// The same name with the case of letters changed (at least one).
fn case_variant(rng: &mut Rng, name: &[u8]) -> Vec<u8> {
    let mut v = name.to_vec();
    let flip = |b: &mut u8| {
        if b.is_ascii_lowercase() {
            *b = b.to_ascii_uppercase()
        } else if b.is_ascii_uppercase() {
            *b = b.to_ascii_lowercase()
        }
    };
    match rng.below(3) {
        0 => v.iter_mut().for_each(flip),
        1 => {
            // extension only
            let l = v.len();
            v[l - 3..].iter_mut().for_each(flip)
        }
        _ => {
            // one letter (the extension always has letters)
            let idx: Vec<usize> = (0..v.len()).filter(|i| v[*i].is_ascii_alphabetic()).collect();
            let i = *rng.pick(&idx);
            flip(&mut v[i]);
        }
    }
    v
}

/// A valid name one edit away from `name`.
fn near_variant(rng: &mut Rng, name: &[u8]) -> Vec<u8> {
    let mut v = name.to_vec();
    let stem = v.len() - 4;
    match rng.below(4) {
        0 => v.insert(0, *rng.pick(STEM_ALL)),
        1 if stem > 1 => {
            v.remove(0);
        }
        2 => v.insert(stem, *rng.pick(STEM_ALL)),
        _ => {
            let l = v.len();
            let p = l - 1 - rng.usize_below(3);
            let mut nb = *rng.pick(LETTERS);
            while nb == v[p] {
                nb = *rng.pick(LETTERS);
            }
            v[p] = nb;
        }
    }
    v
}

fn text(b: &[u8]) -> String {
    String::from_utf8_lossy(b).to_string()
}

/// Builds the case and the description of its signed object.
fn gen_object_case(rng: &mut Rng, stage: Stage) -> (Case, ObjSpec) {
    // a manifest that the statement's grammar accepts ...
    let mut c = loop {
        let c = gen_case(rng, stage, true);
        if c.plan == "all-valid" && c.entries.len() <= 600 {
            break c;
        }
    };
    c.plan = "object";
    c.version = if rng.chance(1, 20) { "explicit-0" } else { "absent" };
    // ... now and then with one hostile name, so that refusals stay in view
    let hostile = rng.chance(1, 12);

    // --- the URIs of the EE certificate and the names related to them
    let rel: &'static str = *rng.pick(REL_KINDS);
    let mft_seg = gen_segment(rng, b"mft");
    let crl_seg = gen_segment(rng, b"crl");
    let aia_seg = gen_segment(rng, b"cer");
    let uri_ext: &[u8] = *rng.pick(KNOWN_EXT);
    let uri_seg = gen_segment(rng, uri_ext);
    let host: &str = if rel == "uri-authority" {
        *rng.pick(&["example.net", "rpki.net", "a-1.org", "EXAMPLE.NET", "h_0.com", "Rpki.Org"])
    } else {
        *rng.pick(&["example.net", "rpki.example.org", "h"])
    };
    let dir = match rel {
        "uri-directory-segment" => format!("rsync://{host}/repo/{}/", text(&uri_seg)),
        "uri-module" => format!("rsync://{host}/{}/ca/", text(&uri_seg)),
        _ => (*rng.pick(&["rsync://{h}/repo/ca/", "rsync://{h}/m/", "rsync://{h}/Mod-1/a/b.c/d_e/"])).replace("{h}", host),
    };
    let mft_uri = format!("{dir}{}", text(&mft_seg));
    let crl_uri = if rng.chance(1, 4) { format!("rsync://{host}/other/{}", text(&crl_seg)) } else { format!("{dir}{}", text(&crl_seg)) };
    let aia_uri = format!("rsync://{host}/repo/{}", text(&aia_seg));

    let mut planted: Vec<(Vec<u8>, &'static str)> = Vec::new();
    match rel {
        "self" | "self-only" => planted.push((mft_seg.clone(), "related:self")),
        "self-twice" => {
            planted.push((mft_seg.clone(), "related:self"));
            planted.push((mft_seg.clone(), "related:self"));
            if rng.chance(1, 3) {
                planted.push((mft_seg.clone(), "related:self"));
            }
        }
        "self-everywhere" => {
            let n = c.entries.len().clamp(2, 40);
            for _ in 0..n {
                planted.push((mft_seg.clone(), "related:self"));
            }
        }
        "self-case-variant" => planted.push((case_variant(rng, &mft_seg), "related:self-case-variant")),
        "self+case-variant" => {
            planted.push((mft_seg.clone(), "related:self"));
            planted.push((case_variant(rng, &mft_seg), "related:self-case-variant"));
            if rng.bool() {
                planted.swap(0, 1);
            }
        }
        "near-self" => planted.push((near_variant(rng, &mft_seg), "related:near-self")),
        "crl" => planted.push((crl_seg.clone(), "related:crl")),
        "crl-case-variant" => planted.push((case_variant(rng, &crl_seg), "related:crl-case-variant")),
        "issuer" => planted.push((aia_seg.clone(), "related:issuer")),
        "self+crl" => {
            planted.push((mft_seg.clone(), "related:self"));
            planted.push((crl_seg.clone(), "related:crl"));
            if rng.bool() {
                planted.swap(0, 1);
            }
        }
        "self+crl+issuer" => {
            planted.push((mft_seg.clone(), "related:self"));
            planted.push((crl_seg.clone(), "related:crl"));
            planted.push((aia_seg.clone(), "related:issuer"));
            rng.shuffle(&mut planted);
        }
        "uri-directory-segment" | "uri-module" => planted.push((uri_seg.clone(), "related:uri-segment")),
        "uri-authority" => planted.push((host.as_bytes().to_vec(), "related:uri-authority")),
        _ => {}
    }
    if rel == "self-only" || rel == "self-everywhere" {
        c.entries.clear();
    }
    // --- positions
    let mut pos: &'static str = "-";
    for (j, (name, shape)) in planted.iter().enumerate() {
        let with_data = rng.chance(1, 3);
        let e = mk_entry(rng, name.clone(), shape, with_data, false);
        if c.entries.is_empty() {
            c.entries.push(e);
            if j == 0 {
                pos = "only";
            }
            continue;
        }
        let (at, label): (usize, &'static str) = if j == 0 {
            match rng.below(3) {
                0 => (0, "first"),
                1 => (c.entries.len(), "last"),
                _ => (rng.usize_below(c.entries.len() + 1), "middle"),
            }
        } else {
            match rng.below(4) {
                0 => (0, ""),
                1 => (c.entries.len(), ""),
                _ => (rng.usize_below(c.entries.len() + 1), ""),
            }
        };
        c.entries.insert(at, e);
        if j == 0 {
            pos = label;
        }
    }
    if planted.len() > 1 && pos != "only" {
        pos = "several";
    }
    if let Some((_, shape)) = planted.first() {
        c.focus = shape;
        c.focus_pos = pos;
    } else {
        c.focus_pos = "-";
    }
    if hostile {
        let shape: &'static str = *rng.pick(HOSTILE_SHAPES);
        let name = gen_hostile(rng, shape, true);
        let e = mk_entry(rng, name, shape, false, false);
        let at = rng.usize_below(c.entries.len() + 1);
        c.entries.insert(at, e);
    }

    // --- the manifest's interval and the EE certificate's window
    let window: &'static str = *rng.pick(WINDOW_KINDS);
    let wall_clock = window.starts_with("wall-clock");
    let span = *rng.pick(&[0i64, 1, 2, 3600, DAY, 7 * DAY, YEAR]);
    let d = *rng.pick(&[1i64, 60, DAY, 30 * DAY, YEAR]);
    let w = *rng.pick(&[0i64, 1, 3600, DAY, YEAR]);
    let (t, n, nb, na): (i64, i64, i64, i64) = if wall_clock {
        let (t, n) = match window {
            "wall-clock:manifest-inside-ee" => {
                let t = WALL_NB + 1 + rng.below(20 * YEAR as u64) as i64;
                (t, t + span)
            }
            "wall-clock:manifest-before-ee" => (WALL_NB - d - span, WALL_NB - d),
            "wall-clock:manifest-after-ee" => (WALL_NA + d, WALL_NA + d + span),
            "wall-clock:manifest-overlaps-ee-start" => (WALL_NB - d, WALL_NB + d),
            _ => (WALL_NA - d, WALL_NA + d),
        };
        (t, n, WALL_NB, WALL_NA)
    } else {
        let t = gen_ts(rng).clamp(TS_MIN + 4 * YEAR, TS_MAX - 4 * YEAR);
        let n = t + span;
        let (nb, na) = match window {
            "covering" => (t - d, n + d),
            "equal" => (t, n),
            "inside" if n - t >= 2 => (t + 1, n - 1),
            "inside" => (t, n),
            "before" => (t - 1 - d - w, t - 1 - d),
            "before-by-1s" => (t - 1 - w, t - 1),
            "ends-at-this-update" => (t - w, t),
            "overlaps-start" => (t - w, t + (n - t) / 2),
            "overlaps-end" => (t + (n - t + 1) / 2, n + w),
            "starts-at-next-update" => (n, n + w),
            "after-by-1s" => (n + 1, n + 1 + w),
            "after" => (n + 1 + d, n + 1 + d + w),
            _ => (t, t), // single-instant-at-this-update
        };
        (t, n, nb, na)
    };
    let utc = |rng: &mut Rng, ts: i64| (1950..=2049).contains(&civil(ts).0) && rng.chance(1, 6);
    c.this_update = TimeSpec { ts: t, utc: utc(rng, t), defect: None };
    c.next_update = TimeSpec { ts: n, utc: utc(rng, n), defect: None };
    c.time_order = if t == n { "equal" } else { "next-later" };
    let mut nows: Vec<(i64, &'static str)> = vec![(nb, "at-not-before"), (nb + (na - nb) / 2, "mid-window"), (na, "at-not-after")];
    nows.dedup_by_key(|p| p.0);

    let spec = ObjSpec {
        rel,
        pos,
        window,
        mft_uri,
        crl_uri,
        aia_uri,
        nb,
        na,
        nows,
        wall_clock,
        planted: planted.iter().map(|p| text(&p.0)).collect(),
    };
    c.object = Some(json!({
        "relation": rel,
        "planted_names": spec.planted,
        "position": pos,
        "ee_signed_object_uri": spec.mft_uri,
        "ee_crl_uri": spec.crl_uri,
        "ee_ca_issuer_uri": spec.aia_uri,
        "ee_window": window,
        "ee_not_before": iso(nb),
        "ee_not_after": iso(na),
        "manifest_this_update": iso(t),
        "manifest_next_update": iso(n),
    }));
    (c, spec)
}

impl Cms {
    /// An EE certificate for pool key 1 under pool key 0 with the given window
    /// and URIs (library builder; it is not what is being judged).
    fn issue_ee(&self, serial: u64, spec: &ObjSpec) -> Result<Vec<u8>, String> {
        let mft = Rsync::from_str(&spec.mft_uri).map_err(|e| format!("signedObject URI {}: {e}", spec.mft_uri))?;
        let crl = Rsync::from_str(&spec.crl_uri).map_err(|e| format!("CRL URI {}: {e}", spec.crl_uri))?;
        let aia = Rsync::from_str(&spec.aia_uri).map_err(|e| format!("caIssuers URI {}: {e}", spec.aia_uri))?;
        let issuer = self.pool.info(0);
        let ee = self.pool.info(1);
        let validity = Validity::new(time_of(spec.nb), time_of(spec.na));
        let r = catch(|| {
            let mut tbs = TbsCert::new(Serial::from(serial), issuer.to_subject_name(), validity, None, ee.clone(), KeyUsage::Ee, Overclaim::Refuse);
            tbs.set_authority_key_identifier(Some(issuer.key_identifier()));
            tbs.set_crl_uri(Some(crl));
            tbs.set_ca_issuer(Some(aia));
            tbs.set_signed_object(Some(mft));
            tbs.set_v4_resources_inherit();
            tbs.set_v6_resources_inherit();
            tbs.set_as_resources_inherit();
            tbs.into_cert(&self.pool, &0usize).map(|c| c.to_captured().into_bytes().to_vec()).map_err(|e| e.to_string())
        });
        match r {
            Ok(r) => r,
            Err(p) => Err(format!("panic: {p}")),
        }
    }
}

/// The fields of a content as its accessors report them.
struct Snap {
    number: [u8; 20],
    this_update: Time,
    next_update: Time,
    alg: DigestAlgorithm,
    len: usize,
    pairs: Vec<(Bytes, Bytes)>,
}

fn snap(content: &ManifestContent, limit: usize) -> Option<Snap> {
    catch(|| Snap {
        number: content.manifest_number().into_array(),
        this_update: content.this_update(),
        next_update: content.next_update(),
        alg: content.file_hash_alg(),
        len: content.len(),
        pairs: content.iter().take(limit).map(|e| e.into_pair()).collect(),
    })
    .ok()
}

/// Field-by-field difference of two contents; observations, the laws are
/// applied to each content on its own.
fn diff_fields(a: &Snap, b: &Snap) -> Vec<&'static str> {
    let mut v = Vec::new();
    if a.number != b.number {
        v.push("manifest_number");
    }
    if a.this_update != b.this_update {
        v.push("this_update");
    }
    if a.next_update != b.next_update {
        v.push("next_update");
    }
    if a.alg != b.alg {
        v.push("file_hash_alg");
    }
    if a.len != b.len {
        v.push("len");
    }
    if a.pairs.len() != b.pairs.len() {
        v.push("entry_count");
    } else {
        if a.pairs.iter().zip(b.pairs.iter()).any(|(x, y)| x.0 != y.0) {
            v.push("names");
        }
        if a.pairs.iter().zip(b.pairs.iter()).any(|(x, y)| x.1 != y.1) {
            v.push("hashes");
        }
    }
    v
}

/// The laws that need no base URI, for the cheap views of a content.
fn check_light(ctx: &mut Ctx, k: &mut Counters, content: &ManifestContent, c: &Case, econtent: &[u8], path: &str) {
    let sfx = path_suffix(path);
    let limit = c.entries.len() + content.len() + 8;
    let Some(s) = ctx.no_panic("iter", || case_detail(c, econtent, path), || snap(content, limit)).flatten() else { return };
    k.evals += 3;
    if s.pairs.len() != s.len {
        ctx.violation(
            &format!("C14:len-differs-from-iter-count{sfx}"),
            &format!("len() = {} but iter() yields {} entries", s.len, s.pairs.len()),
            case_detail(c, econtent, path),
        );
    }
    if s.this_update > s.next_update {
        let mut d = case_detail(c, econtent, path);
        d["reported_this_update"] = json!(s.this_update.to_rfc3339());
        d["reported_next_update"] = json!(s.next_update.to_rfc3339());
        ctx.violation(
            &format!("C14:this-update-after-next-update{sfx}"),
            &format!("content reports this_update {} and next_update {}", s.this_update.to_rfc3339(), s.next_update.to_rfc3339()),
            d,
        );
    }
    for (i, (name, _)) in s.pairs.iter().enumerate() {
        if let NameVerdict::Bad(why) = judge_name(name) {
            let mut d = case_detail(c, econtent, path);
            d["accepted_name_hex"] = json!(hex(name));
            d["index"] = json!(i);
            ctx.violation(&format!("C14:name-accepted:{why}{sfx}"), &format!("content lists the name {:?} which is not <stem>.<3 letters> ({why})", show(name)), d);
        }
    }
    let same = s.pairs.len() == c.entries.len() && s.pairs.iter().zip(c.entries.iter()).all(|((n, h), e)| n.as_ref() == e.name.as_slice() && h.as_ref() == e.hash.as_slice());
    if !same {
        let mut d = case_detail(c, econtent, path);
        d["encoded_entries"] = json!(c.entries.len());
        d["yielded"] = json!(s.pairs.len());
        let sig = if s.pairs.len() == c.entries.len() { "C14:iter-entry-differs-from-encoded" } else { "C14:iter-count-differs-from-encoded" };
        ctx.violation(&format!("{sig}{sfx}"), "iter() does not yield the entries that were encoded", d);
    }
}

struct ObjCounters {
    cases: u64,
    decoded: u64,
    validated: u64,
    validated_wall_clock: u64,
    serde_round_trips: u64,
}

#[allow(clippy::too_many_arguments)]
fn after_validation(
    ctx: &mut Ctx,
    k: &mut Counters,
    oc: &mut ObjCounters,
    c: &Case,
    spec: &ObjSpec,
    econtent: &[u8],
    extra: &[(String, &'static str)],
    before: &Snap,
    returned: &ManifestContent,
    path: &str,
    now_label: &str,
    now_text: &str,
) {
    oc.validated += 1;
    ctx.obs(&format!("{path}:handed-back"), 1);
    // the detail names the instant of validation
    let mut c2 = c.clone();
    if let Some(o) = c2.object.as_mut() {
        o["validated_at"] = json!(now_text);
        o["validated_at_position"] = json!(now_label);
    }
    check_content_ext(ctx, k, returned, &c2, econtent, path, true, extra, 2);
    let limit = c.entries.len() + returned.len() + 8;
    if let Some(after) = snap(returned, limit) {
        k.evals += 1;
        let diffs = diff_fields(before, &after);
        if diffs.is_empty() {
            ctx.obs("object:returned-content-equals-decoded-content", 1);
        }
        for f in &diffs {
            ctx.obs(&format!("object:returned-content-differs-from-decoded-content:{f}"), 1);
        }
        let order = if after.this_update <= after.next_update { "ordered" } else { "this-after-next" };
        ctx.sig(&format!("obj-validated path={path} window={} now={now_label} rel={} n={} returned={order} same-as-decoded={}", spec.window, spec.rel, count_class(c.entries.len()), diffs.is_empty()));
        let covered = spec.nb <= c.this_update.ts && c.next_update.ts <= spec.na;
        // (one sample per case, and of the layouts in which the window does not cover the interval)
        let first_of_case = now_label == "wall-clock" || (now_label == "at-not-before" && path.ends_with("strict"));
        if !covered && first_of_case {
            ctx.sample("object:returned-by-validation", || {
                json!({
                    "path": path,
                    "ee_window": spec.window,
                    "ee_not_before": iso(spec.nb),
                    "ee_not_after": iso(spec.na),
                    "validated_at": now_text,
                    "encoded_this_update": c.this_update.text(),
                    "encoded_next_update": c.next_update.text(),
                    "returned_this_update": after.this_update.to_rfc3339(),
                    "returned_next_update": after.next_update.to_rfc3339(),
                    "returned_len": after.len,
                    "returned_entries": after.pairs.len(),
                    "fields_differing_from_content()": diffs,
                })
            });
        }
    }
}

/// One object case through every entry point.
fn run_object_case(ctx: &mut Ctx, k: &mut Counters, oc: &mut ObjCounters, cms: &Cms, rng: &mut Rng, index: u64) {
    let stage = ctx.stage;
    let (c, spec) = gen_object_case(rng, stage);
    let econtent = encode_case(&c);
    let names = names_verdict(&c);
    let other = other_defect(&c);
    let model_valid = !matches!(names, NameVerdict::Bad(_)) && other.is_none();
    oc.cases += 1;
    ctx.obs("object:cases", 1);
    ctx.obs(&format!("object:relation:{}", spec.rel), 1);
    ctx.obs(&format!("object:ee-window:{}", spec.window), 1);
    ctx.obs_max("object:entries", c.entries.len() as u64);
    if stage != Stage::Native && index % 16 == 0 {
        ctx.breadcrumb(&format!("object case {index}: rel={} window={} entries={} econtent={}", spec.rel, spec.window, c.entries.len(), hex(&econtent[..econtent.len().min(2000)])));
    }
    let n_class = count_class(c.entries.len());
    let extra: Vec<(String, &'static str)> = {
        let mut v = Vec::new();
        let dir = spec.mft_uri[..spec.mft_uri.rfind('/').map(|p| p + 1).unwrap_or(spec.mft_uri.len())].to_string();
        v.push((dir, "ee-signed-object-directory"));
        v.push((spec.mft_uri.clone(), "ee-signed-object-uri"));
        v.push((spec.crl_uri.clone(), "ee-crl-uri"));
        v.push((spec.aia_uri.clone(), "ee-ca-issuer-uri"));
        v
    };

    // ---- the content on its own
    k.evals += 1;
    match decode_content(Mode::Der, &econtent, index % 2 == 0) {
        Decoded::Ok(content) => {
            ctx.obs("object:content-der:accepted", 1);
            check_content_ext(ctx, k, &content, &c, &econtent, "object:content-der", true, &extra, 1);
        }
        Decoded::Rejected(e) => {
            ctx.obs("object:content-der:rejected", 1);
            if model_valid {
                ctx.obs("object:model-valid-but-rejected", 1);
                ctx.sample("observation:object-valid-but-rejected", || json!({"path": "object:content-der", "library_error": error_key(&e), "object": c.object}));
            }
        }
        Decoded::Panicked(_) => ctx.obs("decode_panicked", 1),
    }

    // ---- the signed object
    let ee_cert = match cms.issue_ee(1000 + index, &spec) {
        Ok(b) => b,
        Err(e) => {
            ctx.obs("object:ee-certificate-not-issued", 1);
            let note = format!("C14: an EE certificate for the object workload could not be issued ({})", error_key(&e));
            if !ctx.notes.contains(&note) {
                ctx.notes.push(note);
            }
            return;
        }
    };
    let variant: &'static str = if rng.chance(1, 8) { *rng.pick(&["digest-alg-null", "sha256-with-rsa", "segmented-econtent"]) } else { "plain" };
    let signed = cms.wrap_with(&ee_cert, &econtent, variant);
    let mut c = c;
    if let Some(o) = c.object.as_mut() {
        o["cms_variant"] = json!(variant);
        o["signed_object_hex"] = json!(if signed.len() <= 6000 { hex(&signed) } else { format!("{}… ({} octets)", hex(&signed[..1200]), signed.len()) });
    }
    let c = c;

    for strict in [true, false] {
        let path = if strict { "object:decode-strict" } else { "object:decode-relaxed" };
        k.evals += 1;
        let decoded = if (index + strict as u64) % 2 == 0 {
            catch(|| Manifest::decode(Bytes::copy_from_slice(&signed), strict).map_err(|e| e.to_string()))
        } else {
            catch(|| Manifest::decode(signed.as_slice(), strict).map_err(|e| e.to_string()))
        };
        let m = match decoded {
            Ok(Ok(m)) => m,
            Ok(Err(e)) => {
                ctx.obs(&format!("{path}:rejected"), 1);
                ctx.obs(&format!("lib-error:{}", error_key(&e)), 1);
                match names {
                    NameVerdict::Bad(why) if other.is_none() => {
                        ctx.obs(&format!("object:rejected-for-name:{why}"), 1);
                        ctx.sig(&format!("obj path={path} rel={}@{} rejected-name={why} n={n_class}", spec.rel, spec.pos));
                    }
                    _ if model_valid && variant == "plain" => {
                        ctx.obs("object:model-valid-but-rejected", 1);
                        ctx.sample("observation:object-valid-but-rejected", || json!({"path": path, "library_error": error_key(&e), "object": c.object}));
                    }
                    _ => {}
                }
                continue;
            }
            Err(p) => {
                ctx.obs("decode_panicked", 1);
                let note = format!("C14: Manifest::decode panicked at {} (not a C14 verdict; see C04)", panic_location(&p));
                if !ctx.notes.contains(&note) {
                    ctx.notes.push(note);
                }
                continue;
            }
        };
        oc.decoded += 1;
        ctx.obs(&format!("{path}:accepted"), 1);
        ctx.sig(&format!("obj path={path} rel={}@{} accepted n={n_class} cms={variant}", spec.rel, spec.pos));
        check_content_ext(ctx, k, m.content(), &c, &econtent, path, true, &extra, 3);
        if strict {
            ctx.sample(if spec.planted.is_empty() { "object:no-related-name" } else { "object:names-related-to-the-object" }, || {
                json!({
                    "path": path,
                    "relation": spec.rel,
                    "planted_names": spec.planted,
                    "position": spec.pos,
                    "ee_signed_object_uri": spec.mft_uri,
                    "ee_crl_uri": spec.crl_uri,
                    "ee_ca_issuer_uri": spec.aia_uri,
                    "entries_encoded": c.entries.len(),
                    "len": m.content().len(),
                    "iter_count": m.content().iter().count(),
                })
            });
        }
        let limit = c.entries.len() + m.content().len() + 8;
        let Some(before) = snap(m.content(), limit) else { continue };

        // ---- the other ways to the same content
        {
            use std::borrow::Borrow;
            let by_deref: &ManifestContent = &m;
            check_light(ctx, k, by_deref, &c, &econtent, "object:view-deref");
            let by_as_ref: &ManifestContent = m.as_ref();
            check_light(ctx, k, by_as_ref, &c, &econtent, "object:view-as-ref");
            let by_borrow: &ManifestContent = m.borrow();
            check_light(ctx, k, by_borrow, &c, &econtent, "object:view-borrow");
            let cloned = m.clone();
            check_light(ctx, k, cloned.content(), &c, &econtent, "object:view-clone");
            let content_clone = m.content().clone();
            check_light(ctx, k, &content_clone, &c, &econtent, "object:view-content-clone");
            ctx.obs("object:views-checked", 5);
        }

        // ---- re-encoded and decoded again
        if let Ok(cap) = catch(|| m.to_captured().into_bytes()) {
            k.evals += 1;
            match catch(|| Manifest::decode(cap.clone(), strict).map_err(|e| e.to_string())) {
                Ok(Ok(m2)) => {
                    ctx.obs("object:recaptured:accepted", 1);
                    check_content_ext(ctx, k, m2.content(), &c, &econtent, "object:recaptured", true, &extra, 1);
                }
                Ok(Err(e)) => ctx.obs(&format!("object:recaptured:rejected:{}", error_key(&e)), 1),
                Err(_) => ctx.obs("decode_panicked", 1),
            }
        }
        if let Ok(cap) = catch(|| m.content().encode_ref().to_captured(Mode::Der).into_bytes()) {
            k.evals += 1;
            match decode_content(Mode::Der, cap.as_ref(), true) {
                Decoded::Ok(c3) => {
                    ctx.obs("object:content-reencoded:accepted", 1);
                    check_light(ctx, k, &c3, &c, &econtent, "object:content-reencoded");
                }
                Decoded::Rejected(e) => ctx.obs(&format!("object:content-reencoded:rejected:{}", error_key(&e)), 1),
                Decoded::Panicked(_) => ctx.obs("decode_panicked", 1),
            }
        }

        // ---- serde round trips (the deserialiser decodes strictly)
        if strict {
            for (hi, hr) in [true, false].into_iter().enumerate() {
                let tok = match catch(|| serde_tok::to_tok(&m, hr)) {
                    Ok(Ok(t)) => t,
                    _ => {
                        ctx.obs("object:serde:serialise-failed", 1);
                        continue;
                    }
                };
                let all = serde_tok::De::all(hr);
                for j in 0..2usize {
                    let cfg = all[(index as usize + 3 * j + hi) % all.len()];
                    k.evals += 1;
                    match catch(|| serde_tok::from_tok::<Manifest>(&tok, cfg).map_err(|e| e.to_string())) {
                        Ok(Ok(m2)) => {
                            oc.serde_round_trips += 1;
                            ctx.obs("object:serde:accepted", 1);
                            ctx.sig(&format!("obj path=serde transport={} rel={}@{} n={n_class}", cfg.describe(), spec.rel, spec.pos));
                            check_content_ext(ctx, k, m2.content(), &c, &econtent, "object:serde", true, &extra, 1);
                        }
                        Ok(Err(e)) => ctx.obs(&format!("object:serde:rejected:{}", error_key(&e)), 1),
                        Err(_) => ctx.obs("object:serde:panicked", 1),
                    }
                }
            }
            k.evals += 1;
            match catch(|| serde_json::to_string(&m).map_err(|e| e.to_string()).and_then(|t| serde_json::from_str::<Manifest>(&t).map_err(|e| e.to_string()))) {
                Ok(Ok(m2)) => {
                    oc.serde_round_trips += 1;
                    ctx.obs("object:serde-json:accepted", 1);
                    check_content_ext(ctx, k, m2.content(), &c, &econtent, "object:serde-json", true, &extra, 1);
                }
                Ok(Err(e)) => ctx.obs(&format!("object:serde-json:rejected:{}", error_key(&e)), 1),
                Err(_) => ctx.obs("object:serde:panicked", 1),
            }
        }

        // ---- validation under the issuing CA: the content that is handed back
        let ta = if strict { &cms.ta_strict } else { &cms.ta };
        if let Some(ta) = ta {
            let vpath = if strict { "object:validated-strict" } else { "object:validated-relaxed" };
            for (now_ts, now_label) in &spec.nows {
                k.evals += 1;
                let now = time_of(*now_ts);
                match catch(|| m.clone().validate_at(ta, strict, now).map_err(|e| e.to_string())) {
                    Ok(Ok((_cert, returned))) => {
                        after_validation(ctx, k, oc, &c, &spec, &econtent, &extra, &before, &returned, vpath, now_label, &iso(*now_ts));
                    }
                    Ok(Err(e)) => ctx.obs(&format!("object:validation-failed:{}", error_key(&e)), 1),
                    Err(p) => {
                        let mut d = case_detail(&c, &econtent, vpath);
                        d["validated_at"] = json!(iso(*now_ts));
                        ctx.violation(&format!("C14:panic:validate_at:{}", panic_location(&p)), &format!("Manifest::validate_at panicked: {p}"), d);
                    }
                }
            }
            if spec.wall_clock {
                // the entry points that read the clock themselves; when the clock is
                // outside 2024..2124 they refuse and nothing is observed
                k.evals += 1;
                match catch(|| m.clone().validate(ta, strict).map_err(|e| e.to_string())) {
                    Ok(Ok((_cert, returned))) => {
                        oc.validated_wall_clock += 1;
                        after_validation(ctx, k, oc, &c, &spec, &econtent, &extra, &before, &returned, "object:validated-wall-clock", "wall-clock", "the wall clock");
                    }
                    Ok(Err(e)) => ctx.obs(&format!("object:validation-wall-clock-failed:{}", error_key(&e)), 1),
                    Err(p) => {
                        ctx.violation(&format!("C14:panic:validate:{}", panic_location(&p)), &format!("Manifest::validate panicked: {p}"), case_detail(&c, &econtent, "object:validated-wall-clock"));
                    }
                }
            }
        }

        // ---- the generic signed object: its content, and what `process` hands back
        if (index + strict as u64) % 2 == 0 {
            k.evals += 1;
            let so = catch(|| SignedObject::decode(Bytes::copy_from_slice(&signed), strict).map_err(|e| e.to_string()));
            if let Ok(Ok(so)) = so {
                match catch(|| so.decode_content(|cons| ManifestContent::take_from(cons)).map_err(|e| e.to_string())) {
                    Ok(Ok(c4)) => {
                        ctx.obs("object:sigobj-content:accepted", 1);
                        check_content_ext(ctx, k, &c4, &c, &econtent, "object:sigobj-content", true, &extra, 1);
                    }
                    Ok(Err(e)) => ctx.obs(&format!("object:sigobj-content:rejected:{}", error_key(&e)), 1),
                    Err(_) => ctx.obs("decode_panicked", 1),
                }
                if let (true, Some(ta)) = (spec.wall_clock, ta) {
                    k.evals += 1;
                    match catch(|| so.clone().process(ta, strict, |_| Ok(())).map_err(|e| e.to_string())) {
                        Ok(Ok((_cert, bytes))) => match decode_content(Mode::Der, bytes.as_ref(), true) {
                            Decoded::Ok(c5) => {
                                ctx.obs("object:sigobj-process:accepted", 1);
                                check_content_ext(ctx, k, &c5, &c, &econtent, "object:sigobj-process", true, &extra, 1);
                            }
                            Decoded::Rejected(e) => ctx.obs(&format!("object:sigobj-process:content-rejected:{}", error_key(&e)), 1),
                            Decoded::Panicked(_) => ctx.obs("decode_panicked", 1),
                        },
                        Ok(Err(e)) => ctx.obs(&format!("object:sigobj-process-failed:{}", error_key(&e)), 1),
                        Err(_) => ctx.obs("object:sigobj-process-panicked", 1),
                    }
                }
            } else {
                ctx.obs("object:sigobj:rejected", 1);
            }
        }
    }
}

fn run_object_workload(ctx: &mut Ctx, k: &mut Counters, cms: &Cms) {
    let total = (ctx.stage_budget((6_400, 160_000), if ctx.tier == Tier::Thorough { 8_000 } else { 800 }, 0, 0) / compat_scale()).max(1);
    let mut rng = ctx.rng("object");
    let mut oc = ObjCounters { cases: 0, decoded: 0, validated: 0, validated_wall_clock: 0, serde_round_trips: 0 };
    for i in 0..total {
        run_object_case(ctx, k, &mut oc, cms, &mut rng, i);
    }
    ctx.obs("object:decoded_manifests", oc.decoded);
    ctx.obs("object:contents_returned_by_validation", oc.validated);
    ctx.obs("object:contents_returned_by_validate_wall_clock", oc.validated_wall_clock);
    ctx.obs("object:serde_round_trips", oc.serde_round_trips);
    if oc.cases > 0 && oc.validated == 0 {
        ctx.notes.push("C14: no manifest of the object workload validated in this shard; the content handed back by validation was not observed".into());
    }
    if oc.cases > 0 && oc.validated_wall_clock == 0 {
        ctx.notes.push("C14: Manifest::validate (reading the clock) accepted nothing in this shard (clock outside 2024..2124?); only validate_at was observed".into());
    }
}

//------------ the run -------------------------------------------------------

/// True in the build of stage `compat` (harness feature `compat` = rpki-rs built
/// with its own `compat` feature).
fn compat_build() -> bool {
    cfg!(feature = "compat")
}

fn compat_scale() -> u64 {
    if compat_build() {
        4
    } else {
        1
    }
}

enum Decoded {
    Ok(ManifestContent),
    Rejected(String),
    Panicked(String),
}

fn decode_content(mode: Mode, econtent: &[u8], bytes_source: bool) -> Decoded {
    let r = if bytes_source {
        let b = Bytes::copy_from_slice(econtent);
        catch(|| mode.decode(b, ManifestContent::take_from).map_err(|e| e.to_string()))
    } else {
        catch(|| mode.decode(econtent, ManifestContent::take_from).map_err(|e| e.to_string()))
    };
    match r {
        Ok(Ok(c)) => Decoded::Ok(c),
        Ok(Err(e)) => Decoded::Rejected(e),
        Err(p) => Decoded::Panicked(p),
    }
}

/// Books one decode outcome: observations, case signature, samples.
#[allow(clippy::too_many_arguments)]
fn book(ctx: &mut Ctx, c: &Case, path: &str, names: NameVerdict, other: &Option<String>, accepted: bool, err: Option<&str>, strict_model: bool) {
    let names_ok = !matches!(names, NameVerdict::Bad(_));
    let hclass = c.entries.iter().find(|e| e.shape == c.focus).or(c.entries.first()).map(|e| hash_class(e.hash.len())).unwrap_or("-");
    let n = count_class(c.entries.len());
    if accepted {
        ctx.obs(&format!("{path}:accepted"), 1);
        if strict_model {
            match (names_ok, other) {
                (true, None) => ctx.obs("model:valid-and-accepted", 1),
                (false, _) => ctx.obs("model:hostile-name-but-accepted", 1), // the oracle decides, not the model
                (true, Some(o)) => ctx.obs(&format!("model:expected-rejection-but-accepted:{o}"), 1),
            }
        }
        ctx.sig(&format!("mft path={path} plan={} focus={}@{} accepted n={n} hash={hclass} time={}", c.plan, c.focus, c.focus_pos, c.time_order));
        if names == NameVerdict::Ok {
            // (two kinds only: the evidence keeps the first 24 samples in the order of their kinds)
            ctx.sample(if path.starts_with("signed") { "accepted:signed" } else { "accepted:content" }, || json!({"path": path, "entries": c.entries.len(), "first_name": c.entries.first().map(|e| String::from_utf8_lossy(&e.name).to_string()), "focus": c.focus, "this_update": c.this_update.text(), "next_update": c.next_update.text()}));
        }
    } else {
        ctx.obs(&format!("{path}:rejected"), 1);
        let key = error_key(err.unwrap_or("?"));
        ctx.obs(&format!("lib-error:{key}"), 1);
        match (names, other) {
            (NameVerdict::Bad(why), None) => {
                // rejected and the only thing wrong is a name: non-trivial
                ctx.obs(&format!("rejected-for-name:{why}"), 1);
                ctx.sig(&format!("mft path={path} plan={} focus={}@{} rejected-name n={n} hash={hclass}", c.plan, c.focus, c.focus_pos));
                if c.plan == "one-hostile" || c.ber.is_some() {
                    ctx.sample(&format!("rejected-hostile:{}", c.focus), || {
                        let e = c.entries.iter().find(|e| e.shape == c.focus);
                        json!({"name": e.map(|e| String::from_utf8_lossy(&e.name).to_string()), "name_hex": e.map(|e| if e.name.len() <= 80 { hex(&e.name) } else { format!("{}… ({} octets)", hex(&e.name[..40]), e.name.len()) }), "position": c.focus_pos, "entries": c.entries.len(), "path": path, "library_error": key})
                    });
                }
            }
            (NameVerdict::Bad(_), Some(_)) => ctx.obs("rejected:hostile-name-and-other-defect", 1),
            (_, Some(o)) => {
                ctx.obs(&format!("rejected-other:{o}"), 1);
            }
            (_, None) => {
                if strict_model {
                    ctx.obs("model:valid-but-rejected", 1);
                    ctx.sample("observation:valid-but-rejected", || json!({"path": path, "library_error": key, "focus": c.focus, "number": c.number_class, "this_update": c.this_update.text(), "next_update": c.next_update.text()}));
                } else {
                    ctx.obs(&format!("{path}:valid-der-rejected"), 1);
                }
            }
        }
    }
}

pub fn run(ctx: &mut Ctx) {
    let stage = ctx.stage;
    let sha_ok = !ctx.no_ffi();
    // Stage `compat`: the harness and rpki-rs are built with the crate's `compat`
    // feature. Everything runs again against that build, the first two workloads
    // and the constructed hashes on a quarter of the native budget, the door
    // workload (where a relaxation for old objects would sit) in full.
    let scale = compat_scale();
    if compat_build() {
        ctx.obs("build:rpki-feature-compat:shards", 1);
    }
    let total = (ctx.stage_budget((40_000, 2_000_000), if ctx.tier == Tier::Thorough { 100_000 } else { 4_000 }, if ctx.tier == Tier::Thorough { 120 } else { 40 }, 400) / scale).max(1);
    let mut rng = ctx.rng("manifests");
    let cms = if sha_ok && stage != Stage::Valgrind { Cms::new(ctx) } else { None };
    if let Some(cms) = &cms {
        if cms.ta.is_none() {
            ctx.notes.push("C14: trust-anchor certificate for the validation observation could not be built; signed manifests are decoded but not validated".into());
        }
    }
    let mut k = Counters { evals: 0 };
    let mut decoded_any = 0u64;
    for i in 0..total {
        let c = gen_case(&mut rng, stage, sha_ok);
        let econtent = encode_case(&c);
        let names = names_verdict(&c);
        let other = other_defect(&c);
        ctx.obs("generated", 1);
        ctx.obs(&format!("plan:{}", c.plan), 1);
        ctx.obs_max("entries", c.entries.len() as u64);
        ctx.obs_max("name_length", c.entries.iter().map(|e| e.name.len()).max().unwrap_or(0) as u64);
        if ctx.stage != Stage::Native && i % 64 == 0 {
            ctx.breadcrumb(&format!("case {i}: plan={} focus={} entries={} econtent={}", c.plan, c.focus, c.entries.len(), hex(&econtent[..econtent.len().min(2000)])));
        }
        // ---- direct decode, DER then BER
        for (mode, path) in [(Mode::Der, "content-der"), (Mode::Ber, "content-ber")] {
            if mode == Mode::Ber && c.ber.is_none() && i % 2 == 1 {
                continue;
            }
            k.evals += 1;
            match decode_content(mode, &econtent, i % 3 != 0) {
                Decoded::Ok(content) => {
                    decoded_any += 1;
                    book(ctx, &c, path, names, &other, true, None, mode == Mode::Der);
                    check_content(ctx, &mut k, &content, &c, &econtent, path, sha_ok);
                }
                Decoded::Rejected(e) => book(ctx, &c, path, names, &other, false, Some(&e), mode == Mode::Der),
                Decoded::Panicked(p) => {
                    // decoder panics are C04's subject; recorded, not asserted here
                    ctx.obs("decode_panicked", 1);
                    let note = format!("C14: ManifestContent::take_from panicked at {} (not a C14 verdict; see C04)", panic_location(&p));
                    if !ctx.notes.contains(&note) {
                        ctx.notes.push(note);
                    }
                }
            }
        }
        // ---- inside a complete signed manifest
        if let Some(cms) = &cms {
            if i % 5 == 0 {
                let variant: &'static str = *rng.pick(CMS_VARIANTS);
                let signed = cms.wrap(&econtent, variant);
                for strict in [true, false] {
                    let path = match (strict, variant) {
                        (true, "plain") => "signed-strict",
                        (false, "plain") => "signed-relaxed",
                        (true, _) => "signed-strict-variant",
                        (false, _) => "signed-relaxed-variant",
                    };
                    k.evals += 1;
                    let b = Bytes::copy_from_slice(&signed);
                    match catch(|| Manifest::decode(b, strict).map_err(|e| e.to_string())) {
                        Ok(Ok(m)) => {
                            decoded_any += 1;
                            ctx.obs(&format!("cms-variant:{variant}:accepted"), 1);
                            book(ctx, &c, path, names, &other, true, None, variant == "plain");
                            check_content(ctx, &mut k, m.content(), &c, &econtent, path, sha_ok);
                            ctx.sample("signed-manifest-accepted", || json!({"cms_variant": variant, "strict": strict, "cms_octets": signed.len(), "entries": c.entries.len(), "first_name": c.entries.first().map(|e| String::from_utf8_lossy(&e.name).to_string())}));
                            // observation only: does it also validate under the issuing CA?
                            if i % 40 == 0 {
                                let ta = if strict { &cms.ta_strict } else { &cms.ta };
                                if let Some(ta) = ta {
                                    let r = catch(|| m.clone().validate_at(ta, strict, cms_now()).map(|_| ()).map_err(|e| e.to_string()));
                                    match r {
                                        Ok(Ok(())) => ctx.obs("signed:validated-under-ca", 1),
                                        Ok(Err(e)) => ctx.obs(&format!("signed:validation-failed:{}", error_key(&e)), 1),
                                        Err(_) => ctx.obs("signed:validation-panicked", 1),
                                    }
                                }
                            }
                        }
                        Ok(Err(e)) => {
                            ctx.obs(&format!("cms-variant:{variant}:rejected"), 1);
                            if variant == "plain" {
                                book(ctx, &c, path, names, &other, false, Some(&e), true);
                            } else {
                                ctx.obs(&format!("{path}:rejected"), 1);
                                ctx.obs(&format!("lib-error:{}", error_key(&e)), 1);
                            }
                        }
                        Err(p) => {
                            ctx.obs("decode_panicked", 1);
                            let note = format!("C14: Manifest::decode panicked at {} (not a C14 verdict; see C04)", panic_location(&p));
                            if !ctx.notes.contains(&note) {
                                ctx.notes.push(note);
                            }
                        }
                    }
                }
            }
        }
    }
    // ---- names related to the object itself, content handed back by validation
    if let Some(cms) = &cms {
        run_object_workload(ctx, &mut k, cms);
    }
    // ---- every door a Manifest / ManifestContent can come through, fed hostile names
    doors::run_doors(ctx, &mut k, cms.as_ref());
    // ---- ManifestHash::verify on directly constructed hashes
    if sha_ok {
        let mut rng = ctx.rng("verify");
        let n = (ctx.stage_budget((4_000, 200_000), 4_000, 0, 200) / scale).max(1);
        for _ in 0..n {
            let (hash, _unused, data, rel) = gen_hash(&mut rng, true, false);
            let data = data.unwrap_or_default();
            let mh = ManifestHash::new(Bytes::copy_from_slice(&hash), DigestAlgorithm::sha256());
            k.evals += 1;
            check_verify(ctx, &mh, &hash, 0, &data, rel, "constructed");
        }
        // all single-bit differences of one digest
        if ctx.shard == 0 {
            let data = b"C14 single bit sweep".to_vec();
            let sha = sha256(&data);
            for bit in 0..256 {
                let mut h = sha.clone();
                h[bit / 8] ^= 1 << (bit % 8);
                let mh = ManifestHash::new(Bytes::copy_from_slice(&h), DigestAlgorithm::sha256());
                k.evals += 1;
                check_verify(ctx, &mh, &h, 0, &data, HashRel::BitFlip, "bit-sweep");
            }
        }
    }
    ctx.evals(k.evals);
    ctx.obs("decoded_manifests", decoded_any);
    if decoded_any == 0 {
        ctx.notes.push("C14: no generated manifest decoded in this shard; nothing was observed".into());
    }
}
