//! C04 — decoders never panic or run away on arbitrary input.
//!
//! Workload: structure-aware mutation (c04_mut.rs) of every captured object
//! under the worktree's `test-data/`, of objects built with the library's own
//! builders under the key pool, and of sub-structures discovered inside those
//! (resource extensions, names, times, serials, keys, CRL bodies, manifest
//! contents), plus raw byte mutation, truncation at every TLV boundary,
//! deep nesting (in a child process) and random strings. Every input goes
//! through the entry point(s) it belongs to (strict and relaxed) and, with
//! some probability, through a foreign one. Mutants of pool-signed seeds are
//! partly re-signed so that hostile content passes the signature checks of
//! validate*/process.
//!
//! Oracle (per evaluation; `evaluate` in c04_eval.rs does decode + accessor
//! sweep): no panic (catch_unwind, signature = panic file:line), peak heap
//! inside the allocator window <= 64 KiB + 64*len, thread CPU time
//! <= 0.2 s + 1 us*len (native stage; three runs, each next to a steady clock
//! reference), and the process survives: a breadcrumb (entry point + input) is
//! kept current for the driver, a watchdog on the worker's CPU clock aborts a
//! runaway evaluation, deep nesting and replays of fatal cases run in a child
//! process on a 2 MiB thread stack.
//!
//! Growth ("a fixed multiple of the input size") is observed by the scaling
//! workload in c04_scale.rs: every list-like structure a decoder walks is
//! generated at n, 4n, 16n (64n) entries by the independent encoder, and CPU
//! time and peak heap of the decoding step and of decode + sweep must obey
//! a scaling law between consecutive sizes.
//!
//! Iterators of decoded values are also used through the standard iterator
//! adapters (c04_iter.rs): inside the accessor sweep of every accepted value
//! (a fixed plan of adapter programs, each result compared with plain `next()`
//! stepping) and by a workload of its own (generated values at the ends of the
//! number spaces under random programs, a few walks over all 2^32 members of
//! the whole AS number space).
//!
//! Literal cases (`vcheck C04 --case f`): `{"ep": name, "hex": bytes}`
//! (optionally `"isolate": true` to run it in a child), a libFuzzer artifact
//! `{"fuzz_target": "repo|ca|resources|text", "hex": bytes}`,
//! `{"scale": shape, "ep": name, "n": entries, "factor": 4, "salt": s}` which
//! regenerates one shape of the scaling workload at two sizes and measures
//! again, or `{"write_corpus": dir}` which writes the seed corpus of the fuzz
//! targets.

// Helper modules of this monitor. They are declared here (not in lib.rs) so
// that the shared lib.rs needs no change; the fuzz targets reach the
// evaluation function as `rpki_verif::c04::c04_eval`.
#[path = "c04_eval.rs"]
pub mod c04_eval;
#[path = "c04_mut.rs"]
pub mod c04_mut;
#[path = "c04_scale.rs"]
pub mod c04_scale;
#[path = "c04_iter.rs"]
pub mod c04_iter;

use self::c04_eval::{cpu_budget_ns, evaluate, heap_budget, Ep, Fixed, Opts, Outcome, ALL_EPS};
use self::c04_mut::{self as m, Pools, T};
use crate::alloc::{thread_cpu_ns, window_peak, window_start};
use crate::core::{catch, fnv64, Ctx, Rng, Stage, Tier};
use serde_json::{json, Value};
use std::collections::HashSet;
use std::path::PathBuf;
use std::str::FromStr;

//------------ small helpers -------------------------------------------------

fn hex(data: &[u8]) -> String {
    const H: &[u8; 16] = b"0123456789abcdef";
    let mut s = Vec::with_capacity(data.len() * 2);
    for b in data {
        s.push(H[(b >> 4) as usize]);
        s.push(H[(b & 15) as usize]);
    }
    String::from_utf8(s).unwrap()
}

fn unhex(s: &str) -> Vec<u8> {
    let b = s.as_bytes();
    let v = |c: u8| match c {
        b'0'..=b'9' => c - b'0',
        b'a'..=b'f' => c - b'a' + 10,
        b'A'..=b'F' => c - b'A' + 10,
        _ => 0,
    };
    (0..b.len() / 2).map(|i| (v(b[2 * i]) << 4) | v(b[2 * i + 1])).collect()
}

thread_local! {
    static PANIC: std::cell::RefCell<Option<(String, Option<String>)>> = const { std::cell::RefCell::new(None) };
}

/// Own panic hook: remembers `file:line: message`; when the location is
/// inside the Rust standard library (arithmetic in iterator adaptors, slice
/// indexing helpers) it also resolves the innermost rpki / bcder frame from a
/// backtrace, because a std line number is no stable name for a defect.
fn install_hook() {
    std::panic::set_hook(Box::new(|info| {
        let loc = info.location().map(|l| format!("{}:{}", l.file(), l.line())).unwrap_or_else(|| "<unknown>".into());
        let msg = if let Some(s) = info.payload().downcast_ref::<&str>() {
            (*s).to_string()
        } else if let Some(s) = info.payload().downcast_ref::<String>() {
            s.clone()
        } else {
            "<non-string payload>".into()
        };
        let mut via = None;
        if loc.starts_with("/rustc/") || loc.contains("/library/") {
            let bt = std::backtrace::Backtrace::force_capture().to_string();
            if std::env::var_os("C04_DEBUG_BT").is_some() {
                eprintln!("{}", bt);
            }
            let mut func = String::new();
            let mut harness_fn: Option<String> = None;
            for line in bt.lines() {
                let t = line.trim();
                if let Some(at) = t.strip_prefix("at ") {
                    let is_lib = (at.contains("/src/") && !at.starts_with("/rustc/") && !at.starts_with("./src/") && !at.contains("/harness/src/") && !at.contains("/library/"))
                        && (at.contains("/repo/src/") || at.contains("bcder-") || at.contains("/rpki"));
                    if is_lib {
                        let mut parts = at.rsplitn(3, ':');
                        let _col = parts.next();
                        let line_no = parts.next().unwrap_or("");
                        let file = parts.next().unwrap_or(at);
                        via = Some(format!("{}:{} ({})", file, line_no, func));
                        break;
                    }
                } else if let Some(i) = t.find(": ") {
                    func = t[i + 2..].to_string();
                    if func.starts_with("rpki::") || func.starts_with("<rpki::") || func.starts_with("bcder::") || func.starts_with("<bcder::") {
                        // library frame without line info: the function path names the site
                        via = Some(format!("fn {}", func.trim_start_matches('<').split("::{{").next().unwrap_or(&func)));
                        break;
                    }
                    if harness_fn.is_none() && func.starts_with("rpki_verif::c04_eval::") {
                        harness_fn = Some(func["rpki_verif::c04_eval::".len()..].split("::").next().unwrap_or("").to_string());
                    }
                    if func.starts_with("rpki_verif::c04::") && !func.contains("install_hook") {
                        break;
                    }
                }
            }
            if via.is_none() {
                // the library frames were inlined into the harness's sweep function
                let slug: String = msg.chars().map(|c| if c.is_ascii_alphanumeric() { c } else { '_' }).take(40).collect();
                via = Some(format!("inlined-into {} [{}]", harness_fn.unwrap_or_else(|| "sweep".into()), slug));
            }
        }
        PANIC.with(|p| *p.borrow_mut() = Some((format!("{}: {}", loc, msg), via)));
    }));
}

/// Runs `f`; a panic becomes `Err((text, innermost library frame if the panic site is in std))`.
fn catch2<R>(f: impl FnOnce() -> R) -> Result<R, (String, Option<String>)> {
    PANIC.with(|p| p.borrow_mut().take());
    match std::panic::catch_unwind(std::panic::AssertUnwindSafe(f)) {
        Ok(v) => Ok(v),
        Err(_) => Err(PANIC.with(|p| p.borrow_mut().take()).unwrap_or_else(|| ("<panic without hook>".into(), None))),
    }
}

/// Violation signature of a captured panic: the panic site; a site inside std
/// is named by the library frame that led there.
fn panic_sig(text: &str, via: &Option<String>) -> String {
    let site = match via {
        Some(v) if v.starts_with("inlined-into ") || v.starts_with("fn ") => format!("std:{}", v.replace(' ', "_")),
        Some(v) => format!("{}:std", panic_site(v.split(" (").next().unwrap_or(v))),
        None => panic_site(text),
    };
    format!("C04:panic:{}", site)
}

/// `file:line` of a captured panic, keeping the crate directory for
/// dependencies (`bcder-0.7.7/src/...`) and `src/...` for rpki-rs.
fn panic_site(text: &str) -> String {
    let loc = text.split(": ").next().unwrap_or(text);
    if let Some(i) = loc.find("/registry/src/") {
        let tail = &loc[i + 14..];
        if let Some(j) = tail.find('/') {
            return tail[j + 1..].to_string();
        }
    }
    if loc.contains("/harness/src/") || loc.starts_with("src/c04") || loc.starts_with("src/bin") {
        return format!("harness:{}", &loc[loc.rfind("/src/").map(|i| i + 1).unwrap_or(0)..]);
    }
    match loc.rfind("/src/") {
        Some(i) => loc[i + 1..].to_string(),
        None => loc.to_string(),
    }
}

/// The rpki-rs checkout the harness is linked against (path dependency).
fn repo_dir() -> PathBuf {
    let manifest = concat!(env!("CARGO_MANIFEST_DIR"), "/Cargo.toml");
    if let Ok(text) = std::fs::read_to_string(manifest) {
        if let Some(i) = text.find("rpki = { path = \"") {
            let rest = &text[i + 17..];
            if let Some(j) = rest.find('"') {
                return PathBuf::from(&rest[..j]);
            }
        }
    }
    PathBuf::from("/repo")
}

fn build_dir() -> PathBuf {
    let mut p = PathBuf::from(env!("CARGO_MANIFEST_DIR"));
    p.pop();
    p.push(".build");
    p
}

//------------ Seeds ---------------------------------------------------------

/// Which pool keys signed a library-built seed (so a mutant can be re-signed).
#[derive(Clone, Copy, Debug, PartialEq, Eq)]
pub enum Plan {
    None,
    /// `SEQUENCE { tbs, alg, signature }` signed by this pool key
    X509(usize),
    /// CMS signed object: signed attributes by `ee`, EE certificate (and CRL) by `issuer`
    Cms { ee: usize, issuer: usize },
}

impl Plan {
    fn to_text(self) -> String {
        match self {
            Plan::None => "none".into(),
            Plan::X509(k) => format!("x509:{}", k),
            Plan::Cms { ee, issuer } => format!("cms:{}:{}", ee, issuer),
        }
    }

    fn from_text(s: &str) -> Plan {
        let p: Vec<&str> = s.split(':').collect();
        match p.as_slice() {
            ["x509", k] => Plan::X509(k.parse().unwrap_or(0)),
            ["cms", e, i] => Plan::Cms { ee: e.parse().unwrap_or(1), issuer: i.parse().unwrap_or(0) },
            _ => Plan::None,
        }
    }
}

pub struct Seed {
    pub name: String,
    pub data: Vec<u8>,
    pub home: Vec<Ep>,
    pub forest: Option<Vec<T>>,
    pub text: bool,
    pub plan: Plan,
}

const SIGOBJ: [Ep; 2] = [Ep::SigObjStrict, Ep::SigObjRelaxed];

fn homes_for(path: &str) -> Option<Vec<Ep>> {
    let file = path.rsplit('/').next().unwrap_or(path);
    let ext = file.rsplit('.').next().unwrap_or("");
    let mut v: Vec<Ep> = Vec::new();
    if path.contains("/rfc6492/") || path.contains("/sigmsg/pdu") {
        if ext == "der" || ext == "ber" {
            v.extend([Ep::SigMsgStrict, Ep::SigMsgRelaxed, Ep::ProvCms, Ep::PubCms]);
        } else {
            return None;
        }
    } else {
        match ext {
            "cer" => {
                if path.contains("/ca/") {
                    v.extend([Ep::IdCert, Ep::Cert]);
                } else {
                    v.extend([Ep::Cert, Ep::IdCert]);
                }
            }
            "crl" => v.push(Ep::Crl),
            "mft" | "bad-filename" => {
                v.extend([Ep::MftStrict, Ep::MftRelaxed]);
                v.extend(SIGOBJ);
            }
            "roa" => {
                v.extend([Ep::RoaStrict, Ep::RoaRelaxed]);
                v.extend(SIGOBJ);
            }
            "asa" => {
                v.extend([Ep::AspaStrict, Ep::AspaRelaxed]);
                v.extend(SIGOBJ);
            }
            "tal" => v.push(Ep::Tal),
            "der" => {
                if file.contains("router-csr") {
                    v.extend([Ep::BgpsecCsr, Ep::CaCsr]);
                } else if file.contains("csr") {
                    v.extend([Ep::CaCsr, Ep::BgpsecCsr]);
                } else if file.contains("public") {
                    v.push(Ep::PubKey);
                } else if file.contains("private") {
                    return None;
                }
                // aspa-content*.der: no public entry point of its own; used
                // as donor material and fed to foreign entry points only
            }
            _ => return None,
        }
    }
    Some(v)
}

fn walk_files(dir: &PathBuf, out: &mut Vec<PathBuf>) {
    let Ok(rd) = std::fs::read_dir(dir) else { return };
    let mut entries: Vec<_> = rd.filter_map(|e| e.ok()).map(|e| e.path()).collect();
    entries.sort();
    for p in entries {
        if p.is_dir() {
            walk_files(&p, out);
        } else {
            out.push(p);
        }
    }
}

fn captured_seeds(max_len: usize) -> Vec<Seed> {
    let root = repo_dir().join("test-data");
    let mut files = Vec::new();
    walk_files(&root, &mut files);
    let mut seeds = Vec::new();
    for f in files {
        let rel = f.strip_prefix(repo_dir()).unwrap_or(&f).to_string_lossy().to_string();
        let Some(home) = homes_for(&rel) else { continue };
        let Ok(data) = std::fs::read(&f) else { continue };
        if data.is_empty() || data.len() > max_len {
            continue;
        }
        let text = rel.ends_with(".tal");
        seeds.push(Seed { name: rel, forest: if text { None } else { m::parse(&data) }, data, home, text, plan: Plan::None });
    }
    seeds
}

/// Objects made with the library's own builders under the key pool. Cached
/// on disk so that all shards (and the Miri stage, which cannot sign) see
/// the same bytes.
fn built_seeds(crypto: bool, max_len: usize) -> Vec<Seed> {
    let dir = build_dir().join("c04-seeds-v4");
    let index = dir.join("index.json");
    if !index.exists() && crypto {
        let made = catch(build_objects).unwrap_or_default();
        if !made.is_empty() {
            let _ = std::fs::create_dir_all(&dir);
            let tmpdir = build_dir().join(format!("c04-seeds-v4.tmp{}", std::process::id()));
            let _ = std::fs::create_dir_all(&tmpdir);
            let mut idx = Vec::new();
            for (i, (name, data, home, plan)) in made.iter().enumerate() {
                let file = format!("{:02}.bin", i);
                let _ = std::fs::write(tmpdir.join(&file), data);
                idx.push(json!({"name": name, "file": file, "plan": plan.to_text(), "home": home.iter().map(|e| e.name()).collect::<Vec<_>>()}));
            }
            let _ = std::fs::write(tmpdir.join("index.json"), serde_json::to_string(&idx).unwrap());
            // whoever renames first wins; losers clean up their copy
            if std::fs::rename(&tmpdir, &dir).is_err() {
                let _ = std::fs::remove_dir_all(&tmpdir);
            }
        }
    }
    let mut seeds = Vec::new();
    let Ok(text) = std::fs::read_to_string(&index) else { return seeds };
    let Ok(Value::Array(items)) = serde_json::from_str::<Value>(&text) else { return seeds };
    for it in items {
        let name = it["name"].as_str().unwrap_or("").to_string();
        let Ok(data) = std::fs::read(dir.join(it["file"].as_str().unwrap_or(""))) else { continue };
        if data.len() > max_len {
            continue;
        }
        let home: Vec<Ep> = it["home"]
            .as_array()
            .map(|a| a.iter().filter_map(|x| Ep::from_name(x.as_str().unwrap_or(""))).collect())
            .unwrap_or_default();
        let text = name.ends_with(".tal");
        let plan = Plan::from_text(it["plan"].as_str().unwrap_or(""));
        seeds.push(Seed { name: format!("built/{}", name), forest: if text { None } else { m::parse(&data) }, data, home, text, plan });
    }
    seeds
}

/// Correctly signed generic RPKI signed objects, assembled by the independent
/// CMS assembler, whose signed attributes total 65534..65537 octets: the
/// sizes around the decoder's 65535-octet limit, which byte-level mutation
/// of ordinary objects practically never produces. They validate under the
/// fixed issuer (pool key 0), so the accessor sweep reaches signature
/// verification with them.
fn boundary_attr_seeds() -> Vec<Seed> {
    use crate::c02_cms as cms;
    #[allow(unused_imports)]
    use crate::c02_cms::MftEntry as _;
    use rpki::repository::cert::{KeyUsage, Overclaim, TbsCert};
    use rpki::repository::resources::{AsResources, IpResources};
    use rpki::repository::x509::{Time, Validity};
    let made = catch(|| {
        let pool = crate::keys::PoolSigner::new(2);
        let issuer = pool.info(0);
        let uri = rpki::uri::Rsync::from_str("rsync://example.com/repo/ca/x.sig").unwrap();
        let mut tbs = TbsCert::new(
            4711u64.into(),
            issuer.to_subject_name(),
            Validity::new(Time::utc(2025, 1, 1, 0, 0, 0), Time::utc(2027, 1, 1, 0, 0, 0)),
            None,
            pool.info(1),
            KeyUsage::Ee,
            Overclaim::Refuse,
        );
        tbs.set_authority_key_identifier(Some(issuer.key_identifier()));
        tbs.set_crl_uri(Some(uri.clone()));
        tbs.set_ca_issuer(Some(uri.clone()));
        tbs.set_signed_object(Some(uri));
        tbs.set_v4_resources(IpResources::inherit());
        tbs.set_as_resources(AsResources::inherit());
        let ee = tbs.into_cert(&pool, &0).ok()?.to_captured().as_slice().to_vec();
        let ski = cms::ski_of_spki(&pool.key(1).spki);
        let content = b"boundary sized signed attributes".to_vec();
        let digest = crate::keys::sha256(&content);
        let mut out = Vec::new();
        for total in [65534usize, 65535, 65536, 65537] {
            // the content type OID is the only knob the RPKI profile leaves
            let mut found = None;
            for body in (total.saturating_sub(400)..total).rev() {
                let ct = cms::oid_with_body_len(body, total as u64);
                let attrs = cms::sort_attrs(&[cms::attr_content_type(&ct), cms::attr_message_digest(&digest), cms::attr_signing_time(1_767_225_600)]);
                let len = cms::attrs_len(&attrs);
                if len == total {
                    found = Some((ct, attrs));
                    break;
                }
                if len < total {
                    break;
                }
            }
            let Some((ct, attrs)) = found else { continue };
            let sig = pool.key(1).sign_raw(&cms::sig_input_set(&attrs));
            let data = cms::SignedData::rpki(ct, content.clone(), ee.clone(), ski.clone(), attrs, sig).encode();
            out.push((total, data));
        }
        Some(out)
    });
    let mut seeds = Vec::new();
    // manifest contents (independent encoder) whose file names sit on the edges of
    // what the decoder admits: empty stem, all permitted punctuation, long names
    {
        let names: [&[u8]; 6] = [b".roa", b"-.cer", b"_.mft", b"A-_9.CER", b"a.roa", &[b'x'; 260]];
        let mut entries = Vec::new();
        for (i, n) in names.iter().enumerate() {
            let mut name = n.to_vec();
            if name.len() > 100 {
                name.extend_from_slice(b".crl");
            }
            entries.push(cms::MftEntry::new(&name, &[i as u8; 32]));
        }
        let data = cms::manifest_econtent(7, 1_767_225_600, 1_767_312_000, &entries);
        seeds.push(Seed { name: "built/manifest-content-edge-names".into(), forest: m::parse(&data), data, home: vec![Ep::MftContentDer, Ep::MftContentBer], text: false, plan: Plan::None });
    }
    if let Ok(Some(list)) = made {
        for (total, data) in list {
            seeds.push(Seed { name: format!("built/sigobj-signed-attrs-{}", total), forest: m::parse(&data), data, home: SIGOBJ.to_vec(), text: false, plan: Plan::None });
        }
    }
    seeds
}

type Made = Vec<(String, Vec<u8>, Vec<Ep>, Plan)>;

fn build_objects() -> Made {
    use bytes::Bytes;
    use rpki::ca::csr::Csr;
    use rpki::ca::idcert::IdCert;
    use rpki::ca::idexchange::{RecipientHandle, SenderHandle};
    use rpki::ca::provisioning;
    use rpki::ca::publication;
    use rpki::ca::sigmsg::SignedMessage;
    use rpki::crypto::{DigestAlgorithm, PublicKey};
    use rpki::repository::aspa::AspaBuilder;
    use rpki::repository::cert::{ExtendedKeyUsage, KeyUsage, Overclaim, TbsCert};
    use rpki::repository::crl::{CrlEntry, TbsCertList};
    use rpki::repository::manifest::{FileAndHash, ManifestContent};
    use rpki::repository::resources::{Asn, Prefix};
    use rpki::repository::roa::RoaBuilder;
    use rpki::repository::rta::AttestationBuilder;
    use rpki::repository::sigobj::SignedObjectBuilder;
    use rpki::repository::x509::{Serial, Time};
    use rpki::uri;

    let pool = crate::keys::PoolSigner::new(3);
    let validity = self::c04_eval::fixed_validity();
    let t0 = Time::utc(2025, 6, 1, 12, 0, 0);
    let mut out: Made = Vec::new();
    let rs = |s: &str| uri::Rsync::from_str(s).unwrap();
    let sigobj = |serial: u64, name: &str| {
        let mut b = SignedObjectBuilder::new(
            Serial::from(serial),
            validity,
            rs("rsync://example.com/repo/ca/ca.crl"),
            rs("rsync://example.com/ta/ta.cer"),
            rs(&format!("rsync://example.com/repo/ca/{}", name)),
        );
        b.set_signing_time(t0);
        b
    };

    // certificate chain: TA (key 0) -> CA (key 1) ; EE objects hang off the TA
    let ta = self::c04_eval::build_ta(&pool);
    out.push(("ta.cer".into(), ta.to_captured().into_bytes().to_vec(), vec![Ep::Cert], Plan::X509(0)));
    let ta_name = ta.subject().clone();
    let ta_ski = ta.subject_key_identifier();
    {
        let mut ca = TbsCert::new(
            Serial::from(0x1234_5678_9ABC_DEF0u64),
            ta_name.clone(),
            validity,
            None,
            pool.info(1),
            KeyUsage::Ca,
            Overclaim::Trim,
        );
        ca.set_basic_ca(Some(true));
        ca.set_authority_key_identifier(Some(ta_ski));
        ca.set_crl_uri(Some(rs("rsync://example.com/repo/ca/ca.crl")));
        ca.set_ca_issuer(Some(rs("rsync://example.com/ta/ta.cer")));
        ca.set_ca_repository(Some(rs("rsync://example.com/repo/sub/")));
        ca.set_rpki_manifest(Some(rs("rsync://example.com/repo/sub/sub.mft")));
        ca.set_rpki_notify(Some(uri::Https::from_str("https://example.com/rrdp/notification.xml").unwrap()));
        ca.build_v4_resource_blocks(|b| {
            b.push(Prefix::new(std::net::Ipv4Addr::new(10, 0, 0, 0), 8));
            b.push((
                rpki::repository::resources::Addr::from_v4(std::net::Ipv4Addr::new(192, 168, 0, 0)),
                rpki::repository::resources::Addr::from_v4(std::net::Ipv4Addr::new(192, 168, 5, 255)).to_max(32),
            ));
        });
        ca.build_v6_resource_blocks(|b| b.push(Prefix::new(std::net::Ipv6Addr::from_str("2001:db8::").unwrap(), 32)));
        ca.build_as_resource_blocks(|b| {
            b.push(Asn::from_u32(64496));
            b.push((Asn::from_u32(65000), Asn::from_u32(65100)));
            b.push((Asn::from_u32(4_200_000_000), Asn::MAX));
        });
        let ca = ca.into_cert(&pool, &0).expect("ca");
        out.push(("ca.cer".into(), ta_bytes(&ca), vec![Ep::Cert], Plan::X509(0)));

        // inherit-everything CA
        let mut inh = TbsCert::new(Serial::from(77u64), ta_name.clone(), validity, None, pool.info(2), KeyUsage::Ca, Overclaim::Refuse);
        inh.set_basic_ca(Some(true));
        inh.set_authority_key_identifier(Some(ta_ski));
        inh.set_crl_uri(Some(rs("rsync://example.com/repo/ca/ca.crl")));
        inh.set_ca_issuer(Some(rs("rsync://example.com/ta/ta.cer")));
        inh.set_ca_repository(Some(rs("rsync://example.com/repo/inh/")));
        inh.set_rpki_manifest(Some(rs("rsync://example.com/repo/inh/inh.mft")));
        inh.set_v4_resources_inherit();
        inh.set_v6_resources_inherit();
        inh.set_as_resources_inherit();
        let inh = inh.into_cert(&pool, &0).expect("inh");
        out.push(("inherit.cer".into(), ta_bytes(&inh), vec![Ep::Cert], Plan::X509(0)));
    }
    // router certificate (P-256 key)
    {
        let spki = crate::keys::p256_spki();
        if let Ok(key) = PublicKey::decode(spki.as_slice()) {
            let mut rc = TbsCert::new(Serial::from(42u64), ta_name.clone(), validity, None, key, KeyUsage::Ee, Overclaim::Refuse);
            rc.set_authority_key_identifier(Some(ta_ski));
            rc.set_crl_uri(Some(rs("rsync://example.com/repo/ca/ca.crl")));
            rc.set_ca_issuer(Some(rs("rsync://example.com/ta/ta.cer")));
            rc.set_extended_key_usage(Some(ExtendedKeyUsage::create_router()));
            rc.build_as_resource_blocks(|b| b.push(Asn::from_u32(64512)));
            let rc = rc.into_cert(&pool, &0).expect("router");
            out.push(("router.cer".into(), ta_bytes(&rc), vec![Ep::Cert], Plan::X509(0)));
            out.push(("p256.spki".into(), spki, vec![Ep::PubKey], Plan::None));
        }
    }
    out.push(("rsa.spki".into(), pool.key(1).spki.clone(), vec![Ep::PubKey], Plan::None));

    // CRL with entries
    let crl = {
        let entries = vec![
            CrlEntry::new(Serial::from(3u64), Time::utc(2024, 5, 1, 0, 0, 0)),
            CrlEntry::new(Serial::from(0x80u64), Time::utc(2024, 6, 1, 0, 0, 0)),
            CrlEntry::new(Serial::from(u128::MAX >> 1), Time::utc(2051, 1, 1, 0, 0, 0)),
        ];
        let tbs = TbsCertList::new(
            Default::default(),
            ta_name.clone(),
            Time::utc(2025, 1, 1, 0, 0, 0),
            Time::utc(2027, 1, 1, 0, 0, 0),
            entries,
            ta_ski,
            Serial::from(9u64),
        );
        tbs.into_crl(&pool, &0).expect("crl")
    };
    out.push(("ca.crl".into(), crl.to_captured().into_bytes().to_vec(), vec![Ep::Crl], Plan::X509(0)));

    // manifest
    {
        let files: Vec<FileAndHash<Vec<u8>, Vec<u8>>> = vec![
            FileAndHash::new(b"ca.crl".to_vec(), crate::keys::sha256(b"a")),
            FileAndHash::new(b"AS64496-roa_1.roa".to_vec(), crate::keys::sha256(b"b")),
            FileAndHash::new(b"x.asa".to_vec(), crate::keys::sha256(b"c")),
        ];
        let content = ManifestContent::new(
            Serial::from(0x0102u64),
            Time::utc(2025, 1, 1, 0, 0, 0),
            Time::utc(2027, 1, 1, 0, 0, 0),
            DigestAlgorithm::default(),
            files.iter(),
        );
        pool.set_next_one_off(1);
        let mft = content.into_manifest(sigobj(100, "ca.mft"), &pool, &0).expect("mft");
        out.push(("ca.mft".into(), mft.to_captured().into_bytes().to_vec(), vec![Ep::MftStrict, Ep::MftRelaxed, Ep::SigObjStrict, Ep::SigObjRelaxed], Plan::Cms { ee: 1, issuer: 0 }));
    }
    // ROA
    {
        let mut b = RoaBuilder::new(Asn::from_u32(64496));
        b.push_v4_addr(std::net::Ipv4Addr::new(10, 1, 0, 0), 16, Some(24));
        b.push_v4_addr(std::net::Ipv4Addr::new(192, 168, 1, 0), 24, None);
        b.push_v4_addr(std::net::Ipv4Addr::new(0, 0, 0, 0), 0, Some(32));
        b.push_v6_addr(std::net::Ipv6Addr::from_str("2001:db8:1::").unwrap(), 48, Some(64));
        b.push_v6_addr(std::net::Ipv6Addr::from_str("2001:db8::1").unwrap(), 128, None);
        pool.set_next_one_off(1);
        let roa = b.finalize(sigobj(101, "r.roa"), &pool, &0).expect("roa");
        out.push(("r.roa".into(), roa.to_captured().into_bytes().to_vec(), vec![Ep::RoaStrict, Ep::RoaRelaxed, Ep::SigObjStrict, Ep::SigObjRelaxed], Plan::Cms { ee: 1, issuer: 0 }));
    }
    // ASPA
    {
        let b = AspaBuilder::new(
            Asn::from_u32(64496),
            vec![Asn::from_u32(64497), Asn::from_u32(65000), Asn::from_u32(0), Asn::from_u32(u32::MAX)],
        )
        .expect("aspa builder");
        pool.set_next_one_off(1);
        let aspa = b.finalize(sigobj(102, "a.asa"), &pool, &0).expect("aspa");
        out.push(("a.asa".into(), aspa.to_captured().into_bytes().to_vec(), vec![Ep::AspaStrict, Ep::AspaRelaxed, Ep::SigObjStrict, Ep::SigObjRelaxed], Plan::Cms { ee: 1, issuer: 0 }));
    }
    // RTA: EE (key 1) under the TA, plus a CRL in the bag
    {
        let digest = DigestAlgorithm::default().digest(b"c04 attested document");
        let mut ab = AttestationBuilder::new(DigestAlgorithm::default(), digest.into());
        ab.push_key(pool.info(1).key_identifier());
        ab.push_as(Asn::from_u32(64496));
        ab.push_v4(Prefix::new(std::net::Ipv4Addr::new(10, 2, 0, 0), 16));
        ab.push_v6(Prefix::new(std::net::Ipv6Addr::from_str("2001:db8:2::").unwrap(), 48));
        let mut rb = ab.into_rta_builder();
        let mut ee = TbsCert::new(Serial::from(200u64), ta_name.clone(), validity, None, pool.info(1), KeyUsage::Ee, Overclaim::Refuse);
        ee.set_authority_key_identifier(Some(ta_ski));
        ee.set_crl_uri(Some(rs("rsync://example.com/repo/ca/ca.crl")));
        ee.set_ca_issuer(Some(rs("rsync://example.com/ta/ta.cer")));
        ee.build_as_resource_blocks(|b| b.push(Asn::from_u32(64496)));
        ee.build_v4_resource_blocks(|b| b.push(Prefix::new(std::net::Ipv4Addr::new(10, 2, 0, 0), 16)));
        ee.build_v6_resource_blocks(|b| b.push(Prefix::new(std::net::Ipv6Addr::from_str("2001:db8:2::").unwrap(), 48)));
        let ee = ee.into_cert(&pool, &0).expect("rta ee");
        rb.push_cert(ee);
        rb.sign(&pool, &1, t0).expect("rta sign");
        let plain = rb.finalize();
        out.push(("plain.rta".into(), plain.to_captured().into_bytes().to_vec(), vec![Ep::RtaStrict, Ep::RtaRelaxed], Plan::None));
        let mut rb2 = rpki::repository::rta::RtaBuilder::from_rta(plain);
        rb2.push_cert(ta.clone());
        rb2.push_crl(crl.clone());
        let with_ca = rb2.finalize();
        out.push(("with-ca.rta".into(), with_ca.to_captured().into_bytes().to_vec(), vec![Ep::RtaStrict, Ep::RtaRelaxed], Plan::None));
    }
    // CSR
    {
        let csr = Csr::construct_rpki_ca(
            &pool,
            &1,
            &rs("rsync://example.com/repo/sub/"),
            &rs("rsync://example.com/repo/sub/sub.mft"),
            Some(&uri::Https::from_str("https://example.com/rrdp/notification.xml").unwrap()),
        )
        .expect("csr");
        out.push(("ca.csr".into(), csr.into_bytes().to_vec(), vec![Ep::CaCsr, Ep::BgpsecCsr], Plan::X509(1)));
    }
    // identity certificates
    {
        let ta = IdCert::new_ta(validity, &0, &pool).expect("id ta");
        out.push(("id-ta.cer".into(), ta.to_bytes().to_vec(), vec![Ep::IdCert, Ep::Cert], Plan::X509(0)));
        let ee = IdCert::new_ee(&pool.info(1), validity, &0, &pool).expect("id ee");
        out.push(("id-ee.cer".into(), ee.to_bytes().to_vec(), vec![Ep::IdCert, Ep::Cert], Plan::X509(0)));
    }
    // signed protocol messages
    {
        let cms_eps = vec![Ep::SigMsgStrict, Ep::SigMsgRelaxed, Ep::ProvCms, Ep::PubCms];
        let sender = SenderHandle::from_str("child").unwrap();
        let recipient = RecipientHandle::from_str("parent").unwrap();
        let list = provisioning::Message::list(sender, recipient);
        pool.set_next_one_off(1);
        let sm = SignedMessage::create(list.to_xml_bytes(), validity, &0, &pool).expect("sigmsg prov");
        out.push(("prov-list.cms".into(), sm.to_captured().into_bytes().to_vec(), cms_eps.clone(), Plan::Cms { ee: 1, issuer: 0 }));
        pool.set_next_one_off(1);
        if let Ok(cms) = provisioning::ProvisioningCms::create(list.clone(), &0, &pool) {
            out.push(("prov-list-now.cms".into(), cms.to_bytes().to_vec(), cms_eps.clone(), Plan::Cms { ee: 1, issuer: 0 }));
        }
        let q = publication::Message::list_query();
        pool.set_next_one_off(1);
        let sm = SignedMessage::create(q.to_xml_bytes(), validity, &0, &pool).expect("sigmsg pub");
        out.push(("pub-list.cms".into(), sm.to_captured().into_bytes().to_vec(), cms_eps.clone(), Plan::Cms { ee: 1, issuer: 0 }));
        let mut delta = publication::PublishDelta::empty();
        delta.add_publish(publication::Publish::with_hash_tag(
            rs("rsync://example.com/repo/ca/x.roa"),
            publication::Base64::from_content(b"object bytes"),
        ));
        let d = publication::Message::delta(delta);
        pool.set_next_one_off(1);
        let sm = SignedMessage::create(d.to_xml_bytes(), validity, &0, &pool).expect("sigmsg delta");
        out.push(("pub-delta.cms".into(), sm.to_captured().into_bytes().to_vec(), cms_eps.clone(), Plan::Cms { ee: 1, issuer: 0 }));
        let _ = Bytes::new();
        // the same kind of message with a non-empty revocation list in its CRL
        // (the library only ever creates empty ones): edit the TLV tree, re-sign
        let base = out.iter().find(|x| x.0 == "prov-list.cms").map(|x| x.1.clone());
        if let Some(mut f) = base.and_then(|b| m::parse(&b)) {
            if let Some(tbs) = m::cms_layout(&f).and_then(|l| l.crl).map(|mut p| { p.push(0); p }) {
                if let Some(kids) = m::at_mut(&mut f, &tbs).and_then(|t| t.children_mut()) {
                    let entry = |serial: &[u8], when: &[u8]| T::cons(0x30, vec![T::leaf(0x02, serial), T::leaf(0x17, when)]);
                    let list = T::cons(0x30, vec![
                        entry(&[0x05], b"240101000000Z"),
                        entry(&[0x00, 0x80], b"240201000000Z"),
                        entry(&[0x7F, 0xFF, 0xFF, 0xFF, 0xFF, 0xFF, 0xFF, 0xFF], b"240301000000Z"),
                    ]);
                    // TBSCertList: version, signature, issuer, thisUpdate, nextUpdate, [revoked], [0] extensions
                    if kids.len() >= 6 {
                        if kids[5].tag == 0x30 {
                            kids[5] = list; // the library writes an empty list
                        } else {
                            kids.insert(5, list);
                        }
                        let k0 = |d: &[u8]| pool.key(0).sign_raw(d);
                        let k1 = |d: &[u8]| pool.key(1).sign_raw(d);
                        if m::resign_cms(&mut f, &|d| crate::keys::sha256(d), &k1, &k0) {
                            out.push(("prov-list-revoked.cms".into(), m::to_bytes(&f), cms_eps.clone(), Plan::Cms { ee: 1, issuer: 0 }));
                        }
                    }
                }
            }
        }
    }
    // TAL
    {
        let text = format!(
            "# built by the C04 harness\nrsync://example.com/ta/ta.cer\nhttps://example.com/ta/ta.cer\n\n{}\n",
            wrap64(&self::c04_eval::b64(&pool.key(0).spki))
        );
        out.push(("built.tal".into(), text.into_bytes(), vec![Ep::Tal], Plan::None));
        let text = format!("https://example.com/ta/ta.cer\r\n\r\n{}", self::c04_eval::b64(&pool.key(1).spki));
        out.push(("crlf.tal".into(), text.into_bytes(), vec![Ep::Tal], Plan::None));
    }
    out
}

fn ta_bytes(c: &rpki::repository::Cert) -> Vec<u8> {
    c.to_captured().into_bytes().to_vec()
}

fn wrap64(s: &str) -> String {
    s.as_bytes().chunks(64).map(|c| std::str::from_utf8(c).unwrap()).collect::<Vec<_>>().join("\n")
}

/// Sub-structures that decode through the component entry points, found by
/// trying every subtree of every seed (decode only, no sweep).
fn discover(seeds: &[Seed], fixed: &Fixed, cap_per_ep: usize) -> Vec<Seed> {
    let targets = [
        Ep::AsResDer,
        Ep::IpResDer,
        Ep::MftContentDer,
        Ep::CrlTbsDer,
        Ep::Time,
        Ep::Serial,
        Ep::Name,
        Ep::PubKey,
    ];
    let twin = |e: Ep| match e {
        Ep::AsResDer => vec![Ep::AsResDer, Ep::AsResBer],
        Ep::IpResDer => vec![Ep::IpResDer, Ep::IpResBer],
        Ep::MftContentDer => vec![Ep::MftContentDer, Ep::MftContentBer],
        Ep::CrlTbsDer => vec![Ep::CrlTbsDer, Ep::CrlTbsBer],
        other => vec![other],
    };
    let opts = Opts { crypto: false, fixed, light: true };
    let mut found: Vec<Seed> = Vec::new();
    let mut seen: HashSet<u64> = HashSet::new();
    let mut per: std::collections::BTreeMap<Ep, usize> = Default::default();
    fn subtrees(f: &[T], out: &mut Vec<Vec<u8>>) {
        for t in f {
            let mut b = Vec::new();
            t.ser(&mut b);
            if b.len() >= 3 && b.len() <= 8192 {
                out.push(b);
            }
            if let Some(c) = t.children() {
                subtrees(c, out);
            }
        }
    }
    for s in seeds {
        let Some(f) = &s.forest else { continue };
        if s.data.len() > 20_000 {
            continue;
        }
        let mut subs = Vec::new();
        subtrees(f, &mut subs);
        for b in subs {
            let h = fnv64(&b);
            if !seen.insert(h) {
                continue;
            }
            for ep in targets {
                if *per.get(&ep).unwrap_or(&0) >= cap_per_ep {
                    continue;
                }
                // small values of the scalar decoders: keep only a few
                let ok = catch(|| decode_only(ep, &b, &opts)).unwrap_or(false);
                if ok {
                    *per.entry(ep).or_insert(0) += 1;
                    found.push(Seed {
                        name: format!("part/{}#{}@{}", ep.name(), per[&ep], s.name),
                        forest: m::parse(&b),
                        data: b.clone(),
                        home: twin(ep),
                        text: false,
                        plan: Plan::None,
                    });
                }
            }
        }
    }
    found
}

fn decode_only(ep: Ep, data: &[u8], _o: &Opts) -> bool {
    use bcder::Mode;
    use rpki::repository::resources::{AsResources, IpResources};
    match ep {
        Ep::AsResDer => Mode::Der.decode(data, AsResources::take_from).is_ok(),
        Ep::IpResDer => Mode::Der.decode(data, IpResources::take_families_from).is_ok(),
        Ep::MftContentDer => Mode::Der.decode(data, rpki::repository::manifest::ManifestContent::take_from).is_ok(),
        Ep::CrlTbsDer => Mode::Der.decode(data, rpki::repository::crl::TbsCertList::take_from).is_ok(),
        Ep::Time => Mode::Der.decode(data, rpki::repository::x509::Time::take_from).is_ok(),
        Ep::Serial => data.len() > 4 && Mode::Der.decode(data, rpki::repository::x509::Serial::take_from).is_ok(),
        Ep::Name => Mode::Der.decode(data, rpki::repository::x509::Name::take_from).is_ok(),
        Ep::PubKey => rpki::crypto::PublicKey::decode(data).is_ok(),
        _ => false,
    }
}

//------------ Breadcrumb ---------------------------------------------------

/// `Ctx::breadcrumb` re-creates the file on every call, which costs about a
/// millisecond on this file system; at 10^4..10^6 evaluations per shard that
/// is the whole budget. This writer keeps `<out>.crumb` open and overwrites
/// it in place (padding with blanks up to the longest record so far), so the
/// driver still finds the culprit at the end of the file if the shard dies.
struct Crumb {
    file: Option<std::fs::File>,
    longest: usize,
    buf: Vec<u8>,
}

impl Crumb {
    fn new(ctx: &Ctx) -> Self {
        let file = ctx.out_path.as_ref().and_then(|p| std::fs::File::create(format!("{}.crumb", p)).ok());
        Crumb { file, longest: 0, buf: Vec::new() }
    }

    fn put(&mut self, parts: &[&[u8]]) {
        use std::io::{Seek, SeekFrom, Write};
        let Some(f) = &mut self.file else { return };
        // right-aligned: the record is always the tail of the file
        let len: usize = parts.iter().map(|p| p.len()).sum::<usize>() + 1;
        self.longest = self.longest.max(len);
        self.buf.clear();
        self.buf.resize(self.longest - len, b' ');
        self.buf.push(b'\n');
        for p in parts {
            self.buf.extend_from_slice(p);
        }
        let _ = f.seek(SeekFrom::Start(0));
        let _ = f.write_all(&self.buf);
    }
}

//------------ CPU clock calibration -----------------------------------------

/// A fixed piece of pure computation (about a millisecond). In this sandbox
/// the thread CPU clock also runs while the hypervisor has the vCPU
/// descheduled, so under host load a measurement can be inflated by an order
/// of magnitude; an over-budget measurement only counts when this reference,
/// taken right next to it, is not inflated as well.
fn spin_ns() -> u64 {
    let t0 = thread_cpu_ns();
    let mut h = 0xcbf2_9ce4_8422_2325u64;
    for i in 0..400_000u64 {
        h = (h ^ (i & 0xFF)).wrapping_mul(0x0100_0000_01b3);
    }
    std::hint::black_box(h);
    thread_cpu_ns().saturating_sub(t0)
}

fn calibrate() -> u64 {
    (0..7).map(|_| spin_ns()).min().unwrap_or(1).max(1)
}

//------------ Runaway watchdog ----------------------------------------------

/// CPU time (ns, worker thread clock) at which the evaluation in progress
/// started; 0 while idle.
static EVAL_STARTED_AT: std::sync::atomic::AtomicU64 = std::sync::atomic::AtomicU64::new(0);

/// A decoder that loops cannot be interrupted from inside. A helper thread
/// reads the *worker thread's CPU clock* (not wall time) twice a second; an
/// evaluation that has burnt more than 100 times the budget's constant part
/// (20 s) aborts the process, leaving the breadcrumb (entry point + input) for
/// the driver, which re-runs the shard and reports the repeated death.
fn start_watchdog() {
    let worker = unsafe { libc::pthread_self() };
    let _ = std::thread::Builder::new().name("c04-watchdog".into()).spawn(move || {
        let mut clk: libc::clockid_t = 0;
        if unsafe { libc::pthread_getcpuclockid(worker, &mut clk) } != 0 {
            return;
        }
        loop {
            std::thread::sleep(std::time::Duration::from_millis(500));
            let started = EVAL_STARTED_AT.load(std::sync::atomic::Ordering::Relaxed);
            if started == 0 {
                continue;
            }
            let mut ts = libc::timespec { tv_sec: 0, tv_nsec: 0 };
            unsafe { libc::clock_gettime(clk, &mut ts) };
            let now = ts.tv_sec as u64 * 1_000_000_000 + ts.tv_nsec as u64;
            if now.saturating_sub(started) > 20_000_000_000
                && EVAL_STARTED_AT.load(std::sync::atomic::Ordering::Relaxed) == started
            {
                eprintln!("C04 watchdog: one evaluation has used more than 20 s of CPU time (budget 0.2 s + 1 us/byte): runaway; aborting, see breadcrumb");
                std::process::abort();
            }
        }
    });
}

//------------ Monitor state -------------------------------------------------

struct Mon<'a> {
    opts: Opts<'a>,
    native: bool,
    miri: bool,
    evals: u64,
    accepted: u64,
    rejected: u64,
    trivial: u64,
    validated: u64,
    panics: u64,
    h1_bad: u64,
    since_drain: u32,
    max_heap_permille: u64,
    max_cpu_permille: u64,
    slow: u64,
    spin_base: u64,
    crumb_every: u32,
    crumb: Crumb,
    /// iterator adapter laws inside the accessor sweep (c04_iter.rs)
    laws: c04_iter::Stats,
}

struct Case<'c> {
    ep: Ep,
    data: &'c [u8],
    mutator: &'c str,
    seed: &'c str,
}

fn detail(c: &Case, extra: Value) -> Value {
    let mut d = json!({
        "ep": c.ep.name(),
        "mutator": c.mutator,
        "seed": c.seed,
        "len": c.data.len(),
        "fnv64": format!("{:016x}", fnv64(c.data)),
        "replay_case": {"ep": c.ep.name(), "hex": if c.data.len() <= 300_000 { hex(c.data) } else { String::new() }},
    });
    if let (Some(o), Some(e)) = (d.as_object_mut(), extra.as_object()) {
        for (k, v) in e {
            o.insert(k.clone(), v.clone());
        }
    }
    d
}

impl Mon<'_> {
    /// One oracle evaluation.
    fn eval(&mut self, ctx: &mut Ctx, c: &Case) -> Option<Outcome> {
        self.evals += 1;
        if self.crumb_every <= 1 || self.evals % self.crumb_every as u64 == 0 {
            let head = format!("ep={} mutator={} seed={} len={} ", c.ep.name(), c.mutator, c.seed, c.data.len());
            if c.data.len() <= 6000 {
                let h = hex(c.data);
                self.crumb.put(&[head.as_bytes(), b"hex=", h.as_bytes()]);
            } else {
                let t = format!(
                    "fnv64={:016x} eval_index={} (input too long for the breadcrumb; regenerate with the same seed/shard)",
                    fnv64(c.data), self.evals
                );
                self.crumb.put(&[head.as_bytes(), t.as_bytes()]);
            }
        }
        let (res, peak, cpu) = self.measure(c);
        let out = match res {
            Ok(o) => o,
            Err((text, via)) => {
                self.panics += 1;
                // the panic happened while an iterator of the value was used through an adapter?
                let during = c04_iter::current();
                c04_iter::clear_current();
                ctx.violation(
                    &panic_sig(&text, &via),
                    &format!("panic in {} (decode or accessor sweep{}): {}{}", c.ep.name(),
                             during.map(|(i, a)| format!("; iterator {} used through {}", i, a)).unwrap_or_default(), text,
                             via.as_ref().map(|v| format!(" [reached from {}]", v)).unwrap_or_default()),
                    detail(c, json!({"panic": text, "innermost_library_frame": via,
                                     "during_iterator_adapter": during.map(|(i, a)| json!({"iterator": i, "adapter": a}))})),
                );
                self.after(ctx, c);
                return None;
            }
        };
        // iterators of the value under the standard adapters
        self.laws.add(&out.laws);
        for b in &out.law_breaks {
            ctx.violation(
                &format!("C04:iter-disagrees:{}:{}", b.iter, b.adapter),
                &format!("{} of the value decoded by {}: {}", b.iter, c.ep.name(), b.text),
                detail(c, json!({"iterator": b.iter, "adapter": b.adapter, "observed": b.text})),
            );
        }
        // resource budgets
        let hb = heap_budget(c.data.len());
        self.max_heap_permille = self.max_heap_permille.max(peak * 1000 / hb);
        if peak > hb {
            // confirm twice
            let again: Vec<u64> = (0..2).map(|_| self.measure(c).1).collect();
            if again.iter().all(|p| *p > hb) {
                ctx.violation(
                    &format!("C04:heap-budget:{}", c.ep.name()),
                    &format!("peak heap {} bytes for a {}-byte input exceeds 64 KiB + 64*len = {} (three runs)", peak, c.data.len(), hb),
                    detail(c, json!({"peak": peak, "budget": hb, "reruns": again})),
                );
            }
        }
        if self.native {
            let cb = cpu_budget_ns(c.data.len());
            self.max_cpu_permille = self.max_cpu_permille.max(cpu * 1000 / cb);
            if cpu * 10 > cb {
                // worth showing: what the slowest evaluations look like
                self.slow += 1;
                let shown = &c.data[..c.data.len().min(48)];
                ctx.sample("slow(>10% of the cpu budget)", || {
                    json!({"ep": c.ep.name(), "seed": c.seed, "mutator": c.mutator, "input_len": c.data.len(), "input_head_hex": hex(shown),
                           "cpu_ns": cpu, "budget_ns": cb, "peak_heap": peak, "observed": out.class, "accessor_results_touched": out.touched})
                });
            }
            if cpu > cb {
                // confirm: two further over-budget runs, each taken while the
                // reference computation next to it runs at its normal speed
                let mut over: Vec<u64> = Vec::new();
                let mut cleared = false;
                let mut noisy = 0;
                for attempt in 0..10u64 {
                    std::thread::sleep(std::time::Duration::from_millis(10 * attempt));
                    let before = spin_ns();
                    let t = self.measure(c).2;
                    let after = spin_ns();
                    if before > 2 * self.spin_base || after > 2 * self.spin_base {
                        noisy += 1;
                        continue;
                    }
                    if t <= cb {
                        cleared = true;
                        break;
                    }
                    over.push(t);
                    if over.len() == 2 {
                        break;
                    }
                }
                if !cleared && over.len() == 2 {
                    ctx.violation(
                        &format!("C04:cpu-budget:{}", c.ep.name()),
                        &format!("CPU time {} ns for a {}-byte input exceeds 0.2 s + 1 us*len = {} ns (three runs, clock reference steady)", cpu, c.data.len(), cb),
                        detail(c, json!({"cpu_ns": cpu, "budget_ns": cb, "reruns": over, "noisy_reruns_discarded": noisy})),
                    );
                } else if !cleared {
                    ctx.obs("cpu_over_budget_but_clock_too_noisy_to_confirm(not_a_verdict)", 1);
                } else {
                    ctx.obs("cpu_over_budget_once_not_confirmed(clock_noise)", 1);
                }
            }
        }
        if out.ok {
            self.accepted += 1;
            if out.validated {
                self.validated += 1;
            }
        } else {
            self.rejected += 1;
        }
        // case signature: (entry point, mutator, outcome class, how deep the decoder got)
        let depth = if out.ok {
            9
        } else if c.data.is_empty() {
            0
        } else {
            (out.err_pos.min(c.data.len()) * 8 / c.data.len().max(1)).min(8)
        };
        if !out.ok && out.err_pos <= 4 {
            self.trivial += 1;
        } else {
            ctx.sig(&format!("{}|{}|{}|d{}", c.ep.name(), c.mutator, out.class, depth));
        }
        // samples by what was observed (a few literal cases per kind)
        let kind: &str = if c.mutator == "unchanged" {
            if out.ok { "unchanged seed accepted" } else { "unchanged seed through a foreign entry point" }
        } else if c.mutator.starts_with("nest:") {
            "nesting tower (child process, 2 MiB stack)"
        } else if c.mutator.starts_with("resign") && out.validated {
            "re-signed mutant that passed validation against the fixed issuer"
        } else if out.validated {
            "mutant accepted and validated"
        } else if out.ok {
            "mutant accepted by the decoder"
        } else if out.err_pos <= 4 {
            "mutant rejected at the outermost header (trivial)"
        } else {
            "mutant rejected inside the decoder"
        };
        if ctx.wants_sample(kind) {
            let shown = &c.data[..c.data.len().min(96)];
            ctx.sample(kind, || {
                json!({"ep": c.ep.name(), "seed": c.seed, "mutator": c.mutator, "input_len": c.data.len(), "input_head_hex": hex(shown),
                       "observed": out.class, "error_position": out.err_pos, "accessor_results_touched": out.touched,
                       "validated_against_fixed_issuer": out.validated, "peak_heap": peak, "cpu_ns": cpu})
            });
        }
        self.after(ctx, c);
        Some(out)
    }

    fn measure(&self, c: &Case) -> (Result<Outcome, (String, Option<String>)>, u64, u64) {
        c04_iter::clear_current();
        let base = window_start();
        let t0 = if self.miri { 0 } else { thread_cpu_ns() };
        EVAL_STARTED_AT.store(t0, std::sync::atomic::Ordering::Relaxed);
        let res = catch2(|| evaluate(c.ep, c.data, &self.opts));
        EVAL_STARTED_AT.store(0, std::sync::atomic::Ordering::Relaxed);
        let t1 = if self.miri { 0 } else { thread_cpu_ns() };
        let (peak, _) = window_peak(base);
        (res, peak, t1.saturating_sub(t0))
    }

    /// Hook H1 (chain invariant inside rpki-rs) is C03's observation point;
    /// decoding hostile resource extensions does produce non-canonical chains
    /// on this tree (F1/F2). That is not what C04 states, so it is recorded as
    /// an observation here and never as a C04 violation.
    fn after(&mut self, ctx: &mut Ctx, c: &Case) {
        self.since_drain += 1;
        if self.since_drain >= 64 {
            self.drain(ctx, Some(c));
        }
    }

    fn drain(&mut self, ctx: &mut Ctx, c: Option<&Case>) {
        self.since_drain = 0;
        let (count, bad) = rpki::repository::resources::verif_take_chain_observations();
        ctx.h1_chains += count;
        if !bad.is_empty() {
            self.h1_bad += bad.len() as u64;
            let kinds: Vec<String> = bad.iter().map(|s| s.to_string()).collect();
            ctx.sample("h1-noncanonical-chain-observed(not-a-C04-verdict)", || {
                json!({"kinds": kinds, "within_64_evaluations_before": c.map(|c| json!({"ep": c.ep.name(), "seed": c.seed, "mutator": c.mutator}))})
            });
        }
    }

    fn flush(&mut self, ctx: &mut Ctx) {
        self.drain(ctx, None);
        ctx.evals(self.evals);
        ctx.obs("accepted", self.accepted);
        ctx.obs("rejected", self.rejected);
        ctx.obs("rejected_at_outermost_header(trivial)", self.trivial);
        ctx.obs("accepted_and_validated_against_fixed_issuer", self.validated);
        ctx.obs("panics_caught", self.panics);
        ctx.obs("h1_noncanonical_chains_seen(observation_only)", self.h1_bad);
        ctx.obs_max("heap_peak_permille_of_budget", self.max_heap_permille);
        for (k, v) in self.laws.pairs() {
            ctx.obs(k, v);
        }
        self.laws = Default::default();
        if self.native {
            ctx.obs_max("cpu_permille_of_budget", self.max_cpu_permille);
            ctx.obs("evaluations_over_10pct_of_cpu_budget", self.slow);
            self.slow = 0;
        }
        self.evals = 0;
        self.accepted = 0;
        self.rejected = 0;
        self.trivial = 0;
        self.validated = 0;
        self.panics = 0;
        self.h1_bad = 0;
    }
}

//------------ text mutation (TAL) -------------------------------------------

fn mutate_text(data: &mut Vec<u8>, rng: &mut Rng) -> &'static str {
    match rng.below(8) {
        0 => {
            // duplicate / delete / swap a line
            let mut lines: Vec<Vec<u8>> = data.split(|b| *b == b'\n').map(|l| l.to_vec()).collect();
            if !lines.is_empty() {
                let i = rng.usize_below(lines.len());
                match rng.below(3) {
                    0 => {
                        let l = lines[i].clone();
                        lines.insert(i, l);
                    }
                    1 => {
                        lines.remove(i);
                    }
                    _ => {
                        let j = rng.usize_below(lines.len());
                        lines.swap(i, j);
                    }
                }
            }
            *data = lines.join(&b'\n');
            "text-line"
        }
        1 => {
            let p = rng.usize_below(data.len() + 1);
            let ins: &[u8] = *rng.pick(&[
                b"#".as_ref(),
                b"\n".as_ref(),
                b"\r\n".as_ref(),
                b"\n\n".as_ref(),
                b"=".as_ref(),
                b"rsync://".as_ref(),
                b"https://h/\n".as_ref(),
                b"\0".as_ref(),
                b"\xff".as_ref(),
                b" ".as_ref(),
                b"====".as_ref(),
            ]);
            data.splice(p..p, ins.iter().copied());
            "text-insert"
        }
        2 => {
            if !data.is_empty() {
                let p = rng.usize_below(data.len());
                data.truncate(p);
            }
            "trunc-random"
        }
        3 => {
            // replace the key part by base64 of something else
            if let Some(p) = data.windows(2).rposition(|w| w == b"\n\n") {
                data.truncate(p + 2);
                let n = rng.usize_below(400);
                let junk = rng.bytes(n);
                data.extend_from_slice(self::c04_eval::b64(&junk).as_bytes());
            }
            "text-key"
        }
        4 => {
            m::mutate_raw(data, "raw-flip", rng);
            "raw-flip"
        }
        5 => {
            m::mutate_raw(data, "raw-delete", rng);
            "raw-delete"
        }
        6 => {
            m::mutate_raw(data, "raw-insert", rng);
            "raw-insert"
        }
        _ => {
            m::mutate_raw(data, "raw-copy", rng);
            "raw-copy"
        }
    }
}

//------------ child processes (deep nesting, isolated replays) ---------------

type Item = (Vec<Ep>, Vec<u8>, String);

struct ChildResult {
    out: Option<Value>,
    died: Option<String>,
    crumb: String,
    stderr_tail: String,
}

fn run_child(ctx: &Ctx, tag: &str, items: &[Item]) -> Option<ChildResult> {
    let exe = std::env::current_exe().ok()?;
    let dir = match &ctx.out_path {
        Some(p) => PathBuf::from(p).parent().map(|p| p.to_path_buf()).unwrap_or_else(std::env::temp_dir),
        None => build_dir().join("run"),
    };
    let _ = std::fs::create_dir_all(&dir);
    let base = dir.join(format!("C04-child-{}-{}-{}", std::process::id(), ctx.shard, tag));
    let case_path = base.with_extension("case.json");
    let out_path = base.with_extension("out.json");
    let _ = std::fs::remove_file(&out_path);
    let case = json!({
        "child": true,
        "items": items.iter().map(|(eps, data, what)| json!({"eps": eps.iter().map(|e| e.name()).collect::<Vec<_>>(), "hex": hex(data), "what": what})).collect::<Vec<_>>(),
    });
    std::fs::write(&case_path, serde_json::to_string(&case).ok()?).ok()?;
    let stage = format!("{:?}", ctx.stage).to_lowercase();
    let tier = if ctx.tier == Tier::Thorough { "thorough" } else { "quick" };
    let output = std::process::Command::new(exe)
        .args(["C04", "--tier", tier, "--stage", &stage, "--seed", &ctx.seed.to_string(), "--shard", "0/1"])
        .arg("--case")
        .arg(&case_path)
        .arg("--out")
        .arg(&out_path)
        .output()
        .ok()?;
    let stderr = String::from_utf8_lossy(&output.stderr).to_string();
    let crumb_path = format!("{}.crumb", out_path.to_string_lossy());
    let crumb = std::fs::read_to_string(&crumb_path).unwrap_or_default();
    let out = std::fs::read_to_string(&out_path).ok().and_then(|t| serde_json::from_str::<Value>(&t).ok());
    let died = if output.status.success() && out.is_some() {
        None
    } else {
        use std::os::unix::process::ExitStatusExt;
        Some(if stderr.contains("has overflowed its stack") || stderr.contains("stack overflow") {
            "stack-overflow".to_string()
        } else if stderr.contains("memory allocation of") {
            "alloc-failure".to_string()
        } else if let Some(sig) = output.status.signal() {
            if sig == libc::SIGXCPU {
                "cpu-limit".to_string()
            } else {
                format!("signal-{}", sig)
            }
        } else {
            format!("exit-{}", output.status.code().unwrap_or(-1))
        })
    };
    let _ = std::fs::remove_file(&case_path);
    let _ = std::fs::remove_file(&out_path);
    let _ = std::fs::remove_file(&crumb_path);
    let tail: String = stderr.chars().rev().take(600).collect::<String>().chars().rev().collect();
    Some(ChildResult { out, died, crumb, stderr_tail: tail })
}

/// Runs items in a child; merges what the child observed; a child that dies
/// is narrowed down to the item named in its breadcrumb, which is then re-run
/// alone twice: the same death twice is the violation.
fn isolated(ctx: &mut Ctx, tag: &str, items: Vec<Item>) {
    let Some(res) = run_child(ctx, tag, &items) else {
        ctx.notes.push("C04: could not spawn a child process for the isolated class".into());
        return;
    };
    if let Some(out) = &res.out {
        merge_child(ctx, out);
    }
    let Some(how) = res.died else { return };
    // which item / entry point?
    let field = |key: &str| -> Option<String> {
        res.crumb.split_whitespace().find_map(|w| w.strip_prefix(key).map(|s| s.to_string()))
    };
    let idx = field("item=").and_then(|s| s.parse::<usize>().ok());
    let ep = field("ep=").and_then(|s| Ep::from_name(&s));
    let (Some(idx), Some(ep)) = (idx.filter(|i| *i < items.len()), ep) else {
        ctx.notes.push(format!("C04: child for {} died ({}) without a usable breadcrumb: {}", tag, how, res.stderr_tail));
        return;
    };
    let (_, data, what) = &items[idx];
    let culprit = vec![(vec![ep], data.clone(), what.clone())];
    let mut same = 0;
    for k in 0..2 {
        if let Some(r) = run_child(ctx, &format!("{}-confirm{}", tag, k), &culprit) {
            if r.died.as_deref() == Some(how.as_str()) {
                same += 1;
            }
        }
    }
    if same == 2 {
        ctx.violation(
            &format!("C04:process-died:{}:{}", how, ep.name()),
            &format!("the process decoding this input through {} dies ({}); confirmed by two isolated re-runs", ep.name(), how),
            json!({"ep": ep.name(), "what": what, "len": data.len(), "fnv64": format!("{:016x}", fnv64(data)),
                   "stderr_tail": res.stderr_tail,
                   "replay_case": {"ep": ep.name(), "hex": if data.len() <= 300_000 { hex(data) } else { String::new() }, "isolate": true}}),
        );
    } else {
        ctx.notes.push(format!("C04: child died once ({}) on {} / {} but not on isolated re-runs (not a verdict)", how, ep.name(), what));
    }
    // the rest of the batch still deserves a run: the remaining entry points
    // of the culprit item and everything after it
    let mut rest: Vec<Item> = Vec::new();
    let after: Vec<Ep> = items[idx].0.iter().copied().skip_while(|e| *e != ep).skip(1).collect();
    if !after.is_empty() {
        rest.push((after, data.clone(), what.clone()));
    }
    rest.extend(items[idx + 1..].iter().cloned());
    if !rest.is_empty() {
        isolated(ctx, &format!("{}r", tag), rest);
    }
}

fn merge_child(ctx: &mut Ctx, out: &Value) {
    ctx.evals(out["evaluations"].as_u64().unwrap_or(0));
    if let Some(v) = out["violations"].as_array() {
        for x in v {
            ctx.violation(x["sig"].as_str().unwrap_or("C04:child"), x["desc"].as_str().unwrap_or(""), x["detail"].clone());
        }
    }
    if let Some(o) = out["observations"].as_object() {
        for (k, v) in o {
            let n = v.as_u64().unwrap_or(0);
            if let Some(name) = k.strip_prefix("max:") {
                ctx.obs_max(name, n);
            } else {
                ctx.obs(k, n);
            }
        }
    }
    if let Some(s) = out["signatures"].as_array() {
        for h in s {
            if let Some(h) = h.as_str().and_then(|h| u64::from_str_radix(h, 16).ok()) {
                ctx.sig_hash(h);
            }
        }
    }
    ctx.h1_chains += out["h1_chains"].as_u64().unwrap_or(0);
    if let Some(list) = out["samples"].as_array() {
        for smp in list {
            if let Some(kind) = smp["kind"].as_str() {
                ctx.sample(kind, || smp["case"].clone());
            }
        }
    }
}

fn set_limits(cpu_s: u64, as_bytes: Option<u64>) {
    unsafe {
        let lim = libc::rlimit { rlim_cur: cpu_s, rlim_max: cpu_s + 5 };
        libc::setrlimit(libc::RLIMIT_CPU, &lim);
        if let Some(b) = as_bytes {
            let lim = libc::rlimit { rlim_cur: b, rlim_max: b };
            libc::setrlimit(libc::RLIMIT_AS, &lim);
        }
    }
}

//------------ run -----------------------------------------------------------

pub fn run(ctx: &mut Ctx) {
    let miri = ctx.is_miri();
    let native = ctx.is_native();
    let crypto = !ctx.no_ffi();
    install_hook();
    let fixed = if crypto { Fixed::with_crypto() } else { Fixed::without_crypto() };
    if crypto && fixed.issuer.is_none() {
        ctx.notes.push("C04: the fixed issuer could not be built; validate*/process were not driven".into());
    }
    let mut mon = Mon {
        opts: Opts { crypto, fixed: &fixed, light: miri },
        native,
        miri,
        evals: 0,
        accepted: 0,
        rejected: 0,
        trivial: 0,
        validated: 0,
        panics: 0,
        h1_bad: 0,
        since_drain: 0,
        max_heap_permille: 0,
        max_cpu_permille: 0,
        slow: 0,
        spin_base: if native { calibrate() } else { 1 },
        crumb_every: 1,
        crumb: Crumb::new(ctx),
        laws: Default::default(),
    };

    // ---- literal cases (replay, child batches, fuzz artifacts)
    if let Some(case) = ctx.case.clone() {
        run_case(ctx, &mut mon, &case);
        mon.flush(ctx);
        return;
    }

    if native {
        // a runaway loop / allocation must kill the shard (driver reports the
        // breadcrumb) instead of hanging it or the machine
        start_watchdog();
        set_limits(if ctx.tier == Tier::Thorough { 3400 } else { 1500 }, Some(12 << 30));
    }

    // ---- corpus
    if miri {
        run_miri(ctx, &mut mon);
        mon.flush(ctx);
        return;
    }
    let mut seeds = captured_seeds(usize::MAX);
    let n_captured = seeds.len();
    seeds.extend(built_seeds(crypto, usize::MAX));
    if crypto {
        seeds.extend(boundary_attr_seeds());
    }
    let n_built = seeds.len() - n_captured;
    let parts = discover(&seeds, &fixed, 6);
    let n_parts = parts.len();
    {
        // leave the discovered parts for the Miri stage (which cannot afford the discovery)
        let file = build_dir().join("c04-seeds-v4").join("parts.json");
        if !file.exists() && file.parent().map(|p| p.exists()).unwrap_or(false) {
            let items: Vec<Value> = parts
                .iter()
                .filter(|s| s.data.len() <= 600)
                .map(|s| json!({"name": s.name, "hex": hex(&s.data), "home": s.home.iter().map(|e| e.name()).collect::<Vec<_>>()}))
                .collect();
            let tmp = file.with_extension(format!("tmp{}", std::process::id()));
            if std::fs::write(&tmp, serde_json::to_string(&items).unwrap_or_default()).is_ok() {
                let _ = std::fs::rename(&tmp, &file);
            }
        }
    }
    seeds.extend(parts);
    if seeds.is_empty() {
        ctx.notes.push("C04: no seed corpus found (test-data missing?)".into());
        return;
    }
    if n_built == 0 {
        ctx.notes.push("C04: no library-built seed objects available in this stage (cache empty and signing impossible)".into());
    }
    ctx.obs_max("seeds_captured_files", n_captured as u64);
    ctx.obs_max("seeds_built_objects", n_built as u64);
    ctx.obs_max("seeds_discovered_substructures", n_parts as u64);
    let donors: Vec<Vec<T>> = seeds.iter().filter(|s| s.data.len() <= 20_000).filter_map(|s| s.forest.clone()).collect();
    let mut oids: Vec<Vec<u8>> = Vec::new();
    for d in &donors {
        for i in m::find_all(d, &|t| t.tag == 0x06) {
            if let Some(T { body: m::Body::Leaf(b), .. }) = m::node(d, i) {
                if !oids.contains(b) {
                    oids.push(b.clone());
                }
            }
        }
    }
    let pools = Pools { donors: &donors, oids: &oids };

    // ---- 1. every seed unchanged through every entry point
    let mut idx = 0u64;
    for s in &seeds {
        for ep in ALL_EPS {
            idx += 1;
            if !ctx.mine(idx) {
                continue;
            }
            if s.data.len() > 50_000 && !s.home.contains(ep) {
                continue;
            }
            mon.eval(ctx, &Case { ep: *ep, data: &s.data, mutator: "unchanged", seed: &s.name });
        }
    }

    // ---- 2. truncation at every TLV boundary
    {
        let asan = ctx.stage == Stage::Asan;
        for s in &seeds {
            let Some(f) = &s.forest else { continue };
            if s.data.len() > 12_000 {
                continue;
            }
            let cuts = m::boundaries(f);
            for cut in cuts {
                if cut >= s.data.len() {
                    continue;
                }
                idx += 1;
                if !ctx.mine(idx) || (asan && idx % 4 != 0) {
                    continue;
                }
                let data = &s.data[..cut];
                for ep in &s.home {
                    mon.eval(ctx, &Case { ep: *ep, data, mutator: "trunc-boundary", seed: &s.name });
                }
            }
        }
    }

    // ---- 3. deep nesting, each input in a child process (native only)
    if native {
        let depths: &[usize] = if ctx.tier == Tier::Thorough { &[100, 1000, 5000, 10_000, 30_000] } else { &[100, 1000, 10_000] };
        let mut batches: Vec<(String, Vec<Item>)> = Vec::new();
        // one representative seed per distinct home set
        let mut reps: Vec<&Seed> = Vec::new();
        for s in seeds.iter().filter(|s| s.forest.is_some() && s.data.len() <= 6_000 && !s.home.is_empty()) {
            if !reps.iter().any(|r| r.home == s.home) {
                reps.push(s);
            }
        }
        for &d in depths {
            let shapes: Vec<Item> = vec![
                (ALL_EPS.to_vec(), m::nest(0x30, d, false, &[0x05, 0x00]), format!("sequence-definite x{}", d)),
                (ALL_EPS.to_vec(), m::nest(0x30, d, true, &[0x05, 0x00]), format!("sequence-indefinite x{}", d)),
                (ALL_EPS.to_vec(), m::nest(0x31, d, true, &[]), format!("set-indefinite x{}", d)),
                (ALL_EPS.to_vec(), m::nest(0xA0, d, false, &[0x02, 0x01, 0x03]), format!("ctx0-definite x{}", d)),
                (ALL_EPS.to_vec(), m::nest(0x24, d, true, &[0x04, 0x02, 0x30, 0x00]), format!("octet-string-constructed-indefinite x{}", d)),
                (ALL_EPS.to_vec(), m::nest(0x24, d, false, &[0x04, 0x02, 0x30, 0x00]), format!("octet-string-constructed-definite x{}", d)),
                (ALL_EPS.to_vec(), m::nest(0x23, d, true, &[0x03, 0x01, 0x00]), format!("bit-string-constructed x{}", d)),
            ];
            batches.push((format!("nest{}", d), shapes));
            // the same towers planted inside real objects (content, extension, name, resources)
            let mut planted: Vec<Item> = Vec::new();
            let mut rng = Rng::derive(ctx.seed, &["C04", "plant"], &[d as u64]);
            for s in &reps {
                let f = s.forest.as_ref().unwrap();
                let total = m::count_all(f);
                for k in 0..4 {
                    let mut g = f.clone();
                    let at = rng.usize_below(total);
                    let (tag, indef, core): (u8, bool, Vec<u8>) = match k {
                        0 => (0x30, true, vec![0x05, 0x00]),
                        1 => (0x24, true, vec![0x04, 0x00]),
                        2 => (0x24, false, vec![0x04, 0x02, 0x30, 0x00]),
                        _ => (0x30, false, vec![0x02, 0x01, 0x00]),
                    };
                    let tower = m::nest(tag, d, indef, &core);
                    if let Some(n) = m::node_mut(&mut g, at) {
                        // a pre-serialised tower emitted verbatim in place of this node
                        *n = T { tag: tower[0], len: m::LenForm::Raw(Vec::new()), body: m::Body::Leaf(tower[1..].to_vec()) };
                    }
                    planted.push((
                        s.home.clone(),
                        m::to_bytes(&g),
                        format!("tower-planted(tag {:#x}, indefinite={}) x{} at node {} of {}", tag, indef, d, at, s.name),
                    ));
                }
            }
            batches.push((format!("plant{}", d), planted));
        }
        for (i, (tag, items)) in batches.into_iter().enumerate() {
            if ctx.mine(i as u64) {
                ctx.sig(&format!("isolated|{}", tag));
                isolated(ctx, &tag, items);
            }
        }
    }

    // ---- 4. random mutation
    let mut mutants = ctx.stage_budget((800_000, 10_000_000), 200_000, 0, 0);
    if let Some(n) = std::env::var("C04_MUTANTS").ok().and_then(|v| v.parse::<u64>().ok()) {
        mutants = n; // experiments only; never set by the driver
    }
    let mut rng = ctx.rng("mutate");
    // seed weights: favour small objects (time per mutant), never starve big ones
    let weights: Vec<u64> = seeds
        .iter()
        .map(|s| {
            let base: u64 = if s.data.len() > 100_000 {
                1
            } else if s.data.len() > 8_000 {
                6
            } else {
                40
            };
            if s.home.is_empty() {
                base / 4 + 1
            } else {
                base
            }
        })
        .collect();
    let wsum: u64 = weights.iter().sum();
    let mut produced = 0u64;
    let mut mutator_names = String::new();
    let signer = if crypto { Some(crate::keys::PoolSigner::new(3)) } else { None };

    // ---- 3b. generated RFC 3779 values at the ends of the number spaces
    run_generated_resources(ctx, &mut mon, &seeds, signer.as_ref());
    mon.flush(ctx);

    // ---- 3b'. iterators of decoded values under the standard adapters
    c04_iter::run_iter_laws(ctx, &mut mon, &seeds, signer.as_ref());
    mon.flush(ctx);
    if std::env::var_os("C04_ITER_ONLY").is_some() {
        return; // experiments only; never set by the driver
    }

    // ---- 3c. every list-like structure at n and 4n (16n) entries: scaling laws
    if crypto {
        let env = c04_scale::Env { seeds: &seeds, pool: signer.as_ref() };
        c04_scale::run_scaling(ctx, &mut mon, &env);
        mon.flush(ctx);
    }
    if std::env::var_os("C04_SCALE_ONLY").is_some() {
        return; // experiments only; never set by the driver
    }
    let resign_one_in: u64 = if ctx.tier == Tier::Thorough { 16 } else { 8 };
    let mut resigned = 0u64;
    while produced < mutants {
        produced += 1;
        // pick a seed
        let mut w = rng.below(wsum);
        let mut si = 0;
        for (i, x) in weights.iter().enumerate() {
            if w < *x {
                si = i;
                break;
            }
            w -= *x;
        }
        let s = &seeds[si];
        mutator_names.clear();
        let data: Vec<u8> = if let (true, Some(pool), Some(f0)) =
            (s.plan != Plan::None && rng.below(resign_one_in) == 0, signer.as_ref(), s.forest.as_ref())
        {
            // mutate inside a signed region, then recompute the signatures so the
            // mutant gets past the signature checks of validate*/process
            let mut f = f0.clone();
            let region: Option<Vec<usize>> = match s.plan {
                Plan::X509(_) => Some(vec![0, 0]),
                Plan::Cms { .. } => m::cms_layout(&f).map(|l| {
                    let mut choices: Vec<Vec<usize>> = vec![l.econtent.clone(), { let mut c = l.cert.clone(); c.push(0); c }];
                    if let Some(mut c) = l.crl.clone() {
                        c.push(0);
                        choices.push(c.clone());
                        choices.push(c);
                    }
                    choices[rng.usize_below(choices.len())].clone()
                }),
                Plan::None => None,
            };
            mutator_names.push_str("resign");
            if let Some(path) = region {
                if let Some(mut sub) = m::at(&f, &path).and_then(|t| t.children().cloned()) {
                    let k = 1 + rng.usize_below(2);
                    let mut applied = 0;
                    let mut tries = 0;
                    while applied < k && tries < 12 && !sub.is_empty() {
                        tries += 1;
                        let name = *rng.pick(m::TREE_MUTATORS);
                        if m::mutate_tree(&mut sub, name, &mut rng, &pools) {
                            mutator_names.push(if applied == 0 { ':' } else { '+' });
                            mutator_names.push_str(name);
                            applied += 1;
                        }
                    }
                    if let Some(c) = m::at_mut(&mut f, &path).and_then(|t| t.children_mut()) {
                        *c = sub;
                    }
                }
            }
            let sha = |d: &[u8]| crate::keys::sha256(d);
            match s.plan {
                Plan::X509(k) => {
                    m::resign_x509(&mut f, &[0], &|d| pool.key(k).sign_raw(d));
                }
                Plan::Cms { ee, issuer } => {
                    m::resign_cms(&mut f, &sha, &|d| pool.key(ee).sign_raw(d), &|d| pool.key(issuer).sign_raw(d));
                }
                Plan::None => {}
            }
            resigned += 1;
            m::to_bytes(&f)
        } else if s.text {
            let mut d = s.data.clone();
            let k = 1 + rng.usize_below(3);
            for i in 0..k {
                if i > 0 {
                    mutator_names.push('+');
                }
                mutator_names.push_str(mutate_text(&mut d, &mut rng));
            }
            d
        } else {
            let class = rng.below(100);
            if class < 3 {
                mutator_names.push_str("random");
                let n = *rng.pick(&[0usize, 1, 2, 3, 8, 64, 300, 2000]);
                let mut d = rng.bytes(n);
                if rng.bool() && !d.is_empty() {
                    d[0] = 0x30;
                }
                d
            } else if class < 8 {
                mutator_names.push_str("trunc-random");
                let mut d = s.data.clone();
                let p = rng.usize_below(d.len().max(1));
                d.truncate(p);
                d
            } else if class < 20 || s.forest.is_none() {
                let mut d = s.data.clone();
                let k = 1 + rng.usize_below(2);
                for i in 0..k {
                    let name = *rng.pick(m::RAW_MUTATORS);
                    if i > 0 {
                        mutator_names.push('+');
                    }
                    mutator_names.push_str(name);
                    m::mutate_raw(&mut d, name, &mut rng);
                }
                d
            } else {
                let mut f = s.forest.clone().unwrap();
                let k = match rng.below(10) {
                    0..=6 => 1,
                    7 | 8 => 2,
                    _ => 3,
                };
                let mut applied = 0;
                let mut tries = 0;
                while applied < k && tries < 12 {
                    tries += 1;
                    let name = *rng.pick(m::TREE_MUTATORS);
                    if m::mutate_tree(&mut f, name, &mut rng, &pools) {
                        if applied > 0 {
                            mutator_names.push('+');
                        }
                        mutator_names.push_str(name);
                        applied += 1;
                    }
                }
                if applied == 0 {
                    mutator_names.push_str("unchanged");
                }
                m::to_bytes(&f)
            }
        };
        if data.len() > 2_000_000 {
            continue;
        }
        // sig classes are per single mutator; stacked ones are classed by the first
        let class_name: &str = mutator_names.split('+').next().unwrap_or("unchanged");
        let stacked = mutator_names.contains('+');
        let label = if stacked { format!("{}+", class_name) } else { class_name.to_string() };
        for ep in &s.home {
            mon.eval(ctx, &Case { ep: *ep, data: &data, mutator: &label, seed: &s.name });
        }
        if s.home.is_empty() || rng.chance(1, 4) {
            let ep = *rng.pick(ALL_EPS);
            if !s.home.contains(&ep) {
                mon.eval(ctx, &Case { ep, data: &data, mutator: &label, seed: &s.name });
            }
        }
        if produced % 4096 == 0 {
            mon.flush(ctx);
        }
    }
    ctx.obs("mutants_generated", produced);
    ctx.obs("mutants_resigned_with_pool_keys", resigned);
    mon.flush(ctx);
}

//------------ generated resource values --------------------------------------
//
// Byte-level mutation of captured objects practically never produces the
// values at the ends of a number space (a *range* whose upper bound is the
// last address of the family is written with an empty BIT STRING; the first
// address likewise; AS ranges up to 2^32-1). The decoders take them, and the
// accessors of what they return (range-to-prefix decomposition, counts,
// displays, set algebra against the issuer) are exactly where arithmetic at
// the edges goes wrong. So RFC 3779 values are also *generated*: block lists
// from the boundary-dense endpoint pool of the C03 generators, written by
// the independent DER writer — on their own through the resource entry
// points, and planted into the extensions of library-built certificates and
// signed objects which are then re-signed with the pool keys so that the
// accessor sweep of the *decoded object* (and validation against the fixed
// issuer) runs over them.

const OID_IP_RES: [&[u8]; 2] = [&[0x2B, 6, 1, 5, 5, 7, 1, 7], &[0x2B, 6, 1, 5, 5, 7, 1, 28]];
const OID_AS_RES: [&[u8]; 2] = [&[0x2B, 6, 1, 5, 5, 7, 1, 8], &[0x2B, 6, 1, 5, 5, 7, 1, 29]];

/// One generated `SEQUENCE OF IPAddressOrRange` / `SEQUENCE OF ASIdOrRange`
/// and the class of its block list.
fn gen_blocks(fl: crate::c03_gen::Flavour, rng: &mut Rng) -> (Vec<u8>, &'static str) {
    use crate::c03_gen::Flavour;
    let reversed = rng.chance(1, 8);
    let (mut blocks, _) = crate::c03_ip::hostile_list(fl, rng, reversed);
    let shape = if reversed {
        "reversed"
    } else if rng.chance(2, 3) {
        // what a correct encoder writes: sorted, merged
        let m = fl.model(&blocks);
        blocks = m.iv.iter().map(|(a, b)| if fl == Flavour::V4 { (a >> 96, b >> 96) } else { (*a, *b) }).collect();
        "canonical"
    } else {
        "raw"
    };
    let as_range = rng.chance(1, 6);
    let der = if fl == Flavour::As { crate::c03::as_der(&blocks, as_range) } else { crate::c03_ip::ip_der(fl, &blocks, as_range) };
    (der, shape)
}

/// `IPAddrBlocks` (the extension value).
fn gen_ip_ext(rng: &mut Rng) -> (Vec<u8>, String) {
    use crate::c03_gen::Flavour;
    use crate::der;
    let fams: &[Flavour] = match rng.below(8) {
        0 | 1 => &[Flavour::V4],
        2 | 3 => &[Flavour::V6],
        4..=6 => &[Flavour::V4, Flavour::V6],
        _ => &[Flavour::V6, Flavour::V4],
    };
    let mut parts = Vec::new();
    let mut label = String::new();
    for fl in fams {
        let afi: &[u8] = if *fl == Flavour::V4 { &[0, 1] } else { &[0, 2] };
        let (choice, shape) = if rng.chance(1, 7) { (der::null(), "inherit") } else { gen_blocks(*fl, rng) };
        parts.push(der::seq(&[&der::octets(afi), &choice]));
        label.push_str(&format!("{}:{} ", fl.name(), shape));
    }
    (der::seq_of(&parts), label.trim_end().replace(' ', ","))
}

/// `ASIdentifiers` (the extension value).
fn gen_as_ext(rng: &mut Rng) -> (Vec<u8>, String) {
    use crate::der;
    let (choice, shape) = if rng.chance(1, 7) { (der::null(), "inherit") } else { gen_blocks(crate::c03_gen::Flavour::As, rng) };
    (der::seq(&[&der::tlv(0xA0, &choice)]), shape.to_string())
}

/// A generated value for the resource entry points: (bytes, home entry points, mutator label).
fn gen_resource_value(rng: &mut Rng) -> (Vec<u8>, [Ep; 2], String) {
    use crate::c03_gen::Flavour;
    const IP: [Ep; 2] = [Ep::IpResDer, Ep::IpResBer];
    const AS: [Ep; 2] = [Ep::AsResDer, Ep::AsResBer];
    match rng.below(6) {
        0 => {
            let (d, s) = gen_blocks(Flavour::V4, rng);
            (d, IP, format!("gen:v4-blocks:{}", s))
        }
        1 => {
            let (d, s) = gen_blocks(Flavour::V6, rng);
            (d, IP, format!("gen:v6-blocks:{}", s))
        }
        2 | 3 => {
            let (d, s) = gen_ip_ext(rng);
            (d, IP, format!("gen:ip-ext:{}", s))
        }
        4 => {
            let (d, s) = gen_blocks(Flavour::As, rng);
            (d, AS, format!("gen:as-blocks:{}", s))
        }
        _ => {
            let (d, s) = gen_as_ext(rng);
            (d, AS, format!("gen:as-ext:{}", s))
        }
    }
}

/// Replaces the value of every extension named by one of `oids` in the
/// forest with `content`. Returns whether anything was replaced.
fn plant_extension(f: &mut Vec<T>, oids: &[&[u8]], content: &[u8]) -> bool {
    let mut hits = m::find_all(f, &|t| t.tag == 0x06 && matches!(&t.body, m::Body::Leaf(b) if oids.iter().any(|o| *o == b.as_slice())));
    hits.reverse(); // later nodes first: replacing a value renumbers what follows it
    let mut done = false;
    for i in hits {
        // Extension ::= SEQUENCE { extnID, critical BOOLEAN OPTIONAL, extnValue OCTET STRING }
        for k in 1..=2 {
            let Some(t) = m::node_mut(f, i + k) else { break };
            if t.tag == 0x04 {
                t.len = m::LenForm::Min;
                t.body = match m::parse(content) {
                    Some(kids) => m::Body::Wrap(Vec::new(), kids),
                    None => m::Body::Leaf(content.to_vec()),
                };
                done = true;
                break;
            }
            if t.tag != 0x01 {
                break;
            }
        }
    }
    done
}

/// The generated-values stage (native and ASan).
fn run_generated_resources(ctx: &mut Ctx, mon: &mut Mon, seeds: &[Seed], signer: Option<&crate::keys::PoolSigner>) {
    let standalone = ctx.stage_budget((64_000, 800_000), 16_000, 0, 0);
    let mut rng = ctx.rng("gen-resources");
    let mut st_accepted = 0u64;
    for _ in 0..standalone {
        let (data, home, label) = gen_resource_value(&mut rng);
        for ep in home {
            if mon.eval(ctx, &Case { ep, data: &data, mutator: &label, seed: "generated" }).map(|o| o.ok).unwrap_or(false) {
                st_accepted += 1;
            }
        }
    }
    ctx.obs("generated_resource_values", standalone);
    ctx.obs("generated_resource_values:accepted(evaluations)", st_accepted);
    // planted into signed objects
    let Some(pool) = signer else { return };
    let is_res = |t: &T| t.tag == 0x06 && matches!(&t.body, m::Body::Leaf(b) if OID_IP_RES.iter().chain(OID_AS_RES.iter()).any(|o| *o == b.as_slice()));
    let hosts: Vec<&Seed> = seeds
        .iter()
        .filter(|s| s.plan != Plan::None && s.data.len() <= 20_000 && !s.home.is_empty())
        .filter(|s| s.forest.as_ref().map(|f| !m::find_all(f, &is_res).is_empty()).unwrap_or(false))
        .collect();
    ctx.obs_max("seeds_with_resource_extensions_and_known_keys", hosts.len() as u64);
    if hosts.is_empty() {
        return;
    }
    let planted = ctx.stage_budget((6_400, 80_000), 1_600, 0, 0);
    let mut done = 0u64;
    let (mut accepted, mut validated) = (0u64, 0u64);
    for _ in 0..planted {
        let s = hosts[rng.usize_below(hosts.len())];
        let mut f = s.forest.clone().unwrap();
        let mut label = String::from("gen-planted");
        let which = rng.below(3);
        let mut any = false;
        if which != 1 {
            let (d, l) = gen_ip_ext(&mut rng);
            if plant_extension(&mut f, &OID_IP_RES, &d) {
                any = true;
                label.push_str(&format!(":ip[{}]", l));
            }
        }
        if which != 0 {
            let (d, l) = gen_as_ext(&mut rng);
            if plant_extension(&mut f, &OID_AS_RES, &d) {
                any = true;
                label.push_str(&format!(":as[{}]", l));
            }
        }
        if !any {
            continue;
        }
        let sha = |d: &[u8]| crate::keys::sha256(d);
        match s.plan {
            Plan::X509(k) => {
                m::resign_x509(&mut f, &[0], &|d| pool.key(k).sign_raw(d));
            }
            Plan::Cms { ee, issuer } => {
                m::resign_cms(&mut f, &sha, &|d| pool.key(ee).sign_raw(d), &|d| pool.key(issuer).sign_raw(d));
            }
            Plan::None => {}
        }
        let data = m::to_bytes(&f);
        done += 1;
        for ep in &s.home {
            if let Some(out) = mon.eval(ctx, &Case { ep: *ep, data: &data, mutator: &label, seed: &s.name }) {
                if out.ok {
                    accepted += 1;
                }
                if out.validated {
                    validated += 1;
                }
            }
        }
    }
    ctx.obs("generated_resources_planted_and_resigned", done);
    ctx.obs("generated_resources_planted:accepted_by_the_object_decoder", accepted);
    ctx.obs("generated_resources_planted:validated_against_fixed_issuer", validated);
}

//------------ Miri ----------------------------------------------------------

/// Miri interprets roughly 10^4 times slower than native code here (seconds
/// per certificate), so its stage works on the small sub-structures the native
/// stage discovered (resource extensions, names, times, serials, keys, CRL
/// bodies; cached in `.build/c04-seeds-v4/parts.json`), a few small captured
/// files, and hand-assembled values, with Debug/serde formatting skipped and
/// nothing that enters aws-lc. Every decoder reached here is pure parsing.
fn run_miri(ctx: &mut Ctx, mon: &mut Mon) {
    use crate::der;
    let mut seeds: Vec<Seed> = Vec::new();
    let mk = |name: &str, data: Vec<u8>, home: Vec<Ep>| Seed { name: name.into(), forest: m::parse(&data), data, home, text: false, plan: Plan::None };
    // hand-assembled (independent DER writer)
    let asres = der::seq(&[&der::tlv(0xA0, &der::seq(&[&der::uint(64496), &der::seq(&[&der::uint(65000), &der::uint(65100)]), &der::seq(&[&der::uint(4_200_000_000), &der::uint(u32::MAX as u128)])]))]);
    seeds.push(mk("hand/asres", asres, vec![Ep::AsResDer, Ep::AsResBer]));
    let v4 = der::seq(&[&der::octets(&[0, 1]), &der::seq(&[&der::bitstring(0, &[10]), &der::seq(&[&der::bitstring(0, &[192, 168, 0]), &der::bitstring(0, &[192, 168, 5])])])]);
    let v6 = der::seq(&[&der::octets(&[0, 2]), &der::seq(&[&der::bitstring(0, &[0x20, 0x01, 0x0d, 0xb8])])]);
    seeds.push(mk("hand/ipres", der::seq(&[&v4, &v6]), vec![Ep::IpResDer, Ep::IpResBer]));
    seeds.push(mk("hand/utctime", der::utctime("250601120000Z"), vec![Ep::Time]));
    seeds.push(mk("hand/gentime", der::gentime("20510101000000Z"), vec![Ep::Time]));
    seeds.push(mk("hand/serial", der::uint(0x1234_5678_9ABC_DEF0), vec![Ep::Serial]));
    let name = der::seq(&[&der::set_of_sorted(&[der::seq(&[&der::oid(&[2, 5, 4, 3]), &der::tlv(der::T_PRINTABLE, b"c04")])])]);
    seeds.push(mk("hand/name", name.clone(), vec![Ep::Name]));
    let entry = |n: u128, t: &str| der::seq(&[&der::uint(n), &der::utctime(t)]);
    let tbs = der::seq(&[
        &der::uint(1),
        &der::seq(&[&der::oid(der::OID_SHA256_WITH_RSA), &der::null()]),
        &name,
        &der::utctime("250101000000Z"),
        &der::utctime("270101000000Z"),
        &der::seq(&[&entry(3, "240501000000Z"), &entry(0x80, "240601000000Z")]),
        &der::tlv(0xA0, &der::seq(&[
            &der::seq(&[&der::oid(&[2, 5, 29, 35]), &der::octets(&der::seq(&[&der::tlv(0x80, &[7u8; 20])]))]),
            &der::seq(&[&der::oid(&[2, 5, 29, 20]), &der::octets(&der::uint(9))]),
        ])),
    ]);
    seeds.push(mk("hand/crltbs", tbs, vec![Ep::CrlTbsDer, Ep::CrlTbsBer]));
    let fh = |n: &[u8]| der::seq(&[&der::ia5(n), &der::bitstring(0, &[0xAB; 32])]);
    let mft = der::seq(&[
        &der::uint(258),
        &der::gentime("20250101000000Z"),
        &der::gentime("20270101000000Z"),
        &der::oid(der::OID_SHA256),
        &der::seq(&[&fh(b"ca.crl"), &fh(b"AS64496-roa_1.roa")]),
    ]);
    seeds.push(mk("hand/mftcontent", mft, vec![Ep::MftContentDer, Ep::MftContentBer]));
    // parts discovered by the native stage
    let parts_file = build_dir().join("c04-seeds-v4").join("parts.json");
    let mut n_parts = 0u64;
    if let Ok(text) = std::fs::read_to_string(&parts_file) {
        if let Ok(Value::Array(items)) = serde_json::from_str::<Value>(&text) {
            for it in items {
                let data = unhex(it["hex"].as_str().unwrap_or(""));
                if data.is_empty() || data.len() > 400 {
                    continue;
                }
                let home: Vec<Ep> = it["home"].as_array().map(|a| a.iter().filter_map(|x| Ep::from_name(x.as_str().unwrap_or(""))).collect()).unwrap_or_default();
                // the scalar decoders are covered by the hand-made seeds
                if home.iter().any(|e| matches!(e, Ep::Time | Ep::Serial | Ep::Name)) && n_parts > 0 {
                    continue;
                }
                seeds.push(mk(it["name"].as_str().unwrap_or("part"), data, home));
                n_parts += 1;
            }
        }
    } else {
        ctx.notes.push("C04/miri: no cached sub-structures from the native stage; hand-assembled seeds only".into());
    }
    // a few small captured files
    for (file, home) in [
        ("test-data/crypto/rsa-key.public.der", vec![Ep::PubKey]),
        ("test-data/ca/router-csr.der", vec![Ep::BgpsecCsr]),
        ("test-data/repository/ta.crl", vec![Ep::Crl]),
        ("test-data/repository/ripe.tal", vec![Ep::Tal]),
    ] {
        if let Ok(data) = std::fs::read(repo_dir().join(file)) {
            let text = file.ends_with(".tal");
            seeds.push(Seed { name: file.into(), forest: if text { None } else { m::parse(&data) }, data, home, text, plan: Plan::None });
        }
    }
    ctx.obs_max("seeds_discovered_substructures", n_parts);
    ctx.obs_max("seeds_hand_assembled", 9);
    let donors: Vec<Vec<T>> = seeds.iter().filter_map(|s| s.forest.clone()).collect();
    let oids: Vec<Vec<u8>> = vec![vec![0x55, 0x04, 0x03], vec![0x55, 0x1D, 0x14]];
    let pools = Pools { donors: &donors, oids: &oids };
    let mut idx = 0u64;
    for s in &seeds {
        for ep in &s.home {
            idx += 1;
            if ctx.mine(idx) {
                mon.eval(ctx, &Case { ep: *ep, data: &s.data, mutator: "unchanged", seed: &s.name });
            }
        }
    }
    let mut mutants = ctx.stage_budget((0, 0), 0, 240, 0);
    if let Some(n) = std::env::var("C04_MUTANTS").ok().and_then(|v| v.parse::<u64>().ok()) {
        mutants = n;
    }
    let mut rng = ctx.rng("mutate-miri");
    for _ in 0..mutants {
        let s = &seeds[rng.usize_below(seeds.len())];
        let (data, label): (Vec<u8>, String) = if s.text {
            let mut d = s.data.clone();
            let l = mutate_text(&mut d, &mut rng);
            (d, l.to_string())
        } else if let (Some(f), true) = (&s.forest, rng.chance(4, 5)) {
            let mut g = f.clone();
            let mut label = String::from("unchanged");
            for _ in 0..8 {
                let name = *rng.pick(m::TREE_MUTATORS);
                if m::mutate_tree(&mut g, name, &mut rng, &pools) {
                    label = name.to_string();
                    break;
                }
            }
            (m::to_bytes(&g), label)
        } else {
            let mut d = s.data.clone();
            let name = *rng.pick(m::RAW_MUTATORS);
            m::mutate_raw(&mut d, name, &mut rng);
            (d, name.to_string())
        };
        let ep = if s.home.is_empty() { *rng.pick(ALL_EPS) } else { *rng.pick(&s.home) };
        mon.eval(ctx, &Case { ep, data: &data, mutator: &label, seed: &s.name });
    }
    ctx.obs("mutants_generated", mutants);
    // generated resource values (see `run_generated_resources`): pure parsing and arithmetic
    let generated = ctx.stage_budget((0, 0), 0, 96, 0);
    let mut rng = ctx.rng("gen-resources-miri");
    for _ in 0..generated {
        let (data, home, label) = gen_resource_value(&mut rng);
        let ep = *rng.pick(&home);
        mon.eval(ctx, &Case { ep, data: &data, mutator: &label, seed: "generated" });
    }
    ctx.obs("generated_resource_values", generated);
    // iterators of decoded values under the standard adapters: a handful of small values
    c04_iter::run_iter_laws(ctx, mon, &[], None);
}

//------------ literal cases --------------------------------------------------

/// Writes the structured corpus for the libFuzzer targets: every seed under
/// each of its home entry points (selector byte first), plus a handful of
/// tree mutants per seed so that the fuzzer starts from BER forms, boundary
/// integers and odd times as well.
fn write_corpus(ctx: &mut Ctx, dir: &str, crypto: bool, fixed: &Fixed) {
    use self::c04_eval::{FUZZ_CA, FUZZ_REPO, FUZZ_RESOURCES, FUZZ_TEXT};
    let groups: [(&str, &[Ep]); 4] = [("c04_repo", FUZZ_REPO), ("c04_ca", FUZZ_CA), ("c04_resources", FUZZ_RESOURCES), ("c04_text", FUZZ_TEXT)];
    let mut seeds = captured_seeds(usize::MAX);
    seeds.extend(built_seeds(crypto, usize::MAX));
    let parts = discover(&seeds, fixed, 6);
    seeds.extend(parts);
    let donors: Vec<Vec<T>> = seeds.iter().filter(|s| s.data.len() <= 20_000).filter_map(|s| s.forest.clone()).collect();
    let oids: Vec<Vec<u8>> = Vec::new();
    let pools = Pools { donors: &donors, oids: &oids };
    let mut rng = ctx.rng("corpus");
    let mut written = 0u64;
    for (gname, group) in groups {
        let gdir = PathBuf::from(dir).join(gname);
        let _ = std::fs::create_dir_all(&gdir);
        for s in &seeds {
            if s.data.len() > 60_000 {
                continue;
            }
            for ep in &s.home {
                let Some(sel) = group.iter().position(|e| e == ep) else { continue };
                let mut variants: Vec<Vec<u8>> = vec![s.data.clone()];
                if let Some(f) = &s.forest {
                    for _ in 0..3 {
                        let mut g = f.clone();
                        let name = *rng.pick(m::TREE_MUTATORS);
                        if m::mutate_tree(&mut g, name, &mut rng, &pools) {
                            variants.push(m::to_bytes(&g));
                        }
                    }
                }
                for v in variants {
                    let mut bytes = vec![sel as u8];
                    bytes.extend_from_slice(&v);
                    let file = gdir.join(format!("{:016x}", fnv64(&bytes)));
                    if std::fs::write(file, &bytes).is_ok() {
                        written += 1;
                    }
                }
            }
        }
    }
    // generated resource values for the resources target
    {
        let gdir = PathBuf::from(dir).join("c04_resources");
        let _ = std::fs::create_dir_all(&gdir);
        for _ in 0..600 {
            let (data, home, _) = gen_resource_value(&mut rng);
            for ep in home {
                let Some(sel) = FUZZ_RESOURCES.iter().position(|e| *e == ep) else { continue };
                let mut bytes = vec![sel as u8];
                bytes.extend_from_slice(&data);
                if std::fs::write(gdir.join(format!("{:016x}", fnv64(&bytes))), &bytes).is_ok() {
                    written += 1;
                }
            }
        }
    }
    ctx.obs("fuzz_corpus_files_written", written);
    ctx.evals(written);
    ctx.sig("corpus-written");
    ctx.sig("corpus");
}

fn run_case(ctx: &mut Ctx, mon: &mut Mon, case: &Value) {
    if let Some(dir) = case["write_corpus"].as_str() {
        let crypto = mon.opts.crypto;
        write_corpus(ctx, dir, crypto, mon.opts.fixed);
        return;
    }
    // a value whose iterators were put under adapter programs
    if case["iterlaws"].is_string() {
        c04_iter::run_iterlaws_case(ctx, mon, case);
        return;
    }
    // a scaling case: regenerate the shape at n and factor*n entries and measure again
    if case["scale"].is_string() {
        let crypto = mon.opts.crypto;
        let seeds = built_seeds(crypto, usize::MAX);
        let signer = if crypto { Some(crate::keys::PoolSigner::new(3)) } else { None };
        let env = c04_scale::Env { seeds: &seeds, pool: signer.as_ref() };
        c04_scale::run_scale_case(ctx, mon, &env, case);
        return;
    }
    // batch handed down by a parent shard
    if case["child"].as_bool() == Some(true) {
        set_limits(300, Some(6 << 30));
        let items = case["items"].as_array().cloned().unwrap_or_default();
        mon.crumb_every = u32::MAX; // item index + entry point are the breadcrumb here
        // evaluated on a thread with the default 2 MiB stack: that is what a
        // user of the library gets on any spawned thread / async worker
        std::thread::scope(|sc| {
            let h = std::thread::Builder::new().stack_size(2 << 20).spawn_scoped(sc, || {
                start_watchdog();
                for (i, it) in items.iter().enumerate() {
                    let data = unhex(it["hex"].as_str().unwrap_or(""));
                    let what = it["what"].as_str().unwrap_or("isolated").to_string();
                    let label = what.split(" x").next().unwrap_or("isolated").split('(').next().unwrap_or("isolated").trim().to_string();
                    let eps: Vec<Ep> = it["eps"]
                        .as_array()
                        .map(|a| a.iter().filter_map(|x| Ep::from_name(x.as_str().unwrap_or(""))).collect())
                        .unwrap_or_default();
                    for ep in eps {
                        let t = format!("item={} ep={} what={}", i, ep.name(), what.replace(' ', "_"));
                        mon.crumb.put(&[t.as_bytes()]);
                        mon.eval(ctx, &Case { ep, data: &data, mutator: &format!("nest:{}", label), seed: "isolated" });
                    }
                }
            });
            if let Ok(h) = h {
                let _ = h.join();
            }
        });
        return;
    }
    // libFuzzer artifact: first byte selects the entry point inside the target's group
    let (ep, data) = if let Some(target) = case["fuzz_target"].as_str() {
        let raw = unhex(case["hex"].as_str().unwrap_or(""));
        let group = match target {
            "repo" => self::c04_eval::FUZZ_REPO,
            "ca" => self::c04_eval::FUZZ_CA,
            "resources" => self::c04_eval::FUZZ_RESOURCES,
            _ => self::c04_eval::FUZZ_TEXT,
        };
        match raw.split_first() {
            Some((sel, body)) => (group[*sel as usize % group.len()], body.to_vec()),
            None => return,
        }
    } else {
        let Some(ep) = Ep::from_name(case["ep"].as_str().unwrap_or("")) else {
            ctx.notes.push("C04: case without a known entry point".into());
            return;
        };
        (ep, unhex(case["hex"].as_str().unwrap_or("")))
    };
    if case["isolate"].as_bool() == Some(true) {
        isolated(ctx, "replay", vec![(vec![ep], data, "replayed case".into())]);
        return;
    }
    mon.eval(ctx, &Case { ep, data: &data, mutator: "replay", seed: "case-file" });
    ctx.sig("replay");
    ctx.sig(&format!("replay|{}", ep.name()));
}
