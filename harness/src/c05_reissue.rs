//! C05 — builder inputs taken from decoded foreign objects (re-issue flows).
//!
//! Every builder entry point that accepts a value which can also come out of
//! a decoder is fed with such values: a foreign object is written by the
//! independent encoder (`c05_foreign`) in one of the legal spellings, taken
//! in by the library's own decoder, and what its accessors hand out —
//! signature algorithm, names, serials, validity, key identifiers, URIs,
//! resource sets, revocation lists, manifest content, ROA prefixes, ASPA
//! providers, public keys, whole `TbsCert`s by clone — goes into the
//! builders. The object built from them is then held to the usual laws of
//! C05: its own strict decoder accepts it, its validator accepts it wherever
//! it accepted the foreign original (same validator, same strictness, an
//! instant inside the new window), re-encoding the decoded twin reproduces
//! the bytes, and the accessor tables agree between built value and twin.
//!
//! A foreign object the library refuses, or one its validator refuses, is no
//! violation: nothing is derived from the former, and for the latter only the
//! validator leg is left out.

use super::c05_foreign as foreign;
use super::c05_foreign::{CertSpec, CrlSpec, Res, Role, Spell};
use super::c05_gen as gen;
use super::c05_gen::ResShape;
use super::c05_tab as tab;
use super::{build, classes, decode, echo, reencode, size_class, validate, Case, Env, K_ISSUER, K_ONE_OFF, K_SUBJECT, POOL};
use crate::core::{catch, Ctx, Rng};
use rpki::ca::csr::{Csr, RpkiCaCsr};
use rpki::ca::idcert::IdCert;
use rpki::crypto::keys::PublicKey;
use rpki::crypto::signature::RpkiSignatureAlgorithm;
use rpki::repository::aspa::{Aspa, AspaBuilder};
use rpki::repository::cert::{Cert, Overclaim, ResourceCert, TbsCert};
use rpki::repository::crl::{Crl, CrlEntry, TbsCertList};
use rpki::repository::manifest::{Manifest, ManifestContent};
use rpki::repository::resources::Asn;
use rpki::repository::roa::{Roa, RoaBuilder};
use rpki::repository::sigobj::{SignedObject, SignedObjectBuilder};
use rpki::repository::x509::{Serial, Time, Validity};
use serde_json::{json, Value};

//------------ helpers -------------------------------------------------------

fn mag(s: Serial) -> Vec<u8> {
    s.into_array().to_vec()
}

fn res_of(shape: &ResShape) -> Res {
    match shape {
        ResShape::Missing => Res::Missing,
        ResShape::Inherit => Res::Inherit,
        ResShape::Blocks(b) => Res::Blocks(b.clone()),
    }
}

fn spell_classes(ctx: &mut Ctx, kind: &str, path: &str, sp: &Spell) {
    let labels = sp.labels();
    ctx.sig(&format!("{}|{}|{}", kind, path, if labels.is_empty() { "canonical".to_string() } else if labels.len() <= 2 { labels.join("+") } else { format!("{} deviations", labels.len()) }));
    if labels.is_empty() {
        ctx.obs("reissue:spelling:canonical", 1);
    }
    for l in labels {
        ctx.sig(&format!("{}:spelling={}", kind, l));
        ctx.obs(&format!("reissue:spelling:{}", l), 1);
    }
}

/// The closing sample of a flow. The evidence keeps the first 24 samples in
/// key order only; a joint key that sorts first makes three literal cases of
/// the re-issue flows visible there as well.
fn flow_sample(ctx: &mut Ctx, kind: &str, v: impl Fn() -> Value) {
    ctx.sample(kind, &v);
    ctx.sample("!reissue (first flows of shard 0)", || json!({"flow": kind, "case": v()}));
}

/// Decodes a foreign object with the library. A refusal is an observation.
fn take_in<T>(ctx: &mut Ctx, kind: &str, sp: &Spell, bytes: &[u8], f: impl FnOnce() -> Result<T, String>) -> Option<T> {
    match catch(f) {
        Ok(Ok(v)) => {
            ctx.obs("reissue:foreign_accepted", 1);
            ctx.obs(&format!("reissue:foreign_accepted:{}", kind), 1);
            Some(v)
        }
        Ok(Err(e)) => {
            ctx.obs("reissue:foreign_rejected", 1);
            ctx.obs(&format!("reissue:foreign_rejected:{}", kind), 1);
            ctx.sample(&format!("reissue:foreign_rejected:{}", kind), || json!({"spelling": sp.json(), "error": e, "der": tab::hex(bytes)}));
            None
        }
        Err(p) => {
            // a panic of a decoder on foreign input is the business of C04; seen here it is recorded
            ctx.obs("reissue:foreign_decoder_panicked", 1);
            ctx.sample("reissue:foreign_decoder_panicked", || json!({"kind": kind, "spelling": sp.json(), "panic": p, "der": tab::hex(bytes)}));
            None
        }
    }
}

/// `build` for flows in which a value that carries the *mode* it was
/// captured in (a `Name`, an extended key usage, a whole `TbsCert`) comes
/// from an object decoded in relaxed mode. The library keeps such parts
/// tagged as BER (documented at `Cert::to_captured`) even when their octets
/// are DER, and bcder's assertion against mixing modes fires when a builder
/// encodes them in DER mode. Whether a value tagged like that still is a
/// builder input "conforming to the profile" is open; the outcome is
/// recorded (observation and note), not judged. Everything else about the
/// flow — and every other panic — is judged as usual.
fn build_mode_tagged<T>(ctx: &mut Ctx, case: &Case, what: &str, ber_tagged: bool, f: impl FnOnce() -> Result<T, String>) -> Option<T> {
    if !ber_tagged {
        return build(ctx, case, what, f);
    }
    match catch(f) {
        Ok(Ok(v)) => {
            ctx.obs("built", 1);
            ctx.obs("reissue:relaxed_mode_tagged_input:built", 1);
            Some(v)
        }
        Ok(Err(e)) => {
            super::builder_failed(ctx, case, what, Ok(e));
            None
        }
        Err(p) if p.contains("captured value with incompatible mode") => {
            ctx.obs("reissue:relaxed_mode_tagged_input:bcder_mode_assertion(not judged)", 1);
            let note = "observation (not judged): TbsCert::into_cert — directly or through SignedObjectBuilder::finalize (ManifestContent::into_manifest, RoaBuilder::finalize, AspaBuilder::finalize) — panics in bcder ('Trying to encode a captured value with incompatible mode') when one of its inputs (a Name, or a TbsCert by clone) was obtained from an object decoded in relaxed mode, although the octets of that part are DER; the same inputs taken from a strictly decoded object build fine. Literal cases in samples '!reissue:relaxed_mode_tagged_input'."
                .to_string();
            if !ctx.notes.contains(&note) {
                ctx.notes.push(note);
            }
            ctx.sample("!reissue:relaxed_mode_tagged_input", || json!({"what": what, "panic": p, "kind": case.kind, "inputs": case.inputs}));
            None
        }
        Err(p) => {
            super::builder_failed(ctx, case, what, Err(p));
            None
        }
    }
}

fn validate_cert(c: &Cert, role: Role, env: &Env, strict: bool, at: Time) -> Result<ResourceCert, String> {
    let c = c.clone();
    match role {
        Role::Ta => c.validate_ta_at(env.tal.clone(), strict, at),
        Role::Ca => c.validate_ca_at(&env.ta, strict, at),
        Role::Ee => c.validate_ee_at(&env.ta, strict, at),
    }
    .map_err(|e| e.to_string())
}

/// Under which strictness (if any) the library's validator accepts the
/// foreign original: `Some(true)` strict, `Some(false)` relaxed only.
fn foreign_verdict(ctx: &mut Ctx, kind: &str, f: impl Fn(bool) -> Result<(), String>) -> Option<bool> {
    let v = match catch(|| f(true)) {
        Ok(Ok(())) => Some(true),
        _ => match catch(|| f(false)) {
            Ok(Ok(())) => Some(false),
            _ => None,
        },
    };
    ctx.obs(
        &format!(
            "reissue:foreign_validated:{}:{}",
            kind,
            match v {
                Some(true) => "strict",
                Some(false) => "relaxed-only",
                None => "no",
            }
        ),
        1,
    );
    v
}

/// Rows of the certificate table whose answer a re-issue must keep.
const KEPT_CERT_ROWS: [&str; 18] = [
    "issuer", "subject", "subject_public_key_info", "basic_ca", "subject_key_identifier", "authority_key_identifier", "key_usage",
    "extended_key_usage", "crl_uri", "ca_issuer", "ca_repository", "rpki_manifest", "signed_object", "rpki_notify", "overclaim",
    "v4_resources", "v6_resources", "as_resources",
];

fn echo_cert_rows(ctx: &mut Ctx, kind: &str, foreign: &Cert, twin: &Cert, except: &[&str]) {
    for (name, f) in tab::cert_rows() {
        if KEPT_CERT_ROWS.contains(&name.as_str()) && !except.contains(&name.as_str()) {
            let a = catch(|| f(foreign));
            let b = catch(|| f(twin));
            echo(ctx, &format!("{}.{}", kind, name), a.is_ok() && a == b);
        }
    }
}

struct CertDraft {
    spec: CertSpec,
    subject_key: usize,
    issuer_key: usize,
    strict_names: bool,
    classes: Vec<(&'static str, String)>,
}

/// A foreign certificate specification of the given role, issued by the
/// monitor's trust anchor key (or self-signed for a TA).
fn cert_draft(env: &Env, rng: &mut Rng, role: Role, win: &gen::Window, for_object: Option<(&str, Res, Res, Res)>) -> CertDraft {
    let (subject_key, issuer_key) = match role {
        Role::Ta => (K_SUBJECT, K_SUBJECT),
        Role::Ca => (K_SUBJECT, K_ISSUER),
        Role::Ee => (K_ONE_OFF + rng.usize_below(POOL - K_ONE_OFF), K_ISSUER),
    };
    let (serial, serial_class) = gen::serial(rng);
    let (subject, subject_class, s_ok) = if rng.chance(1, 3) { (foreign::name_of_key(env.pool.key(subject_key)), "key-derived", true) } else { foreign::name(rng) };
    let (issuer, issuer_class, i_ok) = match role {
        Role::Ta => (subject.clone(), "=subject", true),
        _ => {
            if rng.bool() {
                (foreign::name_of_key(env.pool.key(issuer_key)), "key-derived", true)
            } else {
                foreign::name(rng)
            }
        }
    };
    let (v4, v6, asn) = match &for_object {
        Some((_, a, b, c)) => (a.clone(), b.clone(), c.clone()),
        None => {
            let (shapes, _) = super::res_triple(rng, role != Role::Ta);
            (res_of(&shapes[0]), res_of(&shapes[1]), res_of(&shapes[2]))
        }
    };
    let ext = for_object.as_ref().map(|o| o.0).unwrap_or("roa");
    let spec = CertSpec {
        role,
        serial: mag(serial),
        issuer,
        subject,
        not_before: win.validity.not_before(),
        not_after: win.validity.not_after(),
        ee_empty_basic_constraints: role == Role::Ee && for_object.is_none() && rng.chance(1, 4),
        aki_on_ta: rng.bool(),
        trim_policy: rng.chance(1, 3),
        // an extended key usage (decodable on any certificate, valid on router certificates only)
        router_eku: role == Role::Ee && for_object.is_none() && rng.chance(1, 6),
        crl_uri: gen::rsync(rng, false, "crl").as_str().to_string(),
        ca_issuer: gen::rsync(rng, false, "cer").as_str().to_string(),
        ca_repository: gen::rsync(rng, true, "").as_str().to_string(),
        rpki_manifest: gen::rsync(rng, false, "mft").as_str().to_string(),
        signed_object: gen::rsync(rng, false, ext).as_str().to_string(),
        rpki_notify: if rng.bool() { Some(gen::https(rng).as_str().to_string()) } else { None },
        v4,
        v6,
        asn,
    };
    let classes = vec![
        ("foreign-serial", serial_class),
        ("foreign-subject", subject_class.to_string()),
        ("foreign-issuer", issuer_class.to_string()),
        ("foreign-time", win.class.clone()),
        ("foreign-policy", if spec.trim_policy { "v2".into() } else { "v1".into() }),
        ("foreign-eku", if spec.router_eku { "bgpsec-router".into() } else { "absent".into() }),
        ("foreign-basic-constraints", match role {
            Role::Ee if spec.ee_empty_basic_constraints => "empty (cA false)".into(),
            Role::Ee => "absent".into(),
            _ => "cA true".into(),
        }),
    ];
    CertDraft { spec, subject_key, issuer_key, strict_names: s_ok && i_ok, classes }
}

//------------ certificates --------------------------------------------------

/// Re-issues `foreign` (already decoded by the library) and applies the laws.
/// `source` names where the certificate came from (for the case class).
#[allow(clippy::too_many_arguments)]
fn reissue_cert_from(
    ctx: &mut Ctx,
    env: &Env,
    rng: &mut Rng,
    kind: &'static str,
    source: &str,
    role: Role,
    signing_key: usize,
    foreign_cert: &Cert,
    verdict: Option<bool>,
    foreign_json: Value,
    foreign_der: &[u8],
    sp: &Spell,
    ber_tagged: bool,
) {
    let path = rng.below(3);
    let path_name = ["TbsCert clone+set_serial_number+set_validity", "TbsCert::new+setters from accessors", "TbsCert clone, nothing changed"][path as usize];
    let (serial, serial_class) = gen::serial(rng);
    let win = gen::window(rng);
    let inputs = json!({
        "foreign": foreign_json, "foreign_spelling": sp.json(), "foreign_der": tab::hex(foreign_der), "foreign_source": source,
        "foreign_validates": match verdict { Some(true) => "strict", Some(false) => "relaxed only", None => "no" },
        "path": path_name, "new_serial": gen::serial_json(serial), "new_validity": gen::validity_json(win.validity), "validate_at": gen::time_str(win.at),
        "signing_key": signing_key,
    });
    let case = Case { kind, inputs: &inputs };
    spell_classes(ctx, kind, path_name, sp);
    classes(ctx, kind, &[source, path_name, gen::serial_coarse(serial), &win.enc], &[("new-serial", &serial_class), ("new-time", &win.class), ("source", source)]);
    let (validity, at) = if path == 2 { (foreign_cert.validity(), None) } else { (win.validity, Some(win.at)) };
    let built = build_mode_tagged(ctx, &case, "TbsCert (from decoded values)::into_cert", ber_tagged, || {
        let tbs = match path {
            0 | 2 => {
                let mut tbs: TbsCert = AsRef::<TbsCert>::as_ref(foreign_cert).clone();
                if path == 0 {
                    tbs.set_serial_number(serial);
                    tbs.set_validity(validity);
                }
                tbs
            }
            _ => {
                let f = foreign_cert;
                let mut tbs = TbsCert::new(serial, f.issuer().clone(), validity, Some(f.subject().clone()), f.subject_public_key_info().clone(), f.key_usage(), f.overclaim());
                tbs.set_basic_ca(f.basic_ca());
                tbs.set_authority_key_identifier(f.authority_key_identifier());
                tbs.set_extended_key_usage(f.extended_key_usage().cloned());
                tbs.set_crl_uri(f.crl_uri().cloned());
                tbs.set_ca_issuer(f.ca_issuer().cloned());
                tbs.set_ca_repository(f.ca_repository().cloned());
                tbs.set_rpki_manifest(f.rpki_manifest().cloned());
                tbs.set_signed_object(f.signed_object().cloned());
                tbs.set_rpki_notify(f.rpki_notify().cloned());
                tbs.set_v4_resources(f.v4_resources().clone());
                tbs.set_v6_resources(f.v6_resources().clone());
                tbs.set_as_resources(f.as_resources().clone());
                tbs
            }
        };
        tbs.into_cert(&env.pool, &signing_key).map_err(|e| e.to_string())
    });
    ctx.drain_chain_hook(|| json!({"kind": kind, "phase": "build", "inputs": inputs.clone()}));
    let Some(built) = built else { return };
    ctx.obs(&format!("reissue:built:{}", kind), 1);
    let Some(der) = build(ctx, &case, "Cert::to_captured", || Ok(built.to_captured().into_bytes().to_vec())) else { return };
    let Some(decoded) = decode(ctx, &case, &der, || Cert::decode(der.as_slice()).map_err(|e| e.to_string())) else { return };
    // the validator leg: wherever the foreign original was accepted, at an instant inside the window
    let at = match at {
        Some(at) => Some(at),
        None => {
            // nothing changed: the middle of the original window
            let v = foreign_cert.validity();
            Some(gen::time_from_ts(v.not_before().timestamp() + (v.not_after().timestamp() - v.not_before().timestamp()) / 2))
        }
    };
    let mut table = tab::cert_table(kind);
    if let (Some(strict), Some(at)) = (verdict, at) {
        let at_s = gen::time_str(at);
        validate(ctx, &case, &der, &at_s, || validate_cert(&decoded, role, env, strict, at).map(|_| ()));
        let (ta, tal) = (env.ta.clone(), env.tal.clone());
        tab::push_row(&mut table, "validate_at(window instant)", move |c: &Cert| {
            let c = c.clone();
            let r = match role {
                Role::Ta => c.validate_ta_at(tal.clone(), strict, at),
                Role::Ca => c.validate_ca_at(&ta, strict, at),
                Role::Ee => c.validate_ee_at(&ta, strict, at),
            };
            match r {
                Ok(rc) => tab::rescert(&rc),
                Err(e) => format!("rejected: {}", e),
            }
        });
    } else {
        ctx.obs("reissue:validator_leg_skipped(foreign not valid)", 1);
    }
    ctx.drain_chain_hook(|| json!({"kind": kind, "phase": "validate", "inputs": inputs.clone()}));
    reencode(ctx, &case, &der, || decoded.to_captured().into_bytes().to_vec());
    let (rows, bad) = tab::compare(ctx, &table, &built, &decoded, &|| case.detail(&der));
    echo_cert_rows(ctx, kind, foreign_cert, &decoded, &[]);
    if path != 2 {
        echo(ctx, "reissue-cert.serial", decoded.serial_number() == serial);
        echo(ctx, "reissue-cert.validity", decoded.validity() == validity);
    }
    flow_sample(ctx, kind, || {
        json!({"foreign_spelling": sp.json(), "foreign_source": source, "path": path_name, "foreign_der_len": foreign_der.len(), "der_len": der.len(),
               "foreign": inputs["foreign"].clone(),
               "observed": format!("foreign accepted (validator: {:?}); re-issued, decoded, {}re-encoded identically, {} accessor rows compared, {} differing",
                                   verdict, if verdict.is_some() { "validated, " } else { "" }, rows, bad)})
    });
}

pub(super) fn do_cert(ctx: &mut Ctx, env: &Env, rng: &mut Rng, role: Role) {
    let kind: &'static str = match role {
        Role::Ta => "reissue-cert-ta",
        Role::Ca => "reissue-cert-ca",
        Role::Ee => "reissue-cert-ee",
    };
    let sp = Spell::random(rng);
    let win = gen::window(rng);
    let d = cert_draft(env, rng, role, &win, None);
    let bytes = foreign::cert(&d.spec, &sp, env.pool.key(d.subject_key), env.pool.key(d.issuer_key));
    let Some(fc) = take_in(ctx, kind, &sp, &bytes, || Cert::decode(bytes.as_slice()).map_err(|e| e.to_string())) else { return };
    let verdict = foreign_verdict(ctx, kind, |strict| validate_cert(&fc, role, env, strict, win.at).map(|_| ()));
    if verdict != Some(true) && d.strict_names && !d.spec.ee_empty_basic_constraints {
        // nothing in the specification was outside RFC 6487: worth a look by a reader
        ctx.sample("reissue:foreign_not_strictly_valid", || json!({"kind": kind, "spelling": sp.json(), "spec": d.spec.json(), "verdict": format!("{:?}", verdict),
            "strict_error": validate_cert(&fc, role, env, true, win.at).err(), "der": tab::hex(&bytes)}));
    }
    let fine: Vec<(&str, &str)> = d.classes.iter().map(|(a, b)| (*a, b.as_str())).collect();
    classes(ctx, kind, &[d.spec.v4.class(), d.spec.v6.class(), d.spec.asn.class()], &fine);
    if role != Role::Ee && rng.chance(1, 3) {
        issue_under(ctx, env, rng, role, &fc, verdict, win.at, d.subject_key, &sp, &bytes, d.spec.json());
        return;
    }
    reissue_cert_from(ctx, env, rng, kind, "Cert::decode", role, d.issuer_key, &fc, verdict, d.spec.json(), &bytes, &sp, false);
}

/// A decoded foreign CA certificate as the *issuer*: its subject name, key
/// identifier and SIA URIs go into the CRL and the manifest the CA publishes.
#[allow(clippy::too_many_arguments)]
fn issue_under(ctx: &mut Ctx, env: &Env, rng: &mut Rng, role: Role, ca: &Cert, verdict: Option<bool>, ca_at: Time, ca_key: usize, sp: &Spell, foreign_der: &[u8], foreign_json: Value) {
    let ca_info = env.pool.info(ca_key);
    let rc = verdict.and_then(|strict| validate_cert(ca, role, env, strict, ca_at).ok());
    if rng.bool() {
        let kind = "issue-crl-under-foreign-ca";
        let n = match rng.below(4) {
            0 => 0,
            1 => 1,
            _ => 2 + rng.usize_below(20),
        };
        let entries: Vec<(Serial, Time)> = (0..n).map(|_| (gen::serial(rng).0, gen::time(rng))).collect();
        let a = gen::time(rng);
        let b = gen::time(rng);
        let (this_update, next_update) = if a <= b { (a, b) } else { (b, a) };
        let (number, number_class) = gen::serial(rng);
        let via_setters = rng.bool();
        let inputs = json!({
            "foreign_ca_der": tab::hex(foreign_der), "foreign_spelling": sp.json(), "foreign_ca": foreign_json,
            "issuer": "subject() of the decoded CA certificate", "authority_key_identifier": "subject_key_identifier() of the decoded CA certificate",
            "this_update": gen::time_str(this_update), "next_update": gen::time_str(next_update), "crl_number": gen::serial_json(number),
            "entries": entries.iter().map(|(s, t)| json!([gen::serial_json(*s), gen::time_str(*t)])).collect::<Vec<_>>(), "via_setters": via_setters,
        });
        let case = Case { kind, inputs: &inputs };
        spell_classes(ctx, kind, if via_setters { "set_issuer+set_authority_key_identifier" } else { "TbsCertList::new" }, sp);
        classes(ctx, kind, &[size_class(n), gen::serial_coarse(number)], &[("number", &number_class)]);
        let list: Vec<CrlEntry> = entries.iter().map(|(s, t)| CrlEntry::new(*s, *t)).collect();
        let built = build(ctx, &case, "TbsCertList (issuer from a decoded CA certificate)::into_crl", || {
            let t = if via_setters {
                let mut t = TbsCertList::new(Default::default(), env.pool.info(K_ISSUER).to_subject_name(), this_update, next_update, list, env.pool.info(K_ISSUER).key_identifier(), number);
                t.set_issuer(ca.subject().clone());
                t.set_authority_key_identifier(ca.subject_key_identifier());
                t
            } else {
                TbsCertList::new(Default::default(), ca.subject().clone(), this_update, next_update, list, ca.subject_key_identifier(), number)
            };
            t.into_crl(&env.pool, &ca_key).map_err(|e| e.to_string())
        });
        let Some(built) = built else { return };
        ctx.obs("reissue:built:issue-crl-under-foreign-ca", 1);
        let Some(der) = build(ctx, &case, "Crl::to_captured", || Ok(built.to_captured().into_bytes().to_vec())) else { return };
        let Some(decoded) = decode(ctx, &case, &der, || Crl::decode(der.as_slice()).map_err(|e| e.to_string())) else { return };
        validate(ctx, &case, &der, "n/a (signature and issuer key identifier)", || {
            decoded.verify_signature(&ca_info).map_err(|e| e.to_string())?;
            if *decoded.authority_key_identifier() != ca_info.key_identifier() {
                return Err("authority key identifier differs from the issuing key".into());
            }
            Ok(())
        });
        reencode(ctx, &case, &der, || decoded.to_captured().into_bytes().to_vec());
        let mut probes: Vec<Serial> = entries.iter().map(|e| e.0).take(32).collect();
        probes.push(Serial::default());
        let mut table = tab::crl_table(probes);
        {
            let key = ca_info.clone();
            tab::push_row(&mut table, "verify_signature(issuer key)", move |c: &Crl| format!("{:?}", c.verify_signature(&key).map_err(|e| e.to_string())));
        }
        let (rows, bad) = tab::compare(ctx, &table, &built, &decoded, &|| case.detail(&der));
        echo(ctx, "issue-crl.issuer", catch(|| decoded.issuer() == ca.subject()).unwrap_or(false));
        flow_sample(ctx, kind, || json!({"foreign_spelling": sp.json(), "entries": n, "der_len": der.len(),
            "observed": format!("CRL issued with name and key identifier of a decoded CA certificate; decoded, verified, re-encoded identically, {} rows compared, {} differing", rows, bad)}));
    } else {
        let kind = "issue-manifest-under-foreign-ca";
        let (Some(repo), Some(mft_uri)) = (ca.ca_repository().cloned(), ca.rpki_manifest().cloned()) else {
            ctx.obs("reissue:foreign_ca_without_sia", 1);
            return;
        };
        let Ok(crl_uri) = repo.join(b"ca.crl") else { return };
        let n = rng.usize_below(12);
        let files: Vec<(Vec<u8>, Vec<u8>)> = (0..n).map(|_| (gen::mft_file_name(rng), rng.bytes(32))).collect();
        let (number, number_class) = gen::serial(rng);
        let (serial, serial_class) = gen::serial(rng);
        let win = gen::window(rng);
        let one_off = K_ONE_OFF + rng.usize_below(POOL - K_ONE_OFF);
        let inputs = json!({
            "foreign_ca_der": tab::hex(foreign_der), "foreign_spelling": sp.json(), "foreign_ca": foreign_json,
            "foreign_ca_validates": match verdict { Some(true) => "strict", Some(false) => "relaxed only", None => "no" },
            "ee_issuer": "subject() of the decoded CA certificate", "ee_signed_object": "rpki_manifest() of the decoded CA certificate",
            "ee_crl_uri": crl_uri.as_str(), "ee_ca_issuer": "ca_issuer() of the decoded CA certificate, else its manifest URI",
            "manifest_number": gen::serial_json(number), "files": files.iter().map(|(f, h)| json!([String::from_utf8_lossy(f), tab::hex(h)])).collect::<Vec<_>>(),
            "ee_serial": gen::serial_json(serial), "ee_validity": gen::validity_json(win.validity), "validate_at": gen::time_str(win.at), "one_off_key": one_off,
        });
        let case = Case { kind, inputs: &inputs };
        spell_classes(ctx, kind, "SignedObjectBuilder(names and URIs of a decoded CA certificate)", sp);
        classes(ctx, kind, &[size_class(n), gen::serial_coarse(serial), &win.enc], &[("number", &number_class), ("ee-serial", &serial_class), ("ee-time", &win.class)]);
        env.pool.set_next_one_off(one_off);
        let ca_issuer = ca.ca_issuer().cloned().unwrap_or_else(|| mft_uri.clone());
        let this_update = win.validity.not_before();
        let next_update = win.validity.not_after();
        let built = build(ctx, &case, "ManifestContent::into_manifest (builder fed from a decoded CA certificate)", || {
            let mut b = SignedObjectBuilder::new(serial, win.validity, crl_uri.clone(), ca_issuer.clone(), mft_uri.clone());
            b.set_issuer(Some(ca.subject().clone()));
            b.set_signing_time(win.at);
            let content = ManifestContent::new(
                number,
                this_update,
                next_update,
                rpki::crypto::DigestAlgorithm::default(),
                files.iter().map(|(f, h)| rpki::repository::manifest::FileAndHash::new(f.as_slice(), h.as_slice())),
            );
            content.into_manifest(b, &env.pool, &ca_key).map_err(|e| e.to_string())
        });
        let Some(built) = built else { return };
        ctx.obs("reissue:built:issue-manifest-under-foreign-ca", 1);
        let Some(der) = build(ctx, &case, "Manifest::to_captured", || Ok(built.to_captured().into_bytes().to_vec())) else { return };
        let Some(decoded) = decode(ctx, &case, &der, || Manifest::decode(der.as_slice(), true).map_err(|e| e.to_string())) else { return };
        let at = win.at;
        let mut table = tab::manifest_table(repo.clone());
        if let (Some(rc), Some(strict)) = (rc, verdict) {
            let dd = decoded.clone();
            validate(ctx, &case, &der, &gen::time_str(at), || dd.validate_at(&rc, strict, at).map(|_| ()).map_err(|e| e.to_string()));
            tab::push_row(&mut table, "validate_at(window instant)", move |m: &Manifest| match m.clone().validate_at(&rc, strict, at) {
                Ok((rc, content)) => format!("{} files={}", tab::rescert(&rc), content.len()),
                Err(e) => format!("rejected: {}", e),
            });
        } else {
            ctx.obs("reissue:validator_leg_skipped(foreign not valid)", 1);
        }
        ctx.drain_chain_hook(|| json!({"kind": kind}));
        reencode(ctx, &case, &der, || decoded.to_captured().into_bytes().to_vec());
        let (rows, bad) = tab::compare(ctx, &table, &built, &decoded, &|| case.detail(&der));
        echo(ctx, "issue-manifest.ee_issuer", catch(|| decoded.cert().issuer() == ca.subject()).unwrap_or(false));
        echo(ctx, "issue-manifest.signed_object", decoded.cert().signed_object() == Some(&mft_uri));
        echo(ctx, "issue-manifest.aki", decoded.cert().authority_key_identifier() == Some(ca.subject_key_identifier()));
        flow_sample(ctx, kind, || json!({"foreign_spelling": sp.json(), "files": n, "der_len": der.len(),
            "observed": format!("manifest issued under a decoded CA certificate (validator: {:?}); decoded strictly, re-encoded identically, {} rows compared, {} differing", verdict, rows, bad)}));
    }
}

//------------ CRL -----------------------------------------------------------

pub(super) fn do_crl(ctx: &mut Ctx, env: &Env, rng: &mut Rng) {
    let kind = "reissue-crl";
    let sp = Spell::random(rng);
    let n = match rng.below(6) {
        0 | 1 => 0,
        2 => 1,
        3 => 2,
        _ => 3 + rng.usize_below(40),
    };
    let entries: Vec<(Serial, Time)> = (0..n).map(|_| (gen::serial(rng).0, gen::time(rng))).collect();
    let a = gen::time(rng);
    let b = gen::time(rng);
    let (this_update, next_update) = if a <= b { (a, b) } else { (b, a) };
    let (number, _) = gen::serial(rng);
    let (issuer, issuer_class) = if rng.bool() { (foreign::name_of_key(env.pool.key(K_ISSUER)), "key-derived") } else { let (n, c, _) = foreign::name(rng); (n, c) };
    let spec = CrlSpec { issuer, this_update, next_update, entries: entries.iter().map(|(s, t)| (mag(*s), *t)).collect(), number: mag(number) };
    let bytes = foreign::crl(&spec, &sp, env.pool.key(K_ISSUER));
    let Some(fc) = take_in(ctx, kind, &sp, &bytes, || Crl::decode(bytes.as_slice()).map_err(|e| e.to_string())) else { return };
    let k0 = env.pool.info(K_ISSUER);
    let foreign_sig_ok = catch(|| fc.verify_signature(&k0).is_ok()).unwrap_or(false);
    ctx.obs(if foreign_sig_ok { "reissue:foreign_validated:reissue-crl:signature" } else { "reissue:foreign_validated:reissue-crl:no" }, 1);

    // the next CRL: new number and times, one more entry now and then
    let path = rng.below(4);
    let path_name = [
        "TbsCertList::new(old.signature(), old.issuer(), .., old.revoked_certs().iter() collected, old.aki, ..)",
        "TbsCertList::new(.., old.revoked_certs().iter(), ..)",
        "TbsCertList::new(default, ..)+set_signature+set_issuer+set_revoked_certs+set_authority_key_identifier",
        "old.as_cert_list() fields, set_this_update+set_next_update+set_crl_number",
    ][path as usize];
    let (new_number, number_class) = gen::serial(rng);
    let a = gen::time(rng);
    let b = gen::time(rng);
    let (new_this, new_next) = if a <= b { (a, b) } else { (b, a) };
    let extra = if path != 1 && rng.chance(1, 3) { Some((gen::serial(rng).0, gen::time(rng))) } else { None };
    let inputs = json!({
        "foreign_der": tab::hex(&bytes), "foreign_spelling": sp.json(), "path": path_name,
        "foreign": {"this_update": gen::time_str(this_update), "next_update": gen::time_str(next_update), "crl_number": gen::serial_json(number),
                    "issuer_der": tab::hex(&spec.issuer),
                    "entries": entries.iter().map(|(s, t)| json!([gen::serial_json(*s), gen::time_str(*t)])).collect::<Vec<_>>()},
        "new_this_update": gen::time_str(new_this), "new_next_update": gen::time_str(new_next), "new_crl_number": gen::serial_json(new_number),
        "additional_entry": extra.map(|(s, t)| json!([gen::serial_json(s), gen::time_str(t)])),
    });
    let case = Case { kind, inputs: &inputs };
    spell_classes(ctx, kind, path_name, &sp);
    use chrono::Datelike;
    classes(
        ctx,
        kind,
        &[size_class(n), &format!("path{}", path), gen::serial_coarse(new_number)],
        &[("foreign-issuer", issuer_class), ("new-number", &number_class),
          ("foreign-entry-times", &format!("{:?}", entries.iter().map(|e| gen::time_encoding(e.1.year())).collect::<std::collections::BTreeSet<_>>()))],
    );
    let mut want: Vec<(Serial, Time)> = entries.clone();
    if let Some(e) = extra {
        want.push(e);
    }
    let built = build(ctx, &case, "TbsCertList (from decoded values)::into_crl", || {
        let old = fc.as_cert_list();
        let mut list: Vec<CrlEntry> = old.revoked_certs().iter().collect();
        if let Some((s, t)) = extra {
            list.push(CrlEntry::new(s, t));
        }
        match path {
            0 => TbsCertList::new(old.signature(), old.issuer().clone(), new_this, new_next, list, *old.authority_key_identifier(), new_number).into_crl(&env.pool, &K_ISSUER),
            1 => TbsCertList::new(old.signature(), old.issuer().clone(), new_this, new_next, old.revoked_certs().iter(), *old.authority_key_identifier(), new_number)
                .into_crl(&env.pool, &K_ISSUER),
            2 => {
                let mut t = TbsCertList::new(
                    RpkiSignatureAlgorithm::default(),
                    k0.to_subject_name(),
                    new_this,
                    new_next,
                    Vec::<CrlEntry>::new(),
                    env.pool.info(K_SUBJECT).key_identifier(),
                    new_number,
                );
                t.set_signature(fc.signature());
                t.set_issuer(fc.issuer().clone());
                t.set_revoked_certs(list);
                t.set_authority_key_identifier(*fc.authority_key_identifier());
                t.into_crl(&env.pool, &K_ISSUER)
            }
            _ => {
                let mut t = TbsCertList::new(old.signature(), old.issuer().clone(), old.this_update(), old.next_update(), list, *old.authority_key_identifier(), old.crl_number());
                t.set_this_update(new_this);
                t.set_next_update(new_next);
                t.set_crl_number(new_number);
                t.into_crl(&env.pool, &K_ISSUER)
            }
        }
        .map_err(|e| e.to_string())
    });
    let Some(built) = built else { return };
    ctx.obs("reissue:built:reissue-crl", 1);
    let Some(der) = build(ctx, &case, "Crl::to_captured", || Ok(built.to_captured().into_bytes().to_vec())) else { return };
    let Some(decoded) = decode(ctx, &case, &der, || Crl::decode(der.as_slice()).map_err(|e| e.to_string())) else { return };
    validate(ctx, &case, &der, "n/a (signature and issuer key identifier)", || {
        decoded.verify_signature(&k0).map_err(|e| e.to_string())?;
        if *decoded.authority_key_identifier() != k0.key_identifier() {
            return Err("authority key identifier differs from the issuing key".into());
        }
        Ok(())
    });
    reencode(ctx, &case, &der, || decoded.to_captured().into_bytes().to_vec());
    let mut probes: Vec<Serial> = want.iter().map(|e| e.0).take(48).collect();
    probes.push(gen::serial(rng).0);
    probes.push(Serial::default());
    let mut table = tab::crl_table_semantic(probes);
    {
        let key = k0.clone();
        tab::push_row(&mut table, "verify_signature(issuer key)", move |c: &Crl| format!("{:?}", c.verify_signature(&key).map_err(|e| e.to_string())));
    }
    let (rows, bad) = tab::compare(ctx, &table, &built, &decoded, &|| case.detail(&der));
    // The "parameters were present" annotation of the algorithm value is not
    // an answer about the object (the library documents that it always
    // writes NULL whatever the value says): a difference is recorded.
    if built.signature() != decoded.signature() {
        ctx.obs("reissue:sigalg_annotation_differs(built vs decoded)", 1);
    }
    let got: Vec<(Serial, Time)> = catch(|| decoded.revoked_certs().iter().map(|e| (e.user_certificate, e.revocation_date)).collect()).unwrap_or_default();
    echo(ctx, "reissue-crl.entries", got == want);
    echo(ctx, "reissue-crl.issuer", catch(|| decoded.issuer() == fc.issuer()).unwrap_or(false));
    echo(ctx, "reissue-crl.aki", decoded.authority_key_identifier() == fc.authority_key_identifier());
    echo(ctx, "reissue-crl.number", decoded.crl_number() == new_number);
    echo(ctx, "reissue-crl.this_update", decoded.this_update() == new_this && decoded.next_update() == new_next);
    flow_sample(ctx, kind, || {
        json!({"foreign_spelling": sp.json(), "path": path_name, "entries": want.len(), "foreign_der_len": bytes.len(), "der_len": der.len(),
               "observed": format!("foreign CRL accepted; next CRL built from its values, decoded, signature verified, re-encoded identically, {} accessor rows compared, {} differing", rows, bad)})
    });
}

//------------ signed objects ---------------------------------------------------

#[derive(Clone, Copy, PartialEq)]
pub enum ObjKind {
    Manifest,
    Roa,
    Aspa,
}

/// A builder fed from the EE certificate of a decoded object.
fn builder_from(env: &Env, rng: &mut Rng, c: &Cert, signing_time: Time, serial: Serial, validity: Validity) -> Option<(SignedObjectBuilder, usize, &'static str)> {
    let one_off = K_ONE_OFF + rng.usize_below(POOL - K_ONE_OFF);
    env.pool.set_next_one_off(one_off);
    let mut b = SignedObjectBuilder::new(serial, validity, c.crl_uri()?.clone(), c.ca_issuer()?.clone(), c.signed_object()?.clone());
    let names = match rng.below(3) {
        0 => {
            b.set_issuer(Some(c.issuer().clone()));
            b.set_subject(Some(c.subject().clone()));
            "issuer+subject"
        }
        1 => {
            b.set_issuer(Some(c.issuer().clone()));
            "issuer"
        }
        _ => "default names",
    };
    b.set_signing_time(signing_time);
    Some((b, one_off, names))
}

pub(super) fn do_object(ctx: &mut Ctx, env: &Env, rng: &mut Rng, which: ObjKind) {
    let kind: &'static str = match which {
        ObjKind::Manifest => "reissue-manifest",
        ObjKind::Roa => "reissue-roa",
        ObjKind::Aspa => "reissue-aspa",
    };
    let sp = Spell::random(rng);
    let win = gen::window(rng);
    // how the foreign object is written and taken in
    let (how, strict_in, how_name) = match rng.below(4) {
        0 | 1 => (0u8, true, "DER, strict decoding"),
        2 => (0u8, false, "DER, relaxed decoding"),
        _ => (1u8, false, "indefinite-length outer wrapper, relaxed decoding"),
    };
    // content
    let mut content_json = json!(null);
    let (ct, econtent, ext, v4r, v6r, asr): (&[u64], Vec<u8>, &str, Res, Res, Res);
    let files: Vec<(Vec<u8>, Vec<u8>)>;
    let (number, _) = gen::serial(rng);
    let (asn, p4, p6, _) = super::roa_inputs(rng);
    let customer = gen::asn(rng);
    let mut providers: Vec<u32> = Vec::new();
    let (mft_this, mft_next) = {
        let a = gen::time(rng);
        let b = gen::time(rng);
        if a <= b { (a, b) } else { (b, a) }
    };
    match which {
        ObjKind::Manifest => {
            let n = match rng.below(5) {
                0 => 0,
                1 => 1,
                _ => 2 + rng.usize_below(30),
            };
            files = (0..n).map(|_| (gen::mft_file_name(rng), rng.bytes(32))).collect();
            ct = crate::der::OID_CT_MANIFEST;
            econtent = foreign::manifest_econtent(&mag(number), mft_this, mft_next, &files, &sp);
            ext = "mft";
            (v4r, v6r, asr) = (Res::Inherit, Res::Inherit, Res::Inherit);
            content_json = json!({"manifest_number": gen::serial_json(number), "this_update": gen::time_str(mft_this), "next_update": gen::time_str(mft_next),
                                  "files": files.iter().map(|(f, h)| json!([String::from_utf8_lossy(f), tab::hex(h)])).collect::<Vec<_>>()});
        }
        ObjKind::Roa => {
            files = Vec::new();
            let f4: Vec<(u128, u8, Option<u8>)> = p4.iter().map(|&(a, l, m)| (a >> 96, l, m)).collect();
            ct = crate::der::OID_CT_ROA;
            econtent = foreign::roa_econtent(asn, &f4, &p6, &sp);
            ext = "roa";
            v4r = if p4.is_empty() { Res::Missing } else { Res::Blocks(vec![(0, u32::MAX as u128)]) };
            v6r = if p6.is_empty() { Res::Missing } else { Res::Blocks(vec![(0, u128::MAX)]) };
            asr = Res::Missing;
            content_json = json!({"as_id": asn, "v4": f4.iter().map(|&(a, l, m)| format!("{:08x}/{} max {:?}", a, l, m)).collect::<Vec<_>>(),
                                  "v6": p6.iter().map(|&(a, l, m)| format!("{:032x}/{} max {:?}", a, l, m)).collect::<Vec<_>>()});
        }
        ObjKind::Aspa => {
            files = Vec::new();
            let n = 1 + rng.usize_below(20);
            let mut set = std::collections::BTreeSet::new();
            while set.len() < n {
                let p = if rng.chance(1, 3) { gen::asn(rng) } else { rng.next_u32() };
                if p != customer {
                    set.insert(p);
                }
            }
            providers = set.into_iter().collect();
            ct = crate::der::OID_CT_ASPA;
            econtent = foreign::aspa_econtent(customer, &providers);
            ext = "asa";
            (v4r, v6r, asr) = (Res::Missing, Res::Missing, Res::Blocks(vec![(customer as u128, customer as u128)]));
            content_json = json!({"customer_as": customer, "providers": providers});
        }
    }
    if which == ObjKind::Roa && p4.is_empty() && p6.is_empty() {
        return;
    }
    let d = cert_draft(env, rng, Role::Ee, &win, Some((ext, v4r, v6r, asr)));
    let ee_key = env.pool.key(d.subject_key);
    let ee_bytes = foreign::cert(&d.spec, &sp, ee_key, env.pool.key(K_ISSUER));
    let signing_time = if rng.bool() { win.at } else { gen::time(rng) };
    let bytes = foreign::signed_object(ct, &econtent, &ee_bytes, ee_key, signing_time, &sp, how);
    let Some(so) = take_in(ctx, kind, &sp, &bytes, || SignedObject::decode(bytes.as_slice(), strict_in).map_err(|e| e.to_string())) else { return };
    ctx.obs(&format!("reissue:foreign_taken_in:{}", how_name), 1);
    let verdict = foreign_verdict(ctx, kind, |strict| {
        if strict && !strict_in {
            // an object taken in relaxed mode is judged in relaxed mode
            return Err("n/a".into());
        }
        so.clone().validate_at(&env.ta, strict, win.at).map(|_| ()).map_err(|e| e.to_string())
    });
    if verdict.is_none() && d.strict_names {
        ctx.sample("reissue:foreign_not_valid", || json!({"kind": kind, "spelling": sp.json(), "how": how_name, "spec": d.spec.json(),
            "error": so.clone().validate_at(&env.ta, false, win.at).err().map(|e| e.to_string()), "der": tab::hex(&bytes)}));
    }
    let fine: Vec<(&str, &str)> = d.classes.iter().map(|(a, b)| (*a, b.as_str())).collect();
    classes(ctx, kind, &[how_name], &fine);

    // now and then the embedded EE certificate itself is re-issued (a whole TbsCert by clone,
    // possibly captured in BER mode) instead of the object
    if rng.chance(1, 4) {
        let ckind: &'static str = match which {
            ObjKind::Manifest => "reissue-cert-ee-of-manifest",
            ObjKind::Roa => "reissue-cert-ee-of-roa",
            ObjKind::Aspa => "reissue-cert-ee-of-aspa",
        };
        let cert = so.cert().clone();
        let cv = foreign_verdict(ctx, ckind, |strict| validate_cert(&cert, Role::Ee, env, strict, win.at).map(|_| ()));
        let src = format!("EE certificate of a signed object ({})", how_name);
        reissue_cert_from(ctx, env, rng, ckind, &src, Role::Ee, K_ISSUER, &cert, cv, d.spec.json(), &bytes, &sp, !strict_in);
        return;
    }

    let (serial, serial_class) = gen::serial(rng);
    let new_win = gen::window(rng);
    let Some((builder, one_off, names)) = builder_from(env, rng, so.cert(), so.signing_time(), serial, new_win.validity) else {
        ctx.obs("reissue:foreign_ee_without_uris", 1);
        return;
    };
    let path = rng.below(2);
    let inputs = json!({
        "foreign_der": tab::hex(&bytes), "foreign_spelling": sp.json(), "foreign_written_and_decoded": how_name, "foreign_content": content_json,
        "foreign_ee": d.spec.json(), "foreign_signing_time": gen::time_str(signing_time),
        "foreign_validates": match verdict { Some(true) => "strict", Some(false) => "relaxed only", None => "no" },
        "new_ee_serial": gen::serial_json(serial), "new_ee_validity": gen::validity_json(new_win.validity), "validate_at": gen::time_str(new_win.at),
        "names_taken": names, "content_path": path, "one_off_key": one_off,
    });
    let case = Case { kind, inputs: &inputs };
    spell_classes(ctx, kind, how_name, &sp);
    classes(ctx, kind, &[how_name, names, &format!("content-path{}", path), gen::serial_coarse(serial), &new_win.enc], &[("new-ee-serial", &serial_class), ("new-ee-time", &new_win.class)]);
    let at = new_win.at;
    let at_s = gen::time_str(at);
    let fcert = so.cert().clone();
    // names carry the mode they were captured in
    let ber_tagged = !strict_in && names != "default names";
    match which {
        ObjKind::Manifest => {
            let Some(fm) = take_in(ctx, kind, &sp, &bytes, || Manifest::decode(bytes.as_slice(), strict_in).map_err(|e| e.to_string())) else { return };
            let built = build_mode_tagged(ctx, &case, "ManifestContent (decoded)::into_manifest", ber_tagged, || {
                let content = if path == 0 {
                    fm.content().clone()
                } else {
                    let c = fm.content();
                    ManifestContent::new(c.manifest_number(), c.this_update(), c.next_update(), c.file_hash_alg(), c.iter())
                };
                content.into_manifest(builder, &env.pool, &K_ISSUER).map_err(|e| e.to_string())
            });
            let Some(built) = built else { return };
            ctx.obs("reissue:built:reissue-manifest", 1);
            let Some(der) = build(ctx, &case, "Manifest::to_captured", || Ok(built.to_captured().into_bytes().to_vec())) else { return };
            let Some(decoded) = decode(ctx, &case, &der, || Manifest::decode(der.as_slice(), true).map_err(|e| e.to_string())) else { return };
            let mut table = tab::manifest_table(gen::rsync(rng, true, ""));
            if let Some(strict) = verdict {
                let dd = decoded.clone();
                validate(ctx, &case, &der, &at_s, || dd.validate_at(&env.ta, strict, at).map(|_| ()).map_err(|e| e.to_string()));
                let ta = env.ta.clone();
                tab::push_row(&mut table, "validate_at(window instant)", move |m: &Manifest| match m.clone().validate_at(&ta, strict, at) {
                    Ok((rc, content)) => format!("{} files={}", tab::rescert(&rc), content.len()),
                    Err(e) => format!("rejected: {}", e),
                });
            } else {
                ctx.obs("reissue:validator_leg_skipped(foreign not valid)", 1);
            }
            ctx.drain_chain_hook(|| json!({"kind": kind}));
            reencode(ctx, &case, &der, || decoded.to_captured().into_bytes().to_vec());
            let (rows, bad) = tab::compare(ctx, &table, &built, &decoded, &|| case.detail(&der));
            let got: Vec<(Vec<u8>, Vec<u8>)> = catch(|| decoded.content().iter().map(|f| (f.file().to_vec(), f.hash().to_vec())).collect()).unwrap_or_default();
            echo(ctx, "reissue-manifest.files", got == files);
            echo(ctx, "reissue-manifest.len", decoded.content().len() == files.len());
            echo(ctx, "reissue-manifest.number", decoded.content().manifest_number() == number);
            echo(ctx, "reissue-manifest.times", decoded.content().this_update() == mft_this && decoded.content().next_update() == mft_next);
            echo_cert_rows(ctx, kind, &fcert, decoded.cert(), if names == "issuer+subject" { &["subject_public_key_info", "subject_key_identifier", "overclaim"] } else { &["subject_public_key_info", "subject_key_identifier", "overclaim", "subject", "issuer"] });
            flow_sample(ctx, kind, || json!({"foreign_spelling": sp.json(), "foreign_written_and_decoded": how_name, "files": files.len(), "der_len": der.len(),
                "observed": format!("foreign manifest accepted (validator: {:?}); content and EE fields re-issued, decoded strictly, re-encoded identically, {} rows compared, {} differing", verdict, rows, bad)}));
        }
        ObjKind::Roa => {
            let Some(fr) = take_in(ctx, kind, &sp, &bytes, || Roa::decode(bytes.as_slice(), strict_in).map_err(|e| e.to_string())) else { return };
            let built = build_mode_tagged(ctx, &case, "RoaBuilder (from decoded prefixes)::finalize", ber_tagged, || {
                let att = fr.content();
                let mut b = RoaBuilder::new(att.as_id());
                if path == 0 {
                    for a in att.v4_addrs().iter() {
                        b.push_v4(a);
                    }
                    for a in att.v6_addrs().iter() {
                        b.push_v6(a);
                    }
                } else {
                    for f in att.iter() {
                        b.push_addr(f.address(), f.address_length(), Some(f.max_length()));
                    }
                }
                b.finalize(builder, &env.pool, &K_ISSUER).map_err(|e| e.to_string())
            });
            ctx.drain_chain_hook(|| json!({"kind": kind, "phase": "build", "inputs": inputs.clone()}));
            let Some(built) = built else { return };
            ctx.obs("reissue:built:reissue-roa", 1);
            let Some(der) = build(ctx, &case, "Roa::to_captured", || Ok(built.to_captured().into_bytes().to_vec())) else { return };
            let Some(decoded) = decode(ctx, &case, &der, || Roa::decode(der.as_slice(), true).map_err(|e| e.to_string())) else { return };
            if let Some(strict) = verdict {
                validate(ctx, &case, &der, &at_s, || {
                    let so = SignedObject::decode(der.as_slice(), true).map_err(|e| e.to_string())?;
                    so.validate_at(&env.ta, strict, at).map(|_| ()).map_err(|e| e.to_string())
                });
            } else {
                ctx.obs("reissue:validator_leg_skipped(foreign not valid)", 1);
            }
            ctx.drain_chain_hook(|| json!({"kind": kind, "phase": "validate", "inputs": inputs.clone()}));
            reencode(ctx, &case, &der, || decoded.to_captured().into_bytes().to_vec());
            let table = tab::roa_table();
            let (rows, bad) = tab::compare(ctx, &table, &built, &decoded, &|| case.detail(&der));
            let render = |r: &Roa| -> Vec<(u128, u8, u8)> { r.content().iter().map(|f| (f.prefix().addr().to_bits(), f.address_length(), f.max_length())).collect() };
            let (a, b) = (catch(|| render(&fr)), catch(|| render(&decoded)));
            echo(ctx, "reissue-roa.prefixes", a.is_ok() && a == b);
            echo(ctx, "reissue-roa.as_id", decoded.content().as_id().into_u32() == asn);
            echo_cert_rows(ctx, kind, &fcert, decoded.cert(), &["subject_public_key_info", "subject_key_identifier", "overclaim", "subject", "issuer", "v4_resources", "v6_resources"]);
            flow_sample(ctx, kind, || json!({"foreign_spelling": sp.json(), "foreign_written_and_decoded": how_name, "v4": p4.len(), "v6": p6.len(), "der_len": der.len(),
                "observed": format!("foreign ROA accepted (validator: {:?}); prefixes and EE fields re-issued, decoded strictly, re-encoded identically, {} rows compared, {} differing", verdict, rows, bad)}));
        }
        ObjKind::Aspa => {
            let Some(fa) = take_in(ctx, kind, &sp, &bytes, || Aspa::decode(bytes.as_slice(), strict_in).map_err(|e| e.to_string())) else { return };
            let built = build_mode_tagged(ctx, &case, "AspaBuilder (from decoded providers)::finalize", ber_tagged, || {
                let att = fa.content();
                let b = if path == 0 {
                    AspaBuilder::new(att.customer_as(), att.provider_as_set().iter().collect::<Vec<Asn>>()).map_err(|e| e.to_string())?
                } else {
                    let mut b = AspaBuilder::empty(att.customer_as());
                    for p in att.provider_as_set().to_set().iter() {
                        b.add_provider(p).map_err(|e| e.to_string())?;
                    }
                    b
                };
                b.finalize(builder, &env.pool, &K_ISSUER).map_err(|e| e.to_string())
            });
            ctx.drain_chain_hook(|| json!({"kind": kind, "phase": "build"}));
            let Some(built) = built else { return };
            ctx.obs("reissue:built:reissue-aspa", 1);
            let Some(der) = build(ctx, &case, "Aspa::to_captured", || Ok(built.to_captured().into_bytes().to_vec())) else { return };
            let Some(decoded) = decode(ctx, &case, &der, || Aspa::decode(der.as_slice(), true).map_err(|e| e.to_string())) else { return };
            if let Some(strict) = verdict {
                validate(ctx, &case, &der, &at_s, || {
                    let so = SignedObject::decode(der.as_slice(), true).map_err(|e| e.to_string())?;
                    so.validate_at(&env.ta, strict, at).map(|_| ()).map_err(|e| e.to_string())
                });
            } else {
                ctx.obs("reissue:validator_leg_skipped(foreign not valid)", 1);
            }
            ctx.drain_chain_hook(|| json!({"kind": kind, "phase": "validate"}));
            reencode(ctx, &case, &der, || decoded.to_captured().into_bytes().to_vec());
            let table = tab::aspa_table();
            let (rows, bad) = tab::compare(ctx, &table, &built, &decoded, &|| case.detail(&der));
            let got: Vec<u32> = catch(|| decoded.content().provider_as_set().iter().map(|a| a.into_u32()).collect()).unwrap_or_default();
            echo(ctx, "reissue-aspa.providers", got == providers);
            echo(ctx, "reissue-aspa.customer", decoded.content().customer_as().into_u32() == customer);
            echo_cert_rows(ctx, kind, &fcert, decoded.cert(), &["subject_public_key_info", "subject_key_identifier", "overclaim", "subject", "issuer"]);
            flow_sample(ctx, kind, || json!({"foreign_spelling": sp.json(), "foreign_written_and_decoded": how_name, "providers": providers.len(), "der_len": der.len(),
                "observed": format!("foreign ASPA accepted (validator: {:?}); providers and EE fields re-issued, decoded strictly, re-encoded identically, {} rows compared, {} differing", verdict, rows, bad)}));
        }
    }
}

//------------ certification requests -------------------------------------------

/// Request -> certificate: a foreign CSR is taken in and what it asks for
/// (key, subject, SIA URIs) is put into a CA certificate. And the other way
/// round: the SIA URIs of a decoded foreign CA certificate go into the
/// library's CSR builder.
pub(super) fn do_csr(ctx: &mut Ctx, env: &Env, rng: &mut Rng) {
    let sp = Spell::random(rng);
    if rng.bool() {
        let kind = "reissue-csr-to-cert";
        let key = K_SUBJECT;
        let (subject, subject_class, strict_name) = if rng.bool() { (foreign::name_of_key(env.pool.key(key)), "key-derived", true) } else { foreign::name(rng) };
        let repo = gen::rsync(rng, true, "");
        let mft = gen::rsync(rng, false, "mft");
        let notify = if rng.bool() { Some(gen::https(rng)) } else { None };
        let bytes = foreign::csr(&subject, env.pool.key(key), repo.as_str(), mft.as_str(), notify.as_ref().map(|u| u.as_str()), &sp);
        let Some(req) = take_in(ctx, kind, &sp, &bytes, || RpkiCaCsr::decode(bytes.as_slice()).map_err(|e| e.to_string())) else { return };
        let pop = catch(|| req.verify_signature().is_ok()).unwrap_or(false);
        ctx.obs(if pop { "reissue:foreign_validated:reissue-csr-to-cert:proof-of-possession" } else { "reissue:foreign_validated:reissue-csr-to-cert:no" }, 1);
        let (serial, serial_class) = gen::serial(rng);
        let win = gen::window(rng);
        let (shapes, _) = super::res_triple(rng, true);
        let v4 = gen::ip_resources(rng, &match &shapes[0] {
            ResShape::Blocks(b) => ResShape::Blocks(gen::v4_to_lib(b)),
            other => other.clone(),
        });
        let v6 = gen::ip_resources(rng, &shapes[1]);
        let asr = gen::as_resources(rng, &shapes[2]);
        let crl_uri = gen::rsync(rng, false, "crl");
        let ca_issuer = gen::rsync(rng, false, "cer");
        let keep_subject = rng.bool();
        let inputs = json!({
            "foreign_csr_der": tab::hex(&bytes), "foreign_spelling": sp.json(),
            "foreign": {"subject_der": tab::hex(&subject), "ca_repository": repo.as_str(), "rpki_manifest": mft.as_str(), "rpki_notify": notify.as_ref().map(|u| u.as_str().to_string())},
            "serial": gen::serial_json(serial), "validity": gen::validity_json(win.validity), "validate_at": gen::time_str(win.at),
            "subject": if keep_subject { "as requested" } else { "derived from the requested key" },
            "v4": shapes[0].json(), "v6": shapes[1].json(), "as": shapes[2].json(), "crl_uri": crl_uri.as_str(), "ca_issuer": ca_issuer.as_str(),
        });
        let case = Case { kind, inputs: &inputs };
        spell_classes(ctx, kind, "TbsCert::new(csr.public_key(), csr.subject())+SIA from csr", &sp);
        classes(ctx, kind, &[gen::serial_coarse(serial), &win.enc, if keep_subject { "subject kept" } else { "subject default" }],
                &[("serial", &serial_class), ("time", &win.class), ("requested-subject", subject_class)]);
        let issuer_info = env.pool.info(K_ISSUER);
        let built = build(ctx, &case, "TbsCert (from a decoded CSR)::into_cert", || {
            let mut tbs = TbsCert::new(
                serial,
                issuer_info.to_subject_name(),
                win.validity,
                if keep_subject { Some(req.subject().clone()) } else { None },
                req.public_key().clone(),
                req.key_usage(),
                Overclaim::Refuse,
            );
            tbs.set_basic_ca(Some(req.basic_ca()));
            tbs.set_authority_key_identifier(Some(issuer_info.key_identifier()));
            tbs.set_crl_uri(Some(crl_uri.clone()));
            tbs.set_ca_issuer(Some(ca_issuer.clone()));
            tbs.set_ca_repository(req.ca_repository().cloned());
            tbs.set_rpki_manifest(req.rpki_manifest().cloned());
            tbs.set_rpki_notify(req.rpki_notify().cloned());
            tbs.set_extended_key_usage(req.extended_key_usage().cloned());
            tbs.set_v4_resources(v4);
            tbs.set_v6_resources(v6);
            tbs.set_as_resources(asr);
            tbs.into_cert(&env.pool, &K_ISSUER).map_err(|e| e.to_string())
        });
        ctx.drain_chain_hook(|| json!({"kind": kind, "inputs": inputs.clone()}));
        let Some(built) = built else { return };
        ctx.obs("reissue:built:reissue-csr-to-cert", 1);
        let Some(der) = build(ctx, &case, "Cert::to_captured", || Ok(built.to_captured().into_bytes().to_vec())) else { return };
        let Some(decoded) = decode(ctx, &case, &der, || Cert::decode(der.as_slice()).map_err(|e| e.to_string())) else { return };
        let at = win.at;
        // the requested subject is only inside RFC 6487 when it is printable
        let strict = !keep_subject || strict_name;
        validate(ctx, &case, &der, &gen::time_str(at), || validate_cert(&decoded, Role::Ca, env, strict, at).map(|_| ()));
        ctx.drain_chain_hook(|| json!({"kind": kind, "phase": "validate"}));
        reencode(ctx, &case, &der, || decoded.to_captured().into_bytes().to_vec());
        let mut table = tab::cert_table(kind);
        {
            let ta = env.ta.clone();
            tab::push_row(&mut table, "validate_at(window instant)", move |c: &Cert| match c.clone().validate_ca_at(&ta, strict, at) {
                Ok(rc) => tab::rescert(&rc),
                Err(e) => format!("rejected: {}", e),
            });
        }
        let (rows, bad) = tab::compare(ctx, &table, &built, &decoded, &|| case.detail(&der));
        echo(ctx, "reissue-csr-to-cert.ca_repository", decoded.ca_repository().map(|u| u.as_str()) == Some(repo.as_str()));
        echo(ctx, "reissue-csr-to-cert.rpki_manifest", decoded.rpki_manifest().map(|u| u.as_str()) == Some(mft.as_str()));
        echo(ctx, "reissue-csr-to-cert.rpki_notify", decoded.rpki_notify().map(|u| u.as_str().to_string()) == notify.as_ref().map(|u| u.as_str().to_string()));
        echo(ctx, "reissue-csr-to-cert.key", *decoded.subject_public_key_info() == env.pool.info(key));
        flow_sample(ctx, kind, || json!({"foreign_spelling": sp.json(), "requested_subject": subject_class, "der_len": der.len(),
            "observed": format!("foreign CSR accepted (proof of possession {}); CA certificate built from it, decoded, validated, re-encoded identically, {} rows compared, {} differing", pop, rows, bad)}));
    } else {
        let kind = "reissue-cert-to-csr";
        let win = gen::window(rng);
        let d = cert_draft(env, rng, Role::Ca, &win, None);
        let bytes = foreign::cert(&d.spec, &sp, env.pool.key(d.subject_key), env.pool.key(d.issuer_key));
        let Some(fc) = take_in(ctx, kind, &sp, &bytes, || Cert::decode(bytes.as_slice()).map_err(|e| e.to_string())) else { return };
        let (Some(repo), Some(mft)) = (fc.ca_repository().cloned(), fc.rpki_manifest().cloned()) else {
            ctx.obs("reissue:foreign_ca_without_sia", 1);
            return;
        };
        let notify = fc.rpki_notify().cloned();
        let key = K_SUBJECT + rng.usize_below(2);
        let inputs = json!({"foreign_cert_der": tab::hex(&bytes), "foreign_spelling": sp.json(), "foreign": d.spec.json(), "key": key});
        let case = Case { kind, inputs: &inputs };
        spell_classes(ctx, kind, "Csr::construct_rpki_ca(URIs of a decoded certificate)", &sp);
        let built = build(ctx, &case, "Csr::construct_rpki_ca", || {
            Csr::construct_rpki_ca(&env.pool, &key, &repo, &mft, notify.as_ref()).map(|c| c.into_bytes().to_vec()).map_err(|e| e.to_string())
        });
        let Some(der) = built else { return };
        ctx.obs("reissue:built:reissue-cert-to-csr", 1);
        let Some(decoded) = decode(ctx, &case, &der, || RpkiCaCsr::decode(der.as_slice()).map_err(|e| e.to_string())) else { return };
        validate(ctx, &case, &der, "n/a (proof of possession)", || decoded.verify_signature().map_err(|e| e.to_string()));
        reencode(ctx, &case, &der, || decoded.to_captured().into_bytes().to_vec());
        let twin = catch(|| RpkiCaCsr::decode(decoded.to_captured().as_slice()).ok()).ok().flatten();
        let (mut rows, mut bad) = (0, 0);
        if let Some(twin) = twin {
            let r = tab::compare(ctx, &tab::csr_table(), &decoded, &twin, &|| case.detail(&der));
            rows = r.0;
            bad = r.1;
        }
        // the builder returns bytes only: the inputs are the "built" view
        let check = |ctx: &mut Ctx, field: &str, ok: bool, got: String, want: String| {
            ctx.eval();
            if !ok {
                ctx.violation(&format!("C05:csr-input-not-echoed:{}", field), &format!("{}: decoded `{}` is {} but the builder was given {}", kind, field, got, want), case.detail(&der));
            }
        };
        let got = decoded.ca_repository().map(|u| u.as_str().to_string());
        check(ctx, "ca_repository", got.as_deref() == Some(repo.as_str()), format!("{:?}", got), repo.as_str().to_string());
        let got = decoded.rpki_manifest().map(|u| u.as_str().to_string());
        check(ctx, "rpki_manifest", got.as_deref() == Some(mft.as_str()), format!("{:?}", got), mft.as_str().to_string());
        let got = decoded.rpki_notify().map(|u| u.as_str().to_string());
        let want = notify.as_ref().map(|u| u.as_str().to_string());
        check(ctx, "rpki_notify", got == want, format!("{:?}", got), format!("{:?}", want));
        check(ctx, "public_key", *decoded.public_key() == env.pool.info(key), "another key".into(), "pool key".into());
        flow_sample(ctx, kind, || json!({"foreign_spelling": sp.json(), "der_len": der.len(),
            "observed": format!("foreign CA certificate accepted; CSR built from its SIA URIs, decoded, proof of possession verified, re-encoded identically, inputs echoed, {} rows compared, {} differing", rows, bad)}));
    }
}

//------------ identity certificates --------------------------------------------

/// `IdCert::new_ee` with a public key decoded from a foreign
/// SubjectPublicKeyInfo (with / without NULL parameters) and a validity
/// decoded from a foreign certificate (UTCTime / GeneralizedTime).
pub(super) fn do_idcert(ctx: &mut Ctx, env: &Env, rng: &mut Rng) {
    let kind = "reissue-idcert-ee";
    let sp = Spell::random(rng);
    let win = gen::window(rng);
    let d = cert_draft(env, rng, Role::Ee, &win, None);
    let ee_key_idx = d.subject_key;
    let bytes = foreign::cert(&d.spec, &sp, env.pool.key(ee_key_idx), env.pool.key(K_ISSUER));
    let Some(fc) = take_in(ctx, kind, &sp, &bytes, || Cert::decode(bytes.as_slice()).map_err(|e| e.to_string())) else { return };
    let spki = foreign::spki(env.pool.key(ee_key_idx), sp.spki_null);
    let Some(key) = take_in(ctx, kind, &sp, &spki, || PublicKey::decode(spki.as_slice()).map_err(|e| e.to_string())) else { return };
    let validity = fc.validity();
    let issuing = K_SUBJECT;
    let inputs = json!({"foreign_cert_der": tab::hex(&bytes), "foreign_spki_der": tab::hex(&spki), "foreign_spelling": sp.json(),
                        "validity": gen::validity_json(validity), "validate_at": gen::time_str(win.at), "issuing_key": issuing, "ee_key": ee_key_idx});
    let case = Case { kind, inputs: &inputs };
    spell_classes(ctx, kind, "IdCert::new_ee(decoded key, decoded validity)", &sp);
    classes(ctx, kind, &[&win.enc], &[("time", &win.class)]);
    let built = build(ctx, &case, "IdCert::new_ee", || IdCert::new_ee(&key, validity, &issuing, &env.pool).map_err(|e| e.to_string()));
    let Some(built) = built else { return };
    ctx.obs("reissue:built:reissue-idcert-ee", 1);
    let Some(der) = build(ctx, &case, "IdCert::to_captured", || Ok(built.to_captured().into_bytes().to_vec())) else { return };
    let Some(decoded) = decode(ctx, &case, &der, || IdCert::decode(der.as_slice()).map_err(|e| e.to_string())) else { return };
    let at = win.at;
    let issuer_key = env.pool.info(issuing);
    validate(ctx, &case, &der, &gen::time_str(at), || decoded.validate_ee_at(&issuer_key, at).map_err(|e| e.to_string()));
    reencode(ctx, &case, &der, || decoded.to_captured().into_bytes().to_vec());
    let mut table = tab::idcert_table(kind);
    {
        let k = issuer_key.clone();
        tab::push_row(&mut table, "validate_at(window instant)", move |c: &IdCert| format!("{:?}", c.validate_ee_at(&k, at).map_err(|e| e.to_string())));
    }
    let (rows, bad) = tab::compare(ctx, &table, &built, &decoded, &|| case.detail(&der));
    echo(ctx, "reissue-idcert.validity", *decoded.validity() == win.validity);
    echo(ctx, "reissue-idcert.key", *decoded.public_key() == env.pool.info(ee_key_idx));
    flow_sample(ctx, kind, || json!({"foreign_spelling": sp.json(), "der_len": der.len(),
        "observed": format!("key and validity decoded from foreign encodings; identity EE certificate built, decoded, validated, re-encoded identically, {} rows compared, {} differing", rows, bad)}));
}
